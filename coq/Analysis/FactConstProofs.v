(* C13: soundness of the constant-fact checker (FactConst.v):
     check_const_func N P f = true  ->  in every execution of f every
   expression reported constant evaluates to that constant.
   The core is determinism: a pure scalar expression evaluates to the same
   value in every environment that agrees with the checker's on the names the
   checker knows, in any store, at any sufficient fuel. *)
From Coq Require Import ZArith List Bool String Lia.
From FpyV Require Import Num.RealFloat Num.Float Num.CtxDef Lang.Syntax Lang.Values Lang.Sem Lang.SemMono
  Analysis.ClassLattice Analysis.Instr Analysis.InstrProofs Analysis.FactClass Analysis.TraceLogic
  Analysis.FactReach Analysis.FactConst.
Import ListNotations.
Open Scope Z_scope.

Section Const.
Variable N : numops.
Variable P : program.

Notation ieval := (ieval ann N P).
Notation ievals := (ievals ann N P).
Notation icmp_chain := (icmp_chain ann N P).
Notation ibool_chain := (ibool_chain ann N P).
Notation iexec := (iexec ann N P).
Notation iexec_block := (iexec_block ann N P).
Notation ifor_loop := (ifor_loop ann N P).

Definition evc (ev : event ann) : Prop := ev_const_ok ev = true.
Notation mokc := (mokP ann evc).

Definition cinv (G s : env) : Prop := forall x v, env_get G x = Some v -> env_get s x = Some v.
Definition gscalar (G : env) : Prop := forall x v, env_get G x = Some v -> scalar_value v = true.
Definition kctx (K : option ctx) (C : ctx) : Prop := forall c, K = Some c -> C = c.

Tactic Notation "minv" hyp(H) "as" simple_intropattern(x) ident(Hx) :=
  apply snd_mbind_inv in H; destruct H as (x & Hx & H); cbn [snd liftr] in Hx.

Lemma as_num_inv : forall v x, as_num v = ROk x -> v = VNum x.
Proof. intros v x H; destruct v; cbn in H; try discriminate. inversion H; reflexivity. Qed.
Lemma as_bool_inv : forall v x, as_bool v = ROk x -> v = VBool x.
Proof. intros v x H; destruct v; cbn in H; try discriminate. inversion H; reflexivity. Qed.

(* ================================================================ determinism of pure scalar evaluation *)
Lemma value_eq_scalar : forall n mu1 mu2 v w,
  scalar_value v = true -> scalar_value w = true -> value_eq N n mu1 v w = value_eq N n mu2 v w.
Proof. intros [|n] mu1 mu2 v w Hv Hw; [reflexivity|]. destruct v, w; try discriminate; reflexivity. Qed.

Definition agree_at (k : nat) : Prop :=
  (forall e G s D1 D2 mu1 mu2 C v1 v2 m1 m2,
     snd (ieval k G D1 mu1 C e) = ROk (v1, m1) -> snd (ieval k s D2 mu2 C e) = ROk (v2, m2) ->
     pure_e e = true -> cinv G s -> gscalar G ->
     v1 = v2 /\ scalar_value v1 = true) /\
  (forall es G s D1 D2 mu1 mu2 C vs1 vs2 m1 m2,
     snd (ievals k G D1 mu1 C es) = ROk (vs1, m1) -> snd (ievals k s D2 mu2 C es) = ROk (vs2, m2) ->
     forallb pure_e es = true -> cinv G s -> gscalar G ->
     vs1 = vs2 /\ forallb scalar_value vs1 = true) /\
  (forall args G s D1 D2 mu1 mu2 C v ops r1 r2 m1 m2,
     snd (icmp_chain k G D1 mu1 C v ops args) = ROk (r1, m1) -> snd (icmp_chain k s D2 mu2 C v ops args) = ROk (r2, m2) ->
     forallb pure_e args = true -> cinv G s -> gscalar G -> scalar_value v = true ->
     r1 = r2 /\ scalar_value r1 = true) /\
  (forall args G s D1 D2 mu1 mu2 C u r1 r2 m1 m2,
     snd (ibool_chain k G D1 mu1 C u args) = ROk (r1, m1) -> snd (ibool_chain k s D2 mu2 C u args) = ROk (r2, m2) ->
     forallb pure_e args = true -> cinv G s -> gscalar G ->
     r1 = r2 /\ scalar_value r1 = true).

Ltac bsp := repeat match goal with H : (_ && _) = true |- _ => apply andb_prop in H; destruct H end.
Ltac fin2 R1 R2 := cbn in R1, R2; inversion R1; inversion R2; subst; split; reflexivity.

(* both runs evaluate a subexpression: same value *)
Ltac sub_e IHe R1 R2 Hi Hg :=
  let va1 := fresh "va" in let va2 := fresh "vb" in let ma1 := fresh "ma" in let ma2 := fresh "mb" in
  let A1 := fresh "A" in let A2 := fresh "B" in let E := fresh "E" in let S := fresh "S" in
  minv R1 as [va1 ma1] A1; minv R2 as [va2 ma2] A2;
  destruct (IHe _ _ _ _ _ _ _ _ _ _ _ _ A1 A2 ltac:(assumption) Hi Hg) as [E S]; subst va2.
(* both runs go through the same pure step *)
Ltac sub_p R1 R2 :=
  let x1 := fresh "x" in let x2 := fresh "y" in let X1 := fresh "X" in let X2 := fresh "Y" in
  minv R1 as x1 X1; minv R2 as x2 X2; rewrite X1 in X2; inversion X2; subst.

Lemma agree_all : forall k, agree_at k.
Proof.
  induction k as [|k (IHe & IHes & IHc & IHb)].
  - split; [|split; [|split]]; intros; discriminate.
  - split; [|split; [|split]].
    + intros e G s D1 D2 mu1 mu2 C v1 v2 m1 m2 R1 R2 Hp Hi Hg. rewrite ieval_S in R1, R2.
      destruct e; cbn [ieval_body] in R1, R2; cbn [pure_e] in Hp; bsp; try discriminate.
      * (* var *) destruct (env_get G x) as [v|] eqn:Ex; [|discriminate]. rewrite (Hi _ _ Ex) in R2.
        cbn in R1, R2. inversion R1; inversion R2; subst. split; [reflexivity|eapply Hg; eauto].
      * fin2 R1 R2.
      * destruct (d =? 0); [discriminate|]. fin2 R1 R2.
      * fin2 R1 R2.
      * fin2 R1 R2.
      * sub_p R1 R2. fin2 R1 R2.
      * sub_e IHe R1 R2 Hi Hg. sub_p R1 R2. sub_p R1 R2. fin2 R1 R2.
      * sub_e IHe R1 R2 Hi Hg. sub_e IHe R1 R2 Hi Hg. sub_p R1 R2. sub_p R1 R2. sub_p R1 R2. fin2 R1 R2.
      * sub_e IHe R1 R2 Hi Hg. sub_e IHe R1 R2 Hi Hg. sub_e IHe R1 R2 Hi Hg.
        sub_p R1 R2. sub_p R1 R2. sub_p R1 R2. sub_p R1 R2. fin2 R1 R2.
      * sub_e IHe R1 R2 Hi Hg. sub_p R1 R2. fin2 R1 R2.
      * (* compare *) destruct args as [|e1 rest]; [discriminate|]. cbn [forallb] in Hp. bsp.
        sub_e IHe R1 R2 Hi Hg.
        minv R1 as [r1 n1] C1. minv R2 as [r2 n2] C2.
        destruct (IHc _ _ _ _ _ _ _ _ _ _ _ _ _ _ C1 C2 ltac:(assumption) Hi Hg ltac:(assumption)) as [-> Sc].
        cbn in R1, R2. inversion R1; inversion R2; subst. split; auto.
      * (* and *) minv R1 as [r1 n1] C1. minv R2 as [r2 n2] C2.
        destruct (IHb _ _ _ _ _ _ _ _ _ _ _ _ _ C1 C2 ltac:(assumption) Hi Hg) as [-> Sc].
        cbn in R1, R2. inversion R1; inversion R2; subst. split; auto.
      * (* or *) minv R1 as [r1 n1] C1. minv R2 as [r2 n2] C2.
        destruct (IHb _ _ _ _ _ _ _ _ _ _ _ _ _ C1 C2 ltac:(assumption) Hi Hg) as [-> Sc].
        cbn in R1, R2. inversion R1; inversion R2; subst. split; auto.
      * (* not *) sub_e IHe R1 R2 Hi Hg. sub_p R1 R2. fin2 R1 R2.
      * (* if *) sub_e IHe R1 R2 Hi Hg. sub_p R1 R2.
        minv R1 as [r1 n1] C1. minv R2 as [r2 n2] C2.
        assert (Er : r1 = r2 /\ scalar_value r1 = true).
        { destruct y; eapply IHe; eauto. }
        destruct Er as [-> Sc]. cbn in R1, R2. inversion R1; inversion R2; subst. split; auto.
      * (* min *) minv R1 as [vs1 n1] C1. minv R2 as [vs2 n2] C2.
        destruct (IHes _ _ _ _ _ _ _ _ _ _ _ _ C1 C2 ltac:(assumption) Hi Hg) as [-> _].
        sub_p R1 R2. sub_p R1 R2. fin2 R1 R2.
      * (* max *) minv R1 as [vs1 n1] C1. minv R2 as [vs2 n2] C2.
        destruct (IHes _ _ _ _ _ _ _ _ _ _ _ _ C1 C2 ltac:(assumption) Hi Hg) as [-> _].
        sub_p R1 R2. sub_p R1 R2. fin2 R1 R2.
      * (* ctor *) minv R1 as [vs1 n1] C1. minv R2 as [vs2 n2] C2.
        destruct (IHes _ _ _ _ _ _ _ _ _ _ _ _ C1 C2 ltac:(assumption) Hi Hg) as [-> _].
        sub_p R1 R2. sub_p R1 R2. fin2 R1 R2.
    + intros es G s D1 D2 mu1 mu2 C vs1 vs2 m1 m2 R1 R2 Hp Hi Hg. rewrite ievals_S in R1, R2.
      destruct es as [|e r]; cbn [ievals_body forallb] in *.
      * fin2 R1 R2.
      * bsp. sub_e IHe R1 R2 Hi Hg.
        minv R1 as [ws1 n1] C1. minv R2 as [ws2 n2] C2.
        destruct (IHes _ _ _ _ _ _ _ _ _ _ _ _ C1 C2 ltac:(assumption) Hi Hg) as [-> Sc].
        cbn in R1, R2. inversion R1; inversion R2; subst. split; auto. cbn. rewrite S, Sc. reflexivity.
    + intros args G s D1 D2 mu1 mu2 C v ops r1 r2 m1 m2 R1 R2 Hp Hi Hg Hv. rewrite icmp_chain_S in R1, R2.
      destruct ops as [|o ops'], args as [|e args']; cbn [icmp_chain_body forallb] in *; try discriminate.
      * fin2 R1 R2.
      * bsp. destruct (is_ordering o).
        -- sub_p R1 R2. sub_e IHe R1 R2 Hi Hg. sub_p R1 R2.
           destruct (cmp_test N o y y0); [|fin2 R1 R2].
           destruct ops'; [fin2 R1 R2 | eapply IHc; eauto].
        -- sub_e IHe R1 R2 Hi Hg.
           rewrite (value_eq_scalar k ma mb v va) in R1 by auto.
           sub_p R1 R2.
           destruct (match o with CNe => negb y | _ => y end); [|fin2 R1 R2].
           destruct ops'; [fin2 R1 R2 | eapply IHc; eauto].
    + intros args G s D1 D2 mu1 mu2 C u r1 r2 m1 m2 R1 R2 Hp Hi Hg. rewrite ibool_chain_S in R1, R2.
      destruct args as [|e r]; cbn [ibool_chain_body forallb] in *.
      * fin2 R1 R2.
      * bsp. sub_e IHe R1 R2 Hi Hg. sub_p R1 R2.
        destruct (Bool.eqb y u); [|fin2 R1 R2].
        destruct r; [fin2 R1 R2 | eapply IHb; eauto].
Qed.

Lemma pure_agree : forall k e G s D1 D2 mu1 mu2 C v1 v2 m1 m2,
  snd (ieval k G D1 mu1 C e) = ROk (v1, m1) -> snd (ieval k s D2 mu2 C e) = ROk (v2, m2) ->
  pure_e e = true -> cinv G s -> gscalar G -> v1 = v2.
Proof. intros. eapply (proj1 (agree_all k)); eauto. Qed.

(* more fuel, any labels: the same result *)
Lemma ieval_mono : forall n m s D D' mu C e r,
  snd (ieval n s D mu C e) = ROk r -> (n <= m)%nat -> snd (ieval m s D' mu C e) = ROk r.
Proof.
  intros n m s D D' mu C e r H Hle. rewrite ieval_erase in *. eapply eval_mono_ok; eauto.
Qed.

(* ================================================================ a validated fact is true *)
Lemma value_matches_refl_use : forall v v' cv, v' = v -> value_matches v cv = true -> value_matches v' cv = true.
Proof. intros; subst; auto. Qed.

Lemma ceval_sound : forall K G e v n s D mu C v' mu',
  ceval N P K G e = Some v -> cinv G s -> gscalar G -> kctx K C ->
  snd (ieval n s D mu C e) = ROk (v', mu') -> v' = v /\ scalar_value v = true.
Proof.
  intros K G e v n s D mu C v' mu' Hc Hi Hg HK Hr. unfold ceval in Hc.
  destruct (pure_e e) eqn:Hp; [|discriminate]. destruct K as [c|].
  - rewrite (HK c eq_refl) in *.
    destruct (snd (ieval cfuel G [] [] c e)) as [[v0 m0]| |] eqn:E0; try discriminate.
    destruct (scalar_value v0) eqn:Sv; [|discriminate]. inversion Hc; subst v0.
    split; auto.
    pose proof (ieval_mono _ (Nat.max n cfuel) _ _ [] _ _ _ _ E0 (Nat.le_max_r _ _)) as E1.
    pose proof (ieval_mono _ (Nat.max n cfuel) _ _ D _ _ _ _ Hr (Nat.le_max_l _ _)) as E2.
    symmetry. eapply pure_agree; eauto.
  - destruct n as [|n]; [discriminate|]. rewrite ieval_S in Hr.
    destruct e; try discriminate; cbn [ieval_body] in Hr.
    + destruct (env_get G x) as [w|] eqn:Ex; [|discriminate]. destruct (scalar_value w) eqn:Sw; [|discriminate].
      inversion Hc; subst w. rewrite (Hi _ _ Ex) in Hr. cbn in Hr. inversion Hr; subst. auto.
    + inversion Hc; subst. cbn in Hr. inversion Hr; subst. auto.
    + destruct (d =? 0); [discriminate|]. inversion Hc; subst. cbn in Hr. inversion Hr; subst. auto.
    + inversion Hc; subst. cbn in Hr. inversion Hr; subst. auto.
    + inversion Hc; subst. cbn in Hr. inversion Hr; subst. auto.
Qed.

Lemma fact_sound : forall K G e n s D mu C r,
  fact_ok N P K G e = true -> cinv G s -> gscalar G -> kctx K C ->
  snd (ieval n s D mu C e) = ROk r -> evc (EvVal (ann_of e) C (fst r)).
Proof.
  intros K G e n s D mu C [v' mu'] Hf Hi Hg HK Hr. unfold evc, fact_ok in *. cbn [ev_const_ok fst].
  destruct (an_const (ann_of e)) as [cv|]; [|reflexivity].
  destruct (ceval N P K G e) as [v|] eqn:Ec; [|discriminate].
  destruct (ceval_sound _ _ _ _ _ _ _ _ _ _ _ Ec Hi Hg HK Hr) as [-> _]. exact Hf.
Qed.

(* ================================================================ expressions *)
Lemma snd_mbind_eq : forall X Y (m : M ann X) (f : X -> M ann Y) x, snd m = ROk x -> snd (mbind m f) = snd (f x).
Proof. intros X Y [t [y|e|]] f x H; cbn in H; inversion H; subst. cbn. destruct (f x); reflexivity. Qed.

Lemma ccheck_fact : forall K G e, ccheck_expr N P K G e = true -> fact_ok N P K G e = true.
Proof. intros K G e H. destruct e; cbn [ccheck_expr] in H; apply andb_prop in H; tauto. Qed.

Definition cexpr_at (n : nat) : Prop :=
  (forall K G s D mu C e, ccheck_expr N P K G e = true -> cinv G s -> gscalar G -> kctx K C ->
     mokc (fun _ => True) (ieval n s D mu C e)) /\
  (forall K G s D mu C es, forallb (ccheck_expr N P K G) es = true -> cinv G s -> gscalar G -> kctx K C ->
     mokc (fun _ => True) (ievals n s D mu C es)) /\
  (forall K G s D mu C v ops args, forallb (ccheck_expr N P K G) args = true -> cinv G s -> gscalar G -> kctx K C ->
     mokc (fun _ => True) (icmp_chain n s D mu C v ops args)) /\
  (forall K G s D mu C u args, forallb (ccheck_expr N P K G) args = true -> cinv G s -> gscalar G -> kctx K C ->
     mokc (fun _ => True) (ibool_chain n s D mu C u args)).

(* a step through a sub-evaluation, keeping its result equation *)
Ltac cstep := eapply mokP_bind; [solve [eauto] | let x := fresh "x" in let E := fresh "Eq" in intros x E _; try (destruct x as [? ?])].
Ltac cpure := eapply mokP_bind; [apply mokP_liftr; intros; exact I | let x := fresh "x" in let E := fresh "Eq" in intros x E _; try (destruct x as [? ?])].
(* the final event of a node: its value is the node's result *)
Ltac cdone Hf Hi Hg HK n s D mu :=
  apply mokP_done; [| exact I];
  match goal with |- evc (EvVal _ ?C _) =>
    eapply (fact_sound _ _ _ (S n) s D mu C _ Hf Hi Hg HK) end;
  rewrite ieval_S; cbn [ieval_body];
  repeat (erewrite snd_mbind_eq by eassumption; cbn beta iota);
  reflexivity.

Lemma cexpr_all : forall n, cexpr_at n.
Proof.
  induction n as [|n (IHe & IHes & IHc & IHb)].
  - split; [|split; [|split]]; intros; apply mokP_liftr; discriminate.
  - split; [|split; [|split]].
    + intros K G s D mu C e Hc Hi Hg HK. pose proof (ccheck_fact _ _ _ Hc) as Hf. rewrite ieval_S.
      destruct e; cbn [ieval_body]; cbn [ccheck_expr] in Hc; bsp.
      * (* var *) destruct (env_get s x) as [v|] eqn:Ex; [|apply mokP_fail].
        apply mokP_events; [|intros; exact I]. constructor; [exact eq_refl|]. constructor; [|constructor].
        eapply (fact_sound _ _ (AVar a x) (S n) s D mu C (v, mu) Hf Hi Hg HK).
        rewrite ieval_S. cbn [ieval_body]. rewrite Ex. reflexivity.
      * cdone Hf Hi Hg HK n s D mu.
      * destruct (d =? 0) eqn:Ed; [apply mokP_fail|].
        apply mokP_done; [|exact I]. eapply (fact_sound _ _ _ (S n) s D mu C _ Hf Hi Hg HK).
        rewrite ieval_S. cbn [ieval_body]. rewrite Ed. reflexivity.
      * cdone Hf Hi Hg HK n s D mu.
      * cdone Hf Hi Hg HK n s D mu.
      * cpure. cdone Hf Hi Hg HK n s D mu.
      * cstep. cpure. cpure. cdone Hf Hi Hg HK n s D mu.
      * cstep. cstep. cpure. cpure. cpure. cdone Hf Hi Hg HK n s D mu.
      * cstep. cstep. cstep. cpure. cpure. cpure. cpure. cdone Hf Hi Hg HK n s D mu.
      * cstep. cpure. cdone Hf Hi Hg HK n s D mu.
      * destruct args as [|e1 rest]; [apply mokP_fail|]. cbn [forallb] in *. bsp. cstep. cstep. cdone Hf Hi Hg HK n s D mu.
      * cstep. cdone Hf Hi Hg HK n s D mu.
      * cstep. cdone Hf Hi Hg HK n s D mu.
      * cstep. cpure. cdone Hf Hi Hg HK n s D mu.
      * cstep. cpure.
        eapply mokP_bind with (Q1 := fun _ => True); [destruct x; eauto|]. intros [? ?] Eq3 _. cdone Hf Hi Hg HK n s D mu.
      * cstep. cpure. cpure. cdone Hf Hi Hg HK n s D mu.
      * cstep. cpure. cpure. cdone Hf Hi Hg HK n s D mu.
      * cstep. cpure. cpure. cdone Hf Hi Hg HK n s D mu.
      * (* opaque leaf: it cannot carry a constant fact the checker accepted *)
        eapply mokP_bind with (Q1 := fun _ => True).
        { apply mokP_events; [|intros; exact I]. unfold use_events. apply Forall_forall. intros ev Hin.
          apply in_map_iff in Hin. destruct Hin as (xa & <- & _). reflexivity. }
        intros [? ?] Eq1 _. apply mokP_done; [|exact I].
        unfold evc, fact_ok in *. cbn [ev_const_ok ann_of] in *.
        destruct (an_const a); [|reflexivity]. unfold ceval in Hf. cbn [pure_e] in Hf. discriminate.
    + intros K G s D mu C es Hc Hi Hg HK. rewrite ievals_S. destruct es as [|e r]; cbn [ievals_body forallb] in *.
      * apply mokP_ret. exact I.
      * bsp. cstep. cstep. apply mokP_ret. exact I.
    + intros K G s D mu C v ops args Hc Hi Hg HK. rewrite icmp_chain_S.
      destruct ops as [|o ops'], args as [|e args']; cbn [icmp_chain_body forallb] in *;
        try apply mokP_fail; try (apply mokP_ret; exact I).
      bsp. destruct (is_ordering o).
      * cpure. cstep. cpure. match goal with |- context [if ?b then _ else _] => destruct b end; [|apply mokP_ret; exact I].
        destruct ops'; [apply mokP_ret; exact I | eauto].
      * cstep. cpure. match goal with |- context [if ?b then _ else _] => destruct b end; [|apply mokP_ret; exact I].
        destruct ops'; [apply mokP_ret; exact I | eauto].
    + intros K G s D mu C u args Hc Hi Hg HK. rewrite ibool_chain_S.
      destruct args as [|e r]; cbn [ibool_chain_body forallb] in *; [apply mokP_ret; exact I|].
      bsp. cstep. cpure. match goal with |- context [if ?b then _ else _] => destruct b end; [|apply mokP_ret; exact I].
      destruct r; [apply mokP_ret; exact I | eauto].
Qed.

Lemma cexpr_sound : forall n K G s D mu C e,
  ccheck_expr N P K G e = true -> cinv G s -> gscalar G -> kctx K C -> mokc (fun _ => True) (ieval n s D mu C e).
Proof. intros n. apply (cexpr_all n). Qed.

(* ================================================================ environments *)
Lemma env_get_set_same : forall s x v, env_get (env_set s x v) x = Some v.
Proof.
  induction s as [|[y w] s IH]; intros; cbn.
  - rewrite String.eqb_refl. reflexivity.
  - destruct (String.eqb x y) eqn:E; cbn; rewrite E; auto.
Qed.

Lemma env_get_set_other : forall s x y v, x <> y -> env_get (env_set s x v) y = env_get s y.
Proof.
  induction s as [|[z w] s IH]; intros; cbn.
  - destruct (String.eqb y x) eqn:E; auto. apply String.eqb_eq in E. congruence.
  - destruct (String.eqb x z) eqn:E; cbn.
    + apply String.eqb_eq in E. subst z.
      destruct (String.eqb y x) eqn:E2; auto. apply String.eqb_eq in E2. congruence.
    + destruct (String.eqb y z); auto.
Qed.

(* G' holds only bindings of G *)
Definition esub (G' G : env) : Prop := forall y v, env_get G' y = Some v -> env_get G y = Some v.

Lemma esub_refl : forall G, esub G G.
Proof. intros G y v H. exact H. Qed.

Lemma esub_trans : forall A B C, esub A B -> esub B C -> esub A C.
Proof. intros A B C H1 H2 y v H. auto. Qed.

Lemma env_remove_get : forall G x y v, env_get (env_remove G x) y = Some v -> y <> x /\ env_get G y = Some v.
Proof.
  induction G as [|[z w] G IH]; intros x y v H; cbn in *; [discriminate|].
  destruct (String.eqb_spec x z) as [->|ne].
  - destruct (IH _ _ _ H) as [Hn Hg]. split; auto. destruct (String.eqb_spec y z); [contradiction|auto].
  - cbn in H. destruct (String.eqb_spec y z) as [->|ne2].
    + inversion H; subst. split; auto.
    + apply IH. exact H.
Qed.

Lemma env_remove_all_get : forall xs G y v,
  env_get (env_remove_all G xs) y = Some v -> ~ In y xs /\ env_get G y = Some v.
Proof.
  unfold env_remove_all. induction xs as [|x xs IH]; intros G y v H; cbn in *; [auto|].
  destruct (IH _ _ _ H) as [Hn Hg]. destruct (env_remove_get _ _ _ _ Hg) as [Hne Hg2].
  split; auto. intros [E|Hin]; [subst; contradiction|contradiction].
Qed.

Lemma esub_remove : forall G x, esub (env_remove G x) G.
Proof. intros G x y v H. apply (env_remove_get _ _ _ _ H). Qed.

Lemma esub_remove_all : forall G xs, esub (env_remove_all G xs) G.
Proof. intros G xs y v H. apply (env_remove_all_get _ _ _ _ H). Qed.

Lemma rf_eqb'_eq : forall a b, rf_eqb' a b = true -> a = b.
Proof.
  intros [s1 e1 c1] [s2 e2 c2] H. unfold rf_eqb' in H. cbn in H.
  apply andb_prop in H. destruct H as [H Hc]. apply andb_prop in H. destruct H as [Hs He].
  apply Bool.eqb_prop in Hs. apply Z.eqb_eq in He, Hc. subst. reflexivity.
Qed.

Lemma sval_eqb_eq : forall a b, sval_eqb a b = true -> a = b.
Proof.
  intros [b1|x| | | |] [b2|y| | | |] H; cbn in H; try discriminate.
  - apply Bool.eqb_prop in H. subst. reflexivity.
  - destruct x as [f|n d], y as [g|m e]; cbn in H; try discriminate.
    + destruct f, g; cbn in H; try discriminate.
      * apply rf_eqb'_eq in H. subst. reflexivity.
      * apply Bool.eqb_prop in H. subst. reflexivity.
      * apply Bool.eqb_prop in H. subst. reflexivity.
    + apply andb_prop in H. destruct H as [H1 H2]. apply Z.eqb_eq in H1, H2. subst. reflexivity.
Qed.

Lemma filter_get : forall (f : ident * value -> bool) G y v,
  env_get (filter f G) y = Some v -> In (y, v) G /\ f (y, v) = true.
Proof.
  induction G as [|[z w] G IH]; intros y v H; cbn in *; [discriminate|].
  destruct (f (z, w)) eqn:Ef.
  - cbn in H. destruct (String.eqb_spec y z) as [->|ne].
    + inversion H; subst. split; auto.
    + destruct (IH _ _ H). split; auto.
  - destruct (IH _ _ H). split; auto.
Qed.

Lemma cmerge_sub : forall G1 G2, esub (cmerge G1 G2) G1 /\ esub (cmerge G1 G2) G2.
Proof.
  intros G1 G2. unfold cmerge. split; intros y v H; apply filter_get in H; destruct H as [_ H]; cbn [fst snd] in H;
    destruct (env_get G1 y) as [a|]; try discriminate; destruct (env_get G2 y) as [b|]; try discriminate;
    apply andb_prop in H; destruct H as [H1 H2]; apply sval_eqb_eq in H1, H2; subst; reflexivity.
Qed.

Lemma in_env_get : forall G y v, env_get G y = Some v -> In (y, v) G.
Proof.
  induction G as [|[z w] G IH]; intros y v H; cbn in *; [discriminate|].
  destruct (String.eqb_spec y z) as [->|ne]; [inversion H; subst; auto | right; auto].
Qed.

Lemma csub_sub : forall G1 G2, csub G1 G2 = true -> esub G1 G2.
Proof.
  intros G1 G2 H y v Hy. unfold csub in H. rewrite forallb_forall in H.
  specialize (H (y, v) (in_env_get _ _ _ Hy)). cbn in H.
  destruct (env_get G2 y) as [w|]; [|discriminate]. apply sval_eqb_eq in H. subst. reflexivity.
Qed.

Lemma cinv_sub : forall G' G s, esub G' G -> cinv G s -> cinv G' s.
Proof. intros G' G s H1 H2 y v H. auto. Qed.

Lemma gscalar_sub : forall G' G, esub G' G -> gscalar G -> gscalar G'.
Proof. intros G' G H1 H2 y v H. eapply H2; eauto. Qed.

Lemma cinv_set : forall G s x v, cinv G s -> cinv (env_set G x v) (env_set s x v).
Proof.
  intros G s x v H y w Hy. destruct (String.eqb_spec x y) as [->|ne].
  - rewrite env_get_set_same in *. exact Hy.
  - rewrite env_get_set_other in * by auto. auto.
Qed.

Lemma gscalar_set : forall G x v, gscalar G -> scalar_value v = true -> gscalar (env_set G x v).
Proof.
  intros G x v H Hv y w Hy. destruct (String.eqb_spec x y) as [->|ne].
  - rewrite env_get_set_same in Hy. inversion Hy; subst. exact Hv.
  - rewrite env_get_set_other in Hy by auto. eauto.
Qed.

(* the run-time environment changed only at the names in xs *)
Definition frame (xs : list ident) (s s' : env) : Prop := forall y, ~ In y xs -> env_get s' y = env_get s y.

Lemma cinv_frame : forall G s s' xs, cinv G s -> frame xs s s' -> cinv (env_remove_all G xs) s'.
Proof.
  intros G s s' xs H Hf y v Hy. destruct (env_remove_all_get _ _ _ _ Hy) as [Hn Hg]. rewrite Hf by auto. auto.
Qed.

Lemma ibind_pat_frame : forall p v s D s' D',
  snd (ibind_pat ann p v s D) = Ok (s', D') -> frame (apat_names p) s s'.
Proof.
  fix IH 1. intros p v s D s' D' H. destruct p as [a x| |ps]; cbn [ibind_pat apat_names snd] in *.
  - inversion H; subst. intros y Hn. apply env_get_set_other. intro E. apply Hn. left. exact E.
  - inversion H; subst. intros y _. reflexivity.
  - destruct v; try discriminate.
    destruct (negb (Nat.eqb (List.length ps) (List.length vs))); [discriminate|].
    revert vs s D H. induction ps as [|p ps IHps]; intros vs s D H.
    + destruct vs; inversion H; subst; intros y _; reflexivity.
    + destruct vs as [|v vs]; [inversion H; subst; intros y _; reflexivity|].
      pose proof (IH p v s D) as Hp.
      destruct (ibind_pat ann p v s D) as [t1 [[s1 D1]|e]]; cbn [snd] in *; [|discriminate].
      specialize (Hp s1 D1 eq_refl).
      match type of H with context [(fix go (ps0 : list (apat ann)) (vs0 : list value) (s0 : env) (D0 : denv ann) {struct ps0} := _) ps vs s1 D1] =>
        set (X := (fix go (ps0 : list (apat ann)) (vs0 : list value) (s0 : env) (D0 : denv ann) {struct ps0} := _) ps vs s1 D1) in * end.
      destruct X as [t2 r2] eqn:EX. cbn [snd] in H. subst r2.
      assert (HX : snd X = Ok (s', D')) by (rewrite EX; reflexivity). unfold X in HX.
      specialize (IHps vs s1 D1 HX).
      intros y Hn. cbn [flat_map] in Hn. rewrite IHps by (intro; apply Hn; apply in_or_app; right; assumption).
      apply Hp. intro. apply Hn. apply in_or_app. left. assumption.
Qed.

(* ================================================================ statements *)
Definition cst (G : env) (s : env) : Prop := cinv G s /\ gscalar G.

Definition cosat (G' : env) (r : ioutcome ann * store) : Prop :=
  match fst r with IONormal s' _ => cst G' s' | IOReturn _ => True end.

Lemma ccheck_if1_eq : forall K G ph c body,
  ccheck_stmt N P K G (ASIf1 ph c body) =
  if ccheck_expr N P K G c then
    match ccheck_block N P K G body with Some Gb => Some (cmerge Gb G) | None => None end
  else None.
Proof. reflexivity. Qed.

Lemma ccheck_if_eq : forall K G ph c ift iff,
  ccheck_stmt N P K G (ASIf ph c ift iff) =
  if ccheck_expr N P K G c then
    match ccheck_block N P K G ift, ccheck_block N P K G iff with
    | Some G1, Some G2 => Some (if blk_ret ift then G2 else if blk_ret iff then G1 else cmerge G1 G2)
    | _, _ => None
    end
  else None.
Proof. reflexivity. Qed.

Lemma ccheck_while_eq : forall K G ph c body,
  ccheck_stmt N P K G (ASWhile ph c body) =
  let Gh := env_remove_all G (map fst ph) in
  if ccheck_expr N P K Gh c then
    match ccheck_block N P K Gh body with
    | Some Gb => if csub Gh Gb then Some Gh else None
    | None => None
    end
  else None.
Proof. reflexivity. Qed.

Lemma ccheck_for_eq : forall K G ph p it body,
  ccheck_stmt N P K G (ASFor ph p it body) =
  if ccheck_expr N P K G it then
    let Gh := env_remove_all G (map fst ph) in
    match ccheck_block N P K (env_remove_all Gh (apat_names p)) body with
    | Some Gb => if csub Gh Gb then Some Gh else None
    | None => None
    end
  else None.
Proof. reflexivity. Qed.

Lemma ccheck_context_eq : forall K G x e body,
  ccheck_stmt N P K G (ASContext x e body) =
  if ccheck_expr N P (Some CReal) G e then
    ccheck_block N P (static_ctx (n_ctor N) e) (match x with Some (_, x) => env_remove G x | None => G end) body
  else None.
Proof. reflexivity. Qed.

Lemma ccheck_block_cons : forall K G st r,
  ccheck_block N P K G (st :: r) = match ccheck_stmt N P K G st with Some G' => ccheck_block N P K G' r | None => None end.
Proof. reflexivity. Qed.

(* the context a `with` header denotes *)
Lemma ievals_lits : forall n s D mu C args vs mu' xs,
  snd (ievals n s D mu C args) = ROk (vs, mu') -> lit_nums args = Some xs -> vs = map VNum xs.
Proof.
  induction n as [|n IH]; intros s D mu C args vs mu' xs H Hl; [discriminate|].
  rewrite ievals_S in H. destruct args as [|e r]; cbn [ievals_body lit_nums] in *.
  - inversion H; inversion Hl; subst. reflexivity.
  - minv H as [v mu1] Hv. minv H as [vs' mu2] Hvs. cbn in H. inversion H; subst.
    destruct n as [|n']; [discriminate|]. rewrite ieval_S in Hv.
    destruct e; try discriminate; cbn [ieval_body] in Hv.
    + destruct (lit_nums r) as [ys|] eqn:El; [|discriminate]. inversion Hl; subst.
      cbn in Hv. inversion Hv; subst. cbn. f_equal. eapply IH; eauto.
    + destruct (Z.eqb_spec d 0); [discriminate|].
      destruct (lit_nums r) as [ys|] eqn:El; [|discriminate]. inversion Hl; subst.
      cbn in Hv. inversion Hv; subst. cbn. f_equal. eapply IH; eauto.
Qed.

Lemma as_nums_map : forall xs, as_nums (map VNum xs) = ROk xs.
Proof. induction xs as [|x xs IH]; cbn; [reflexivity|]. rewrite IH. reflexivity. Qed.

Lemma static_ctx_sound : forall n s D mu C e C' mu1,
  snd (ieval n s D mu C e) = ROk (VCtx C', mu1) -> kctx (static_ctx (n_ctor N) e) C'.
Proof.
  intros n s D mu C e C' mu1 H k Ek. destruct n as [|n]; [discriminate|]. rewrite ieval_S in H.
  destruct e; cbn [static_ctx] in Ek; try discriminate; cbn [ieval_body] in H.
  - inversion Ek; subst. cbn in H. inversion H; reflexivity.
  - destruct (lit_nums args) as [xs|] eqn:El; [|discriminate].
    destruct (n_ctor N k0 xs) as [c1|] eqn:Ec; inversion Ek; subst.
    minv H as [vs mu2] Hvs. rewrite (ievals_lits _ _ _ _ _ _ _ _ _ Hvs El) in H.
    minv H as ys Hys. rewrite as_nums_map in Hys. inversion Hys; subst ys.
    minv H as c2 Hc2. rewrite Ec in Hc2. cbn in Hc2. inversion Hc2; subst c2.
    cbn in H. inversion H; reflexivity.
Qed.

Definition cstmt_at (n : nat) : Prop :=
  (forall K G G' s D mu C st, ccheck_stmt N P K G st = Some G' -> cst G s -> kctx K C ->
     mokc (cosat G') (iexec n s D mu C st)) /\
  (forall K G G' s D mu C b, ccheck_block N P K G b = Some G' -> cst G s -> kctx K C ->
     mokc (cosat G') (iexec_block n s D mu C b)) /\
  (forall K ph c body Gh Gb s D mu C,
     ccheck_expr N P K Gh c = true -> ccheck_block N P K Gh body = Some Gb -> csub Gh Gb = true ->
     cst Gh s -> kctx K C -> mokc (cosat Gh) (iexec n s D mu C (ASWhile ph c body))) /\
  (forall K ph p body Gh Gb s D mu C l i,
     ccheck_block N P K (env_remove_all Gh (apat_names p)) body = Some Gb -> csub Gh Gb = true ->
     cst Gh s -> kctx K C -> mokc (cosat Gh) (ifor_loop n s D mu C ph p l i body)).

Lemma phi_events_c : forall s D ph, Forall evc (phi_events ann s D ph).
Proof.
  intros. unfold phi_events. apply Forall_forall. intros ev Hin. apply in_flat_map in Hin.
  destruct Hin as (xa & _ & Hev). destruct (env_get s (fst xa)); [|destruct Hev]. destruct Hev as [<-|[]]. reflexivity.
Qed.

Lemma after_phis_c : forall G ph (m : M ann (ioutcome ann * store)),
  mokc (cosat G) m -> mokc (cosat G) (mbind m (after_phis ann ph)).
Proof.
  intros G ph m Hm. eapply mokP_bind; [exact Hm|]. intros [o mu] _ Ho. unfold after_phis, cosat in *. cbn [fst] in *.
  destruct o as [s D|v].
  - apply mokP_events; [apply phi_events_c|]. intros x E. inversion E; subst. exact Ho.
  - apply mokP_ret. exact I.
Qed.

Lemma cst_sub : forall G' G s, esub G' G -> cst G s -> cst G' s.
Proof. intros G' G s H [H1 H2]. split; [eapply cinv_sub; eauto | eapply gscalar_sub; eauto]. Qed.

Lemma ibind_pat_events : forall p v s D, Forall evc (fst (ibind_pat ann p v s D)).
Proof.
  fix IH 1. intros p v s D. destruct p as [a x| |ps]; cbn [ibind_pat fst].
  - repeat constructor.
  - constructor.
  - destruct v; try constructor.
    destruct (negb (Nat.eqb (List.length ps) (List.length vs))); [constructor|].
    revert vs s D. induction ps as [|p ps IHps]; intros vs s D; [destruct vs; constructor|].
    destruct vs as [|v vs]; [constructor|].
    pose proof (IH p v s D) as Hp. destruct (ibind_pat ann p v s D) as [t1 [[s1 D1]|e]]; cbn [fst] in *; [|exact Hp].
    specialize (IHps vs s1 D1).
    match goal with |- context [(fix go (ps0 : list (apat ann)) (vs0 : list value) (s0 : env) (D0 : denv ann) {struct ps0} := _) ps vs s1 D1] =>
      set (X := (fix go (ps0 : list (apat ann)) (vs0 : list value) (s0 : env) (D0 : denv ann) {struct ps0} := _) ps vs s1 D1) in * end.
    destruct X as [t2 r2]. cbn [fst] in *. apply Forall_app; auto.
Qed.

Lemma mbind_pat_frame : forall p v s D,
  mokc (fun sd => frame (apat_names p) s (fst sd)) (mbind_pat ann p v s D).
Proof.
  intros p v s D. unfold mbind_pat. pose proof (ibind_pat_frame p v s D) as H.
  pose proof (ibind_pat_events p v s D) as Ht.
  destruct (ibind_pat ann p v s D) as [t [[s' D']|e]]; cbn [fst snd] in *.
  - apply mokP_events; auto. intros x E. inversion E; subst. cbn. eapply H. reflexivity.
  - apply mokP_events; auto. discriminate.
Qed.

Ltac estep := eapply mokP_bind; [eapply cexpr_sound; eauto | let x := fresh "x" in let E := fresh "Eq" in intros x E _; try (destruct x as [? ?])].
Ltac pstep := eapply mokP_bind; [apply mokP_liftr; intros; exact I | let x := fresh "x" in intros x _ _; try (destruct x as [? ?])].

Lemma cstmt_all : forall n, cstmt_at n.
Proof.
  induction n as [|n (IHs & IHb & IHw & IHf)].
  - split; [|split; [|split]]; intros; apply mokP_liftr; discriminate.
  - assert (W : forall K ph c body Gh Gb s D mu C,
     ccheck_expr N P K Gh c = true -> ccheck_block N P K Gh body = Some Gb -> csub Gh Gb = true ->
     cst Gh s -> kctx K C -> mokc (cosat Gh) (iexec (S n) s D mu C (ASWhile ph c body))).
    { intros K ph c body Gh Gb s D mu C Hc Hbody Hsub [Hi Hg] HK.
      rewrite iexec_S. cbn [iexec_body].
      eapply mokP_bind with (Q1 := fun _ => True); [apply mokP_events; [apply phi_events_c | intros; exact I]|].
      intros _ _ _. estep. pstep. destruct x.
      - eapply mokP_bind; [eapply IHb; eauto; split; auto|].
        intros [o mu2] _ Ho. unfold cosat in Ho. cbn [fst] in Ho. destruct o as [s' D'|rv].
        + eapply IHw; eauto. eapply cst_sub; [apply csub_sub; eauto | exact Ho].
        + apply mokP_ret. exact I.
      - apply mokP_ret. split; auto. }
    assert (F : forall K ph p body Gh Gb s D mu C l i,
     ccheck_block N P K (env_remove_all Gh (apat_names p)) body = Some Gb -> csub Gh Gb = true ->
     cst Gh s -> kctx K C -> mokc (cosat Gh) (ifor_loop (S n) s D mu C ph p l i body)).
    { intros K ph p body Gh Gb s D mu C l i Hbody Hsub [Hi Hg] HK.
      rewrite ifor_loop_S. unfold ifor_loop_body.
      eapply mokP_bind with (Q1 := fun _ => True); [apply mokP_events; [apply phi_events_c | intros; exact I]|].
      intros _ _ _.
      destruct (store_get mu l) as [vs|]; [|apply mokP_fail].
      destruct (nth_error vs i) as [x|]; [|apply mokP_ret; split; auto].
      eapply mokP_bind; [apply mbind_pat_frame|]. intros [s1 D1] _ Hfr. cbn [fst] in Hfr.
      eapply mokP_bind; [eapply IHb; eauto; split; [eapply cinv_frame; eauto | eapply gscalar_sub; [apply esub_remove_all|exact Hg]]|].
      intros [o mu1] _ Ho. unfold cosat in Ho. cbn [fst] in Ho. destruct o as [s2 D2|rv].
      - eapply IHf; eauto. eapply cst_sub; [apply csub_sub; eauto | exact Ho].
      - apply mokP_ret. exact I. }
    split; [|split; [|split]]; auto.
    + intros K G G' s D mu C st Hc [Hi Hg] HK.
      destruct st; match goal with |- context [ASWhile] => idtac | _ => rewrite iexec_S; cbn [iexec_body] end.
      * (* assign *) cbn [ccheck_stmt] in Hc. destruct (ccheck_expr N P K G e) eqn:He; [|discriminate]. inversion Hc; subst.
        estep.
        eapply mokP_bind; [apply mbind_pat_frame|]. intros [s' D'] Ebp Hfr. cbn [fst] in Hfr.
        apply mokP_ret. unfold cosat. cbn [fst]. unfold cbind_c.
        destruct p as [a x| |ps].
        -- (* a single name: bound to the value of e *)
           unfold mbind_pat in Ebp. cbn in Ebp. inversion Ebp; subst s' D'.
           destruct (ceval N P K G e) as [cv|] eqn:Ec.
           ++ destruct (ceval_sound _ _ _ _ _ _ _ _ _ _ _ Ec Hi Hg HK Eq) as [-> Sv].
              split; [apply cinv_set; auto | apply gscalar_set; auto].
           ++ split; [|eapply gscalar_sub; [apply esub_remove|exact Hg]].
              intros y w Hy. destruct (env_remove_get _ _ _ _ Hy) as [Hn Hgy].
              rewrite env_get_set_other by auto. auto.
        -- split; [eapply cinv_frame; eauto | eapply gscalar_sub; [apply esub_remove_all|exact Hg]].
        -- split; [eapply cinv_frame; eauto | eapply gscalar_sub; [apply esub_remove_all|exact Hg]].
      * (* indexed assign: the environment is unchanged *)
        cbn [ccheck_stmt] in Hc. destruct (ccheck_expr N P K G e) eqn:He; [|discriminate]. inversion Hc; subst.
        estep. destruct (env_get s x) as [cur|]; [|apply mokP_fail].
        eapply mokP_bind with (Q1 := fun _ => True); [apply mokP_events; [repeat constructor | intros; exact I]|].
        intros mu2 _ _. apply mokP_ret. apply cst_sub with (G := G); [apply esub_remove | split; auto].
      * (* if1 *) rewrite ccheck_if1_eq in Hc. destruct (ccheck_expr N P K G c) eqn:He; [|discriminate].
        destruct (ccheck_block N P K G body) as [Gb|] eqn:Hb; [|discriminate]. inversion Hc; subst.
        estep. pstep. apply after_phis_c. destruct x.
        -- eapply mokP_weaken; [eapply IHb; eauto; split; auto|].
           intros [o m] Ho. unfold cosat in *. cbn [fst] in *. destruct o; auto.
           eapply cst_sub; [apply (proj1 (cmerge_sub Gb G)) | exact Ho].
        -- apply mokP_ret. unfold cosat. cbn. eapply cst_sub; [apply (proj2 (cmerge_sub Gb G)) | split; auto].
      * (* if *) rewrite ccheck_if_eq in Hc. destruct (ccheck_expr N P K G c) eqn:He; [|discriminate].
        destruct (ccheck_block N P K G ift) as [G1|] eqn:Hb1; [|discriminate].
        destruct (ccheck_block N P K G iff) as [G2|] eqn:Hb2; [|discriminate]. inversion Hc; subst.
        estep. pstep. apply after_phis_c. destruct x.
        -- eapply mokP_weaken_eq; [eapply IHb; eauto; split; auto|].
           intros [o m] Eo Ho. unfold cosat in *. cbn [fst] in *. destruct o as [s' D'|rv]; auto.
           destruct (blk_ret ift) eqn:R1.
           { exfalso. exact (blk_always_returns _ _ _ _ _ _ _ _ _ _ _ R1 Eo). }
           destruct (blk_ret iff); [exact Ho|].
           eapply cst_sub; [apply (proj1 (cmerge_sub G1 G2)) | exact Ho].
        -- eapply mokP_weaken_eq; [eapply IHb; eauto; split; auto|].
           intros [o m] Eo Ho. unfold cosat in *. cbn [fst] in *. destruct o as [s' D'|rv]; auto.
           destruct (blk_ret ift) eqn:R1; [exact Ho|].
           destruct (blk_ret iff) eqn:R2.
           { exfalso. exact (blk_always_returns _ _ _ _ _ _ _ _ _ _ _ R2 Eo). }
           eapply cst_sub; [apply (proj2 (cmerge_sub G1 G2)) | exact Ho].
      * (* while *) rewrite ccheck_while_eq in Hc. cbn zeta in Hc.
        destruct (ccheck_expr N P K (env_remove_all G (map fst ph)) c) eqn:He; [|discriminate].
        destruct (ccheck_block N P K (env_remove_all G (map fst ph)) body) as [Gb|] eqn:Hb; [|discriminate].
        destruct (csub (env_remove_all G (map fst ph)) Gb) eqn:Hs; [|discriminate]. inversion Hc; subst.
        eapply W; eauto. eapply cst_sub; [apply esub_remove_all | split; auto].
      * (* for *) rewrite ccheck_for_eq in Hc. destruct (ccheck_expr N P K G it) eqn:He; [|discriminate]. cbn zeta in Hc.
        destruct (ccheck_block N P K (env_remove_all (env_remove_all G (map fst ph)) (apat_names p)) body) as [Gb|] eqn:Hb; [|discriminate].
        destruct (csub (env_remove_all G (map fst ph)) Gb) eqn:Hs; [|discriminate]. inversion Hc; subst.
        estep. pstep. eapply IHf; eauto. eapply cst_sub; [apply esub_remove_all | split; auto].
      * (* with *) rewrite ccheck_context_eq in Hc. destruct (ccheck_expr N P (Some CReal) G e) eqn:He; [|discriminate].
        eapply mokP_bind; [eapply cexpr_sound; eauto; intros c0 E; inversion E; reflexivity|].
        intros [vc mu1] Evc _. destruct vc as [| |C'| | |]; try apply mokP_fail.
        pose proof (static_ctx_sound _ _ _ _ _ _ _ _ Evc) as HK'.
        destruct x as [[a x]|].
        -- eapply mokP_bind with (Q1 := fun _ => True); [apply mokP_events; [repeat constructor | intros; exact I]|].
           intros _ _ _. eapply IHb; eauto. split; [|eapply gscalar_sub; [apply esub_remove|exact Hg]].
           intros y w Hy. destruct (env_remove_get _ _ _ _ Hy) as [Hn Hgy]. rewrite env_get_set_other by auto. auto.
        -- eapply IHb; eauto. split; auto.
      * cbn [ccheck_stmt] in Hc. destruct (ccheck_expr N P K G e) eqn:He; [|discriminate]. inversion Hc; subst.
        estep. pstep. destruct x; [apply mokP_ret; split; auto | apply mokP_fail].
      * cbn [ccheck_stmt] in Hc. destruct (ccheck_expr N P K G e) eqn:He; [|discriminate]. inversion Hc; subst.
        estep. apply mokP_ret. split; auto.
      * cbn [ccheck_stmt] in Hc. destruct (ccheck_expr N P K G e) eqn:He; [|discriminate]. inversion Hc; subst.
        estep. apply mokP_ret. exact I.
      * cbn [ccheck_stmt] in Hc. inversion Hc; subst. apply mokP_ret. split; auto.
    + intros K G G' s D mu C b Hc Hst HK. rewrite iexec_block_S.
      destruct b as [|st r]; cbn [iexec_block_body].
      * cbn in Hc. inversion Hc; subst. apply mokP_ret. exact Hst.
      * rewrite ccheck_block_cons in Hc. destruct (ccheck_stmt N P K G st) as [G1|] eqn:E1; [|discriminate].
        eapply mokP_bind; [eapply IHs; eauto|]. intros [o mu1] _ Ho. unfold cosat in Ho. cbn [fst] in Ho.
        destruct o as [s' D'|rv]; [eapply IHb; eauto | apply mokP_ret; exact I].
Qed.

(* ================================================================ the theorem *)
Lemma ibind_params_c : forall ps vs s D, Forall evc (fst (ibind_params ann ps vs s D)).
Proof.
  induction ps as [|[a x] ps IH]; intros vs s D; destruct vs as [|v vs]; cbn [ibind_params fst]; try constructor.
  specialize (IH vs (env_set s x v) (denv_set ann D x a)).
  destruct (ibind_params ann ps vs (env_set s x v) (denv_set ann D x a)) as [t r]. cbn [fst] in *.
  constructor; [reflexivity | exact IH].
Qed.

Theorem const_facts_sound_call : forall f, check_const_func N P f = true ->
  forall n vs mu C, Forall evc (fst (icall ann N P n f vs mu C)).
Proof.
  intros f Hc [|n] vs mu C; [constructor|].
  unfold check_const_func in Hc.
  destruct (ccheck_block N P (af_ctx f) [] (af_body f)) as [G'|] eqn:Hb; [|discriminate].
  unfold icall. pose proof (ibind_params_c (af_params f) vs [] []) as Ht.
  destruct (ibind_params ann (af_params f) vs [] []) as [t r]. cbn [fst] in Ht.
  assert (M1 : mokc (fun _ : value * store => True)
    (mbind (t, lift r) (fun '(s, D) =>
       mbind (iexec_block n s D mu (match af_ctx f with Some c => c | None => C end) (af_body f))
         (fun '(o, mu1) => match o with IOReturn v => mret (v, mu1) | IONormal _ _ => mfail OtherErr end)))).
  { eapply mokP_bind with (Q1 := fun _ => True).
    - apply mokP_events; auto.
    - intros [s D] _ _.
      eapply mokP_bind; [eapply (proj1 (proj2 (cstmt_all n))); eauto|].
      + split; intros x v E; discriminate.
      + intros c E. rewrite E. reflexivity.
      + intros [o mu1] _ _. destruct o; [apply mokP_fail | apply mokP_ret; exact I]. }
  exact (proj1 M1).
Qed.

End Const.
