(* C13: the annotation record shared by the fact checkers, and the verified
   checker of VALUE-CLASS facts (fpy2/analysis/value_class.py).  Definitions only.

   check_class_func R f = true  means: every class reported in the annotated
   function f (by_expr at expression nodes, by_def at binding sites and phis,
   the concrete context of context_use at operator nodes) is implied LOCALLY --
   by the facts of the children through the abstract transfer function, by the
   abstract environment at variable reads, by the branch refinement at
   conditionals; loop-head facts are inductive.  FactClassProofs.v: then every
   event of every execution satisfies its fact. *)
From Coq Require Import ZArith List Bool String.
From FpyV Require Import Num.RealFloat Num.Float Num.CtxDef Lang.Syntax Lang.Values Lang.Sem Lang.NumInst
  Analysis.ClassLattice Analysis.Instr.
Import ListNotations.
Open Scope Z_scope.

(* ---------------------------------------------------------------- annotations *)
Record ann := Ann {
  an_cls : option cls;      (* value_class: by_expr / by_def; None = no class reported *)
  an_ctx : option ctx;      (* context_use: the concrete context an operator node rounds under *)
  an_const : option cval;   (* partial_eval: by_expr *)
  an_def : nat;             (* reaching_defs: a use -> the definition it resolves to; a binding site / phi -> its own index *)
  an_args : list nat }.     (* reaching_defs: phi -> [lhs; rhs]; IndexedAssign def -> [prev] *)

Definition rep (a : ann) : cls := match an_cls a with Some c => c | None => c_top end.

Definition ann_of (e : aexpr ann) : ann :=
  match e with
  | AVar a _ | ANum a _ | ARat a _ _ | ABool a _ | ACtxVal a _ | AOp0 a _ | AOp1 a _ _ | AOp2 a _ _ _
  | AOp3 a _ _ _ _ | APred a _ _ | ACompare a _ _ | AAnd a _ | AOr a _ | ANot a _ | AIf a _ _ _
  | AMin a _ | AMax a _ | ACtor a _ _ | AOpaque a _ _ => a
  end.

(* ---------------------------------------------------------------- the claims (what an event must satisfy) *)
Definition ctx_claim (a : ann) (C : ctx) : bool :=
  match an_ctx a with Some c => ctx_eqb C c | None => true end.

Definition ev_class_ok (ev : event ann) : bool :=
  match ev with
  | EvVal a C v => sat_cls (rep a) v && ctx_claim a C
  | EvUse _ _ => true
  | EvDef a _ v => sat_cls (rep a) v
  | EvPhi a _ v _ => sat_cls (rep a) v
  end.

(* ---------------------------------------------------------------- abstract environments *)
Definition cenv := list (ident * cls).

Fixpoint cget (G : cenv) (x : ident) : cls :=
  match G with
  | [] => c_top
  | (y, c) :: G' => if String.eqb x y then c else cget G' x
  end.

Fixpoint cset (G : cenv) (x : ident) (c : cls) : cenv :=
  match G with
  | [] => [(x, c)]
  | (y, d) :: G' => if String.eqb x y then (y, c) :: G' else (y, d) :: cset G' x c
  end.

(* G1 below G2, pointwise (names absent from G2 are unconstrained) *)
Definition cleq (G1 G2 : cenv) : bool := forallb (fun xc => leq (cget G1 (fst xc)) (snd xc)) G2.

(* pointwise join; a name missing on either side becomes unconstrained *)
Definition cjoin (G1 G2 : cenv) : cenv := map (fun xc => (fst xc, join (snd xc) (cget G2 (fst xc)))) G1.

Definition crefine (G : cenv) (facts : list (ident * cls)) : cenv :=
  fold_left (fun G xc => cset G (fst xc) (meet (cget G (fst xc)) (snd xc))) facts G.

Definition set_phis (G : cenv) (ph : phis ann) : cenv :=
  fold_left (fun G xa => cset G (fst xa) (rep (snd xa))) ph G.

(* ---------------------------------------------------------------- branch refinement (value_class._implied) *)
Definition not_cls (a : atom) : cls := compl (single a).
Definition c_finite := Cls false false true true.
Definition c_special := Cls true true false false.

(* the class of a numeric literal *)
Definition lit_atom (e : aexpr ann) : option atom :=
  match e with
  | ANum _ v => Some (atom_of_fl v)
  | ARat _ n d => if d =? 0 then None else Some (if n =? 0 then AZero else AFin)
  | _ => None
  end.

Definition at_var (e : aexpr ann) (c : cls) : list (ident * cls) :=
  match e with AVar _ x => [(x, c)] | _ => [] end.

(* one link `x op y` that HOLDS, seen from the side of x *)
Definition link_true (o : cmpop) (x y : aexpr ann) : list (ident * cls) :=
  match o with
  | CNe => match lit_atom y with Some AZero => at_var x (not_cls AZero) | _ => [] end
  | CEq => match lit_atom y with
           | Some a => at_var x (single a)
           | None => at_var x (not_cls ANaN)
           end
  | _ => at_var x (not_cls ANaN)
  end.

Fixpoint chain_true (ops : list cmpop) (prev : aexpr ann) (args : list (aexpr ann)) : list (ident * cls) :=
  match ops, args with
  | o :: ops', e :: args' => link_true o prev e ++ link_true o e prev ++ chain_true ops' e args'
  | _, _ => []
  end.

Definition compare_implied (ops : list cmpop) (args : list (aexpr ann)) (truth : bool) : list (ident * cls) :=
  match args with
  | [] => []
  | a0 :: rest =>
      if truth then chain_true ops a0 rest
      else match ops, rest with
           | [CNe], [a1] => chain_true [CEq] a0 [a1]          (* not (a != b) is a == b *)
           | [CEq], [a1] =>
               (match lit_atom a1 with Some AZero => at_var a0 (not_cls AZero) | _ => [] end) ++
               (match lit_atom a0 with Some AZero => at_var a1 (not_cls AZero) | _ => [] end)
           | _, _ => []
           end
  end.

Fixpoint implied (c : aexpr ann) (truth : bool) : list (ident * cls) :=
  match c with
  | ANot _ e => implied e (negb truth)
  | AAnd _ args => if truth then flat_map (fun a => implied a true) args else []
  | AOr _ args => if truth then [] else flat_map (fun a => implied a false) args
  | APred _ PIsNan e => at_var e (if truth then single ANaN else not_cls ANaN)
  | APred _ PIsInf e => at_var e (if truth then single AInf else not_cls AInf)
  | APred _ PIsFinite e => at_var e (if truth then c_finite else c_special)
  | APred _ PIsNormal e => if truth then at_var e (single AFin) else []
  | ACompare _ ops args => compare_implied ops args truth
  | _ => []
  end.

(* ---------------------------------------------------------------- the checker *)
(* the numbers a list of literal arguments denotes *)
Fixpoint lit_nums (args : list (aexpr ann)) : option (list num) :=
  match args with
  | [] => Some []
  | ANum _ v :: r => match lit_nums r with Some xs => Some (NF v :: xs) | None => None end
  | ARat _ n d :: r =>
      if d =? 0 then None
      else match lit_nums r with Some xs => Some (num_of_frac n d :: xs) | None => None end
  | _ => None
  end.

Section Checker.
(* the class of a value of exact class `cl` after the rounding of context c *)
Variable R : ctx -> cls -> cls.
(* the context constructors of the number instance (n_ctor N) *)
Variable nctor : ctor -> list num -> result ctx.

Definition rnd (K : option ctx) (exact : cls) : cls :=
  match K with Some c => R c exact | None => c_top end.

(* the reported context of an operator node must be the statically known one *)
Definition ctx_ok (K : option ctx) (a : ann) : bool :=
  match an_ctx a, K with
  | None, _ => true
  | Some c, Some k => ctx_eqb k c
  | Some _, None => false
  end.

Fixpoint check_expr (G : cenv) (K : option ctx) (e : aexpr ann) {struct e} : bool :=
  ctx_ok K (ann_of e) &&
  match e with
  | AVar a x => leq (cget G x) (rep a)
  | ANum a v => mem (atom_of_fl v) (rep a)
  | ARat a n d => mem (if n =? 0 then AZero else AFin) (rep a)
  | ABool _ _ | ACtxVal _ _ => true
  | AOp0 a o => leq (rnd K (op0_exact o)) (rep a)
  | AOp1 a o e1 => check_expr G K e1 && leq (rnd K (op1_exact o (rep (ann_of e1)))) (rep a)
  | AOp2 a o e1 e2 =>
      check_expr G K e1 && check_expr G K e2 &&
      leq (rnd K (op2_exact o (rep (ann_of e1)) (rep (ann_of e2)))) (rep a)
  | AOp3 a o e1 e2 e3 =>
      check_expr G K e1 && check_expr G K e2 && check_expr G K e3 &&
      leq (rnd K (op3_exact o (rep (ann_of e1)) (rep (ann_of e2)) (rep (ann_of e3)))) (rep a)
  | APred _ _ e1 => check_expr G K e1
  | ACompare _ _ args => forallb (check_expr G K) args
  | AAnd _ args | AOr _ args => forallb (check_expr G K) args
  | ANot _ e1 => check_expr G K e1
  | AIf a c t f =>
      check_expr G K c &&
      check_expr (crefine G (implied c true)) K t &&
      check_expr (crefine G (implied c false)) K f &&
      leq (join (rep (ann_of t)) (rep (ann_of f))) (rep a)
  | AMin a es | AMax a es =>
      forallb (check_expr G K) es && leq (joins (map (fun e => rep (ann_of e)) es)) (rep a)
  | ACtor _ _ args => forallb (check_expr G K) args
  | AOpaque a _ _ => leq c_top (rep a)
  end.

(* binding: a variable gets the class reported for its definition, which must
   cover the class of the bound expression; unpacked elements are unconstrained *)
Fixpoint bind_top (p : apat ann) (G : cenv) : option cenv :=
  match p with
  | APVar a x => if leq c_top (rep a) then Some (cset G x c_top) else None
  | APWild => Some G
  | APTuple ps =>
      (fix go (ps : list (apat ann)) (G : cenv) : option cenv :=
         match ps with
         | [] => Some G
         | p :: ps' => match bind_top p G with Some G' => go ps' G' | None => None end
         end) ps G
  end.

Definition cbind (p : apat ann) (c : cls) (G : cenv) : option cenv :=
  match p with
  | APVar a x => if leq c (rep a) then Some (cset G x (rep a)) else None
  | APWild => Some G
  | APTuple _ => bind_top p G
  end.

Definition check_phis (G : cenv) (ph : phis ann) : bool :=
  forallb (fun xa => leq (cget G (fst xa)) (rep (snd xa))) ph.

(* the context a `with` header denotes, when it is a constant or a constructor
   applied to literals *)
Definition static_ctx (e : aexpr ann) : option ctx :=
  match e with
  | ACtxVal _ c => Some c
  | ACtor _ k args =>
      match lit_nums args with
      | Some xs => match nctor k xs with Ok c => Some c | Err _ => None end
      | None => None
      end
  | _ => None
  end.

Fixpoint check_stmt (G : cenv) (K : option ctx) (st : astmt ann) {struct st} : option cenv :=
  let check_block :=
    fix cb (G : cenv) (K : option ctx) (b : list (astmt ann)) {struct b} : option cenv :=
      match b with
      | [] => Some G
      | st :: r => match check_stmt G K st with Some G' => cb G' K r | None => None end
      end in
  match st with
  | ASAssign p e =>
      if check_expr G K e then cbind p (rep (ann_of e)) G else None
  | ASIndexAssign _ ad x _ e =>
      if check_expr G K e && leq c_top (rep ad) then Some (cset G x c_top) else None
  | ASIf1 ph c body =>
      if check_expr G K c then
        match check_block (crefine G (implied c true)) K body with
        | Some Gb =>
            let Gj := cjoin Gb (crefine G (implied c false)) in
            if check_phis Gj ph then Some (set_phis Gj ph) else None
        | None => None
        end
      else None
  | ASIf ph c ift iff =>
      if check_expr G K c then
        match check_block (crefine G (implied c true)) K ift, check_block (crefine G (implied c false)) K iff with
        | Some Gtr, Some Gfa =>
            (* an arm that always returns never reaches the join *)
            let Gj := if blk_ret ift then Gfa else if blk_ret iff then Gtr else cjoin Gtr Gfa in
            if check_phis Gj ph then Some (set_phis Gj ph) else None
        | _, _ => None
        end
      else None
  | ASWhile ph c body =>
      let Gh := set_phis G ph in
      if cleq G Gh && check_phis Gh ph && check_expr Gh K c then
        match check_block (crefine Gh (implied c true)) K body with
        | Some Gb => if cleq Gb Gh then Some (crefine Gh (implied c false)) else None
        | None => None
        end
      else None
  | ASFor ph p it body =>
      let Gh := set_phis G ph in
      if check_expr G K it && cleq G Gh && check_phis Gh ph then
        match bind_top p Gh with
        | Some Gtr =>
            match check_block Gtr K body with
            | Some Gb => if cleq Gb Gh then Some Gh else None
            | None => None
            end
        | None => None
        end
      else None
  | ASContext x e body =>
      if check_expr G (Some CReal) e then
        match x with
        | Some (a, x) => if leq c_top (rep a) then check_block (cset G x c_top) (static_ctx e) body else None
        | None => check_block G (static_ctx e) body
        end
      else None
  | ASAssert e | ASEffect e | ASReturn e => if check_expr G K e then Some G else None
  | ASPass => Some G
  end.

Fixpoint check_block (G : cenv) (K : option ctx) (b : list (astmt ann)) {struct b} : option cenv :=
  match b with
  | [] => Some G
  | st :: r => match check_stmt G K st with Some G' => check_block G' K r | None => None end
  end.

Definition param_env (ps : list (ann * ident)) : cenv :=
  fold_left (fun G ax => cset G (snd ax) (rep (fst ax))) ps [].

Definition check_class_func (f : afunc ann) : bool :=
  match check_block (param_env (af_params f)) (af_ctx f) (af_body f) with Some _ => true | None => false end.

End Checker.

(* ---------------------------------------------------------------- what the checker assumes of the number operations *)
(* "The exact result, then one rounding": the class of every result lies in the
   rounding transfer R of the class table of the exact operation. *)
Record NumClassSpec (N : numops) (R : ctx -> cls -> cls) : Prop := {
  ncs_op0 : forall o C r, n_nullop N o C = Ok r ->
      mem (atom_of_num r) (R C (op0_exact o)) = true;
  ncs_op1 : forall o C x r a, n_unop N o C x = Ok r -> mem (atom_of_num x) a = true ->
      mem (atom_of_num r) (R C (op1_exact o a)) = true;
  ncs_op2 : forall o C x y r a b, n_binop N o C x y = Ok r ->
      mem (atom_of_num x) a = true -> mem (atom_of_num y) b = true ->
      mem (atom_of_num r) (R C (op2_exact o a b)) = true;
  ncs_op3 : forall o C x y z r a b c, n_ternop N o C x y z = Ok r ->
      mem (atom_of_num x) a = true -> mem (atom_of_num y) b = true -> mem (atom_of_num z) c = true ->
      mem (atom_of_num r) (R C (op3_exact o a b c)) = true;
  ncs_isnan : forall x, n_pred N PIsNan x = true <-> atom_of_num x = ANaN;
  ncs_isinf : forall x, n_pred N PIsInf x = true <-> atom_of_num x = AInf;
  ncs_isfinite : forall x, n_pred N PIsFinite x = true <-> mem (atom_of_num x) c_finite = true;
  ncs_isnormal : forall x, n_pred N PIsNormal x = true -> atom_of_num x = AFin;
  ncs_cmp_nan : forall x y c, n_cmp N x y = Some c -> atom_of_num x <> ANaN /\ atom_of_num y <> ANaN;
  ncs_cmp_eq : forall x y, n_cmp N x y = Some Eq -> atom_of_num x = atom_of_num y;
  ncs_cmp_zero : forall x y, atom_of_num x = AZero -> atom_of_num y = AZero -> n_cmp N x y = Some Eq }.

(* ---------------------------------------------------------------- the instance used by the tie *)
(* R for the contexts of Lang/NumInst.v (NaN and infinities enabled, default
   special-value options): REAL keeps the exact class; otherwise specials and
   zeros are kept and a finite non-zero value may round to zero or overflow *)
Definition R_prov (c : ctx) (cl : cls) : cls := if is_real c then cl else lift1 a_round cl.

(* prov_numops restricted to well-formed numbers (an NQ is a non-zero,
   non-dyadic rational -- fpy2's Fraction cannot be anything else): an
   ill-formed operand is refused *)
Definition ok1 {X} (x : num) (r : result X) : result X := if num_okb x then r else Err OtherErr.

Definition guard_numops (N : numops) : numops := NumOps
  (fun c x => ok1 x (n_round N c x))
  (n_nullop N)
  (fun o c x => ok1 x (n_unop N o c x))
  (fun o c x y => ok1 x (ok1 y (n_binop N o c x y)))
  (fun o c x y z => ok1 x (ok1 y (ok1 z (n_ternop N o c x y z))))
  (n_pred N)
  (fun x y => if num_okb x && num_okb y then n_cmp N x y else None)
  (n_ctor N).

Definition okprov_numops : numops := guard_numops prov_numops.
