(* C13: soundness of the reaching-definitions fact checker (FactReach.v):
     check_reach_func T f = true  ->  in every execution of f every variable
   read observes a binding whose definition reaches the definition the read
   resolves to, and the value at every phi point was bound by a definition
   reaching the phi (through the phi table T). *)
From Coq Require Import ZArith List Bool String Lia.
From FpyV Require Import Num.RealFloat Num.Float Num.CtxDef Lang.Syntax Lang.Values Lang.Sem Lang.SemMono
  Analysis.ClassLattice Analysis.Instr Analysis.InstrProofs Analysis.FactClass Analysis.TraceLogic Analysis.FactReach.
Import ListNotations.

Section Reach.
Variable T : ptable.
Variable N : numops.
Variable P : program.

Notation ieval := (ieval ann N P).
Notation ievals := (ievals ann N P).
Notation icmp_chain := (icmp_chain ann N P).
Notation ibool_chain := (ibool_chain ann N P).
Notation iexec := (iexec ann N P).
Notation iexec_block := (iexec_block ann N P).
Notation ifor_loop := (ifor_loop ann N P).

(* the claim of an event *)
Definition evr (ev : event ann) : Prop :=
  match ev with
  | EvUse a (Some ad) => reach T (an_def a) (an_def ad)
  | EvUse _ None => False
  | EvPhi a _ _ (Some ad) => reach T (an_def a) (an_def ad)
  | EvPhi _ _ _ None => False
  | _ => True
  end.

(* the executable claim implies it *)
Lemma memn_In : forall k l, memn k l = true -> In k l.
Proof.
  intros k l H. unfold memn in H. apply existsb_exists in H. destruct H as (x & Hin & E).
  apply Nat.eqb_eq in E. subst. exact Hin.
Qed.

Lemma reachb_sound : forall fuel p k, reachb T fuel p k = true -> reach T p k.
Proof.
  induction fuel as [|f IH]; intros p k H; cbn in H; destruct (Nat.eqb_spec p k) as [->|ne]; try constructor.
  - discriminate.
  - apply existsb_exists in H. destruct H as ([p' args] & Hin & H). cbn in H.
    destruct (Nat.eqb_spec p' p) as [->|]; [|discriminate].
    apply existsb_exists in H. destruct H as (q & Hq & H).
    eapply reach_phi; eauto.
Qed.

Lemma ev_reach_okb_sound : forall ev, ev_reach_okb T ev = true -> evr ev.
Proof.
  intros [a C v|a [ad|]|a x v|a x v [ad|]] H; cbn in *; try exact I; try discriminate; eapply reachb_sound; eauto.
Qed.

(* ---------------------------------------------------------------- environments *)
Lemma dget_dset_same : forall G x k, dget (dset G x k) x = Some k.
Proof.
  induction G as [|[y j] G IH]; intros; cbn.
  - rewrite String.eqb_refl. reflexivity.
  - destruct (String.eqb x y) eqn:E; cbn; rewrite E; auto.
Qed.

Lemma dget_dset_other : forall G x y k, x <> y -> dget (dset G x k) y = dget G y.
Proof.
  induction G as [|[z j] G IH]; intros; cbn.
  - destruct (String.eqb y x) eqn:E; auto. apply String.eqb_eq in E. congruence.
  - destruct (String.eqb x z) eqn:E; cbn.
    + apply String.eqb_eq in E. subst z.
      destruct (String.eqb y x) eqn:E2; auto. apply String.eqb_eq in E2. congruence.
    + destruct (String.eqb y z); auto.
Qed.

Definition dinv (G : denvS) (D : denv ann) : Prop :=
  forall x k, dget G x = Some k -> exists ad, denv_get ann D x = Some ad /\ reach T k (an_def ad).

Lemma dinv_set : forall G D x a, dinv G D -> dinv (dset G x (an_def a)) (denv_set ann D x a).
Proof.
  intros G D x a H y k Hy. destruct (String.eqb_spec x y) as [->|ne].
  - rewrite dget_dset_same in Hy. inversion Hy; subst. exists a. rewrite denv_get_set_same. split; auto. constructor.
  - rewrite dget_dset_other in Hy by auto. rewrite denv_get_set_other by auto. apply H; auto.
Qed.

Lemma is_def_inv : forall G x k, is_def G x k = true -> dget G x = Some k.
Proof.
  unfold is_def. intros G x k H. destruct (dget G x); [|discriminate]. apply Nat.eqb_eq in H. subst. reflexivity.
Qed.

Lemma is_def_use : forall G D x k, is_def G x k = true -> dinv G D ->
  exists ad, denv_get ann D x = Some ad /\ reach T k (an_def ad).
Proof. intros. apply H0. apply is_def_inv. exact H. Qed.

Lemma in_table_step : forall p args q k,
  in_table T p args = true -> memn q args = true -> reach T q k -> reach T p k.
Proof.
  intros p args q k Ht Hq Hr. unfold in_table in Ht. apply existsb_exists in Ht.
  destruct Ht as ([p' args'] & Hin & H). apply andb_prop in H. destruct H as [E H]. cbn in *.
  apply Nat.eqb_eq in E. subst p'. rewrite forallb_forall in H.
  eapply reach_phi; [exact Hin| |exact Hr]. apply memn_In. apply H. apply memn_In. exact Hq.
Qed.

(* ---------------------------------------------------------------- binding *)
Lemma rbind_sound : forall p v s D G,
  dinv G D ->
  Forall evr (fst (ibind_pat ann p v s D)) /\
  (forall s' D', snd (ibind_pat ann p v s D) = Ok (s', D') -> dinv (rbind p G) D').
Proof.
  fix IH 1. intros p v s D G Hs. destruct p as [a x| |ps]; cbn [rbind ibind_pat fst snd].
  - split; [repeat constructor|]. intros s' D' H. inversion H; subst. apply dinv_set; auto.
  - split; [constructor|]. intros s' D' H. inversion H; subst. exact Hs.
  - destruct v; try (split; [constructor|discriminate]).
    destruct (Nat.eqb_spec (List.length ps) (List.length vs)) as [El|]; cbn [negb];
      [|split; [constructor|discriminate]].
    revert vs El s D G Hs. induction ps as [|p ps IHps]; intros vs El s D G Hs.
    + destruct vs; (split; [constructor|]); intros s' D' H; inversion H; subst; exact Hs.
    + destruct vs as [|v vs]; [discriminate El|]. cbn in El. injection El as El.
      destruct (IH p v s D G Hs) as [Ht Hr].
      destruct (ibind_pat ann p v s D) as [t1 [[s1 D1]|e]]; cbn [fst snd] in *.
      * specialize (IHps vs El s1 D1 (rbind p G) (Hr s1 D1 eq_refl)). cbn [fold_left].
        match goal with |- context [(fix go (ps0 : list (apat ann)) (vs0 : list value) (s0 : env) (D0 : denv ann) {struct ps0} := _) ps vs s1 D1] =>
          set (X := (fix go (ps0 : list (apat ann)) (vs0 : list value) (s0 : env) (D0 : denv ann) {struct ps0} := _) ps vs s1 D1) in * end.
        destruct X as [t2 r2]. cbn [fst snd] in *. destruct IHps as [Ht2 Hr2]. split; [apply Forall_app; auto | exact Hr2].
      * split; [exact Ht | discriminate].
Qed.

Notation mokr := (mokP ann evr).

Lemma rbind_mok : forall p v s D G,
  dinv G D -> mokr (fun sd => dinv (rbind p G) (snd sd)) (mbind_pat ann p v s D).
Proof.
  intros p v s D G Hs. unfold mbind_pat.
  destruct (rbind_sound p v s D G Hs) as [Ht Hr].
  destruct (ibind_pat ann p v s D) as [t [[s' D']|e]]; cbn [fst snd] in *.
  - apply mokP_events; auto. intros x E. inversion E; subst. cbn. eapply Hr. reflexivity.
  - apply mokP_events; auto. discriminate.
Qed.

(* ---------------------------------------------------------------- merges and loop heads *)
Lemma phi_of_in : forall ph x a, nodup_names ph = true -> In (x, a) ph -> phi_of ph x = Some a.
Proof.
  induction ph as [|[y b] ph IH]; intros x a Hn Hin; [destruct Hin|].
  cbn in Hn. apply andb_prop in Hn. destruct Hn as [Hy Hn]. cbn.
  destruct Hin as [E|Hin].
  - inversion E; subst. rewrite String.eqb_refl. reflexivity.
  - destruct (String.eqb_spec x y) as [->|ne]; [|apply IH; auto].
    exfalso. apply negb_true_iff in Hy. unfold mems in Hy.
    assert (existsb (String.eqb y) (map fst ph) = true).
    { apply existsb_exists. exists y. split; [|apply String.eqb_refl]. apply in_map_iff. exists (y, a). auto. }
    congruence.
Qed.

Lemma rmerge_spec : forall ph G1 G2 G x k,
  rmerge T ph G1 G2 = Some G -> dget G x = Some k ->
  exists k1 k2, dget G1 x = Some k1 /\ dget G2 x = Some k2 /\
    ((k = k1 /\ k1 = k2) \/ (exists a, k = an_def a /\ phi_ok T a k1 k2 = true)).
Proof.
  induction G1 as [|[y k1] G1 IH]; intros G2 G x k Hm Hx; cbn [rmerge] in Hm.
  - inversion Hm; subst. discriminate.
  - destruct (rmerge T ph G1 G2) as [G0|] eqn:E0; [|discriminate].
    cbn [dget]. destruct (dget G2 y) as [k2|] eqn:E2.
    + destruct (phi_of ph y) as [a|] eqn:Ep.
      * destruct (phi_ok T a k1 k2) eqn:Eo; [|discriminate]. inversion Hm; subst. cbn [dget] in Hx.
        destruct (String.eqb_spec x y) as [->|ne].
        -- inversion Hx; subst. exists k1, k2. repeat split; auto. right. exists a. auto.
        -- eapply IH; eauto.
      * destruct (Nat.eqb_spec k1 k2) as [Ek|]; [|discriminate]. inversion Hm as [HG]. subst G. cbn [dget] in Hx.
        destruct (String.eqb_spec x y) as [Exy|ne].
        -- inversion Hx as [Hk]. exists k1, k2. subst x. repeat split; auto.
        -- eapply IH; eauto.
    + inversion Hm; subst. destruct (String.eqb_spec x y) as [->|ne].
      * (* y is dropped: x = y cannot be found in G through this entry; it may come from a later one *)
        destruct (IH G2 G y k E0 Hx) as (j1 & j2 & _ & H2 & _). congruence.
      * eapply IH; eauto.
Qed.

Lemma phi_ok_l : forall a k1 k2 k, phi_ok T a k1 k2 = true -> reach T k1 k -> reach T (an_def a) k.
Proof.
  intros a k1 k2 k H Hr. unfold phi_ok in H. apply andb_prop in H. destruct H as [H Ht]. apply andb_prop in H.
  destruct H as [H1 H2]. eapply in_table_step; [exact Ht | exact H1 | exact Hr].
Qed.

Lemma phi_ok_r : forall a k1 k2 k, phi_ok T a k1 k2 = true -> reach T k2 k -> reach T (an_def a) k.
Proof.
  intros a k1 k2 k H Hr. unfold phi_ok in H. apply andb_prop in H. destruct H as [H Ht]. apply andb_prop in H.
  destruct H as [H1 H2]. eapply in_table_step; [exact Ht | exact H2 | exact Hr].
Qed.

Lemma rmerge_l : forall ph G1 G2 G D, rmerge T ph G1 G2 = Some G -> dinv G1 D -> dinv G D.
Proof.
  intros ph G1 G2 G D Hm H x k Hx.
  destruct (rmerge_spec _ _ _ _ _ _ Hm Hx) as (k1 & k2 & E1 & E2 & Hc).
  destruct (H x k1 E1) as (ad & Ed & Hr). exists ad. split; auto.
  destruct Hc as [[-> _]|(a & -> & Ho)]; auto. eapply phi_ok_l; eauto.
Qed.

Lemma rmerge_r : forall ph G1 G2 G D, rmerge T ph G1 G2 = Some G -> dinv G2 D -> dinv G D.
Proof.
  intros ph G1 G2 G D Hm H x k Hx.
  destruct (rmerge_spec _ _ _ _ _ _ Hm Hx) as (k1 & k2 & E1 & E2 & Hc).
  destruct (H x k2 E2) as (ad & Ed & Hr). exists ad. split; auto.
  destruct Hc as [[-> ->]|(a & -> & Ho)]; auto. eapply phi_ok_r; eauto.
Qed.

(* after a merge every reported phi is the current definition of its name *)
Lemma rmerge_phi : forall ph G1 G2 G x a k1 k2,
  rmerge T ph G1 G2 = Some G -> phi_of ph x = Some a -> dget G1 x = Some k1 -> dget G2 x = Some k2 ->
  dget G x = Some (an_def a).
Proof.
  induction G1 as [|[y j1] G1 IH]; intros G2 G x a k1 k2 Hm Hp H1 H2; cbn [rmerge dget] in *; [discriminate|].
  destruct (rmerge T ph G1 G2) as [G0|] eqn:E0; [|discriminate].
  destruct (String.eqb_spec x y) as [->|ne].
  - rewrite H2, Hp in Hm. destruct (phi_ok T a j1 k2); [|discriminate]. inversion Hm; subst. cbn. rewrite String.eqb_refl. reflexivity.
  - destruct (dget G2 y) as [j2|].
    + destruct (phi_of ph y) as [b|].
      * destruct (phi_ok T b j1 j2); [|discriminate]. inversion Hm; subst. cbn [dget].
        destruct (String.eqb_spec x y); [contradiction|]. eapply IH; eauto.
      * destruct (Nat.eqb j1 j2); [|discriminate]. inversion Hm; subst. cbn [dget].
        destruct (String.eqb_spec x y); [contradiction|]. eapply IH; eauto.
    + inversion Hm; subst. eapply IH; eauto.
Qed.

Definition phis_current (ph : phis ann) (G : denvS) : Prop :=
  forall x a, In (x, a) ph -> dget G x = Some (an_def a).

Lemma phi_events_r : forall s D ph G, phis_current ph G -> dinv G D -> Forall evr (phi_events ann s D ph).
Proof.
  intros s D ph G Hc Hd. unfold phi_events. apply Forall_forall. intros ev Hin.
  apply in_flat_map in Hin. destruct Hin as ([x a] & Hin & Hev). cbn [fst snd] in Hev.
  destruct (env_get s x) as [v|]; [|destruct Hev]. destruct Hev as [<-|[]].
  destruct (Hd x _ (Hc x a Hin)) as (ad & -> & Hr). exact Hr.
Qed.

Lemma phis_bound_current : forall ph G1 G2 G,
  phis_bound ph G1 G2 = true -> rmerge T ph G1 G2 = Some G -> phis_current ph G.
Proof.
  intros ph G1 G2 G Hb Hm x a Hin. unfold phis_bound in Hb. apply andb_prop in Hb. destruct Hb as [Hn Hb].
  rewrite forallb_forall in Hb. specialize (Hb (x, a) Hin). cbn in Hb.
  destruct (dget G1 x) as [k1|] eqn:E1; [|discriminate]. destruct (dget G2 x) as [k2|] eqn:E2; [|discriminate].
  eapply rmerge_phi; eauto. apply phi_of_in; auto.
Qed.

Lemma rhead_sound : forall ph G Gh D, rhead T ph G = Some Gh -> dinv G D -> dinv Gh D.
Proof.
  induction ph as [|[x a] ph IH]; intros G Gh D Hh Hd; cbn [rhead] in Hh.
  - inversion Hh; subst. exact Hd.
  - destruct (dget G x) as [k|] eqn:Ex; [|discriminate].
    destruct (memn k (an_args a) && in_table T (an_def a) (an_args a)) eqn:Ec; [|discriminate].
    apply andb_prop in Ec. destruct Ec as [Hk Ht].
    eapply IH; eauto. intros y j Hy. destruct (String.eqb_spec x y) as [->|ne].
    + rewrite dget_dset_same in Hy. inversion Hy; subst. destruct (Hd y k Ex) as (ad & Ed & Hr).
      exists ad. split; auto. eapply in_table_step; eauto.
    + rewrite dget_dset_other in Hy by auto. apply Hd; auto.
Qed.

Lemma rhead_ok_current : forall ph Gh, rhead_ok ph Gh = true -> phis_current ph Gh.
Proof.
  intros ph Gh H x a Hin. unfold rhead_ok in H. apply andb_prop in H. destruct H as [_ H].
  rewrite forallb_forall in H. specialize (H (x, a) Hin). cbn in H. apply is_def_inv. exact H.
Qed.

Lemma rback_sound : forall ph Gh Gb D, rback T ph Gh Gb = true -> dinv Gb D -> dinv Gh D.
Proof.
  intros ph Gh Gb D Hb Hd x kh Hx. unfold rback in Hb. rewrite forallb_forall in Hb.
  assert (Hin : exists G', In (x, kh) Gh) by
    (clear -Hx; exists Gh; induction Gh as [|[y j] G IH]; cbn in *; [discriminate|];
     destruct (String.eqb_spec x y) as [->|]; [inversion Hx; subst; auto | right; auto]).
  destruct Hin as [_ Hin]. specialize (Hb (x, kh) Hin). cbn [fst snd] in Hb.
  destruct (dget Gb x) as [kb|] eqn:Eb; [|discriminate].
  destruct (Hd x kb Eb) as (ad & Ed & Hr). exists ad. split; auto.
  apply orb_prop in Hb. destruct Hb as [E|Hb].
  - apply Nat.eqb_eq in E. subst. exact Hr.
  - destruct (phi_of ph x) as [a|]; [|discriminate]. apply andb_prop in Hb. destruct Hb as [Hb Ht].
    apply andb_prop in Hb. destruct Hb as [E Hk]. apply Nat.eqb_eq in E. subst kh.
    eapply in_table_step; eauto.
Qed.

(* ---------------------------------------------------------------- expressions *)
Ltac bsp := repeat match goal with H : (_ && _) = true |- _ => apply andb_prop in H; destruct H end.
Ltac step := eapply mokP_bind; [solve [eauto] | let x := fresh "x" in intros x _ _; try (destruct x as [? ?])].
Ltac pure := eapply mokP_bind; [apply mokP_liftr; intros; exact I | let x := fresh "x" in intros x _ _; try (destruct x as [? ?])].
Ltac fin := first [apply mokP_done; exact I | apply mokP_ret; exact I | apply mokP_fail].

Definition rexpr_at (n : nat) : Prop :=
  (forall G s D mu C e, rcheck_expr G e = true -> dinv G D -> mokr (fun _ => True) (ieval n s D mu C e)) /\
  (forall G s D mu C es, forallb (rcheck_expr G) es = true -> dinv G D -> mokr (fun _ => True) (ievals n s D mu C es)) /\
  (forall G s D mu C v ops args, forallb (rcheck_expr G) args = true -> dinv G D ->
     mokr (fun _ => True) (icmp_chain n s D mu C v ops args)) /\
  (forall G s D mu C u args, forallb (rcheck_expr G) args = true -> dinv G D ->
     mokr (fun _ => True) (ibool_chain n s D mu C u args)).

Lemma rexpr_all : forall n, rexpr_at n.
Proof.
  induction n as [|n (IHe & IHes & IHc & IHb)].
  - split; [|split; [|split]]; intros; apply mokP_liftr; discriminate.
  - split; [|split; [|split]].
    + intros G s D mu C e Hc Hd. rewrite ieval_S.
      destruct e; cbn [ieval_body]; cbn [rcheck_expr] in Hc; bsp.
      * destruct (env_get s x) as [v|]; [|apply mokP_fail].
        destruct (is_def_use _ _ _ _ Hc Hd) as (ad & Ed & Hr).
        apply mokP_events; [|intros; exact I]. rewrite Ed. repeat constructor. exact Hr.
      * fin.
      * destruct (d =? 0)%Z; fin.
      * fin.
      * fin.
      * pure. fin.
      * step. pure. pure. fin.
      * step. step. pure. pure. pure. fin.
      * step. step. step. pure. pure. pure. pure. fin.
      * step. pure. fin.
      * destruct args as [|e1 rest]; [apply mokP_fail|]. cbn [forallb] in Hc. bsp. step. step. fin.
      * step. fin.
      * step. fin.
      * step. pure. fin.
      * step. pure. eapply mokP_bind with (Q1 := fun _ => True); [destruct x; eauto|]. intros [? ?] _ _. fin.
      * step. pure. pure. fin.
      * step. pure. pure. fin.
      * step. pure. pure. fin.
      * (* opaque leaf: one use event per listed occurrence *)
        eapply mokP_bind with (Q1 := fun _ => True).
        { apply mokP_events; [|intros; exact I]. unfold use_events. apply Forall_forall. intros ev Hin.
          apply in_map_iff in Hin. destruct Hin as ([x ua] & <- & Hin). cbn [fst snd].
          rewrite forallb_forall in H. specialize (H (x, ua) Hin). cbn in H.
          destruct (is_def_use _ _ _ _ H Hd) as (ad & -> & Hr). exact Hr. }
        intros [? ?] _ _. fin.
    + intros G s D mu C es Hc Hd. rewrite ievals_S. destruct es as [|e r]; cbn [ievals_body forallb] in *; [fin|].
      bsp. step. step. fin.
    + intros G s D mu C v ops args Hc Hd. rewrite icmp_chain_S.
      destruct ops as [|o ops'], args as [|e args']; cbn [icmp_chain_body forallb] in *; try fin.
      bsp. destruct (is_ordering o).
      * pure. step. pure. match goal with |- context [if ?b then _ else _] => destruct b end; [|fin].
        destruct ops'; [fin | eauto].
      * step. pure. match goal with |- context [if ?b then _ else _] => destruct b end; [|fin].
        destruct ops'; [fin | eauto].
    + intros G s D mu C u args Hc Hd. rewrite ibool_chain_S.
      destruct args as [|e r]; cbn [ibool_chain_body forallb] in *; [fin|].
      bsp. step. pure. match goal with |- context [if ?b then _ else _] => destruct b end; [|fin].
      destruct r; [fin | eauto].
Qed.

Lemma rexpr_sound : forall n G s D mu C e,
  rcheck_expr G e = true -> dinv G D -> mokr (fun _ => True) (ieval n s D mu C e).
Proof. intros n. apply (rexpr_all n). Qed.

(* ---------------------------------------------------------------- statements *)
Definition rosat (G' : denvS) (r : ioutcome ann * store) : Prop :=
  match fst r with IONormal _ D' => dinv G' D' | IOReturn _ => True end.

Lemma rcheck_if1_eq : forall G ph c body,
  rcheck_stmt T G (ASIf1 ph c body) =
  if rcheck_expr G c then
    match rcheck_block T G body with
    | Some Gb => if phis_bound ph Gb G then rmerge T ph Gb G else None
    | None => None
    end
  else None.
Proof. reflexivity. Qed.

Lemma rcheck_if_eq : forall G ph c ift iff,
  rcheck_stmt T G (ASIf ph c ift iff) =
  if rcheck_expr G c then
    match rcheck_block T G ift, rcheck_block T G iff with
    | Some G1, Some G2 =>
        if blk_ret ift then (match ph with [] => Some G2 | _ => None end)
        else if blk_ret iff then (match ph with [] => Some G1 | _ => None end)
        else if phis_bound ph G1 G2 then rmerge T ph G1 G2 else None
    | _, _ => None
    end
  else None.
Proof. reflexivity. Qed.

Lemma rcheck_while_eq : forall G ph c body,
  rcheck_stmt T G (ASWhile ph c body) =
  match rhead T ph G with
  | Some Gh =>
      if rhead_ok ph Gh && rcheck_expr Gh c then
        match rcheck_block T Gh body with
        | Some Gb => if rback T ph Gh Gb then Some Gh else None
        | None => None
        end
      else None
  | None => None
  end.
Proof. reflexivity. Qed.

Lemma rcheck_for_eq : forall G ph p it body,
  rcheck_stmt T G (ASFor ph p it body) =
  if rcheck_expr G it then
    match rhead T ph G with
    | Some Gh =>
        if rhead_ok ph Gh then
          match rcheck_block T (rbind p Gh) body with
          | Some Gb => if rback T ph Gh Gb then Some Gh else None
          | None => None
          end
        else None
    | None => None
    end
  else None.
Proof. reflexivity. Qed.

Lemma rcheck_context_eq : forall G x e body,
  rcheck_stmt T G (ASContext x e body) =
  if rcheck_expr G e then
    rcheck_block T (match x with Some (a, x) => dset G x (an_def a) | None => G end) body
  else None.
Proof. reflexivity. Qed.

Lemma rcheck_block_cons : forall G st r,
  rcheck_block T G (st :: r) = match rcheck_stmt T G st with Some G' => rcheck_block T G' r | None => None end.
Proof. reflexivity. Qed.

Definition rstmt_at (n : nat) : Prop :=
  (forall G G' s D mu C st, rcheck_stmt T G st = Some G' -> dinv G D -> mokr (rosat G') (iexec n s D mu C st)) /\
  (forall G G' s D mu C b, rcheck_block T G b = Some G' -> dinv G D -> mokr (rosat G') (iexec_block n s D mu C b)) /\
  (forall ph c body Gh Gb s D mu C,
     rhead_ok ph Gh = true -> rcheck_expr Gh c = true -> rcheck_block T Gh body = Some Gb ->
     rback T ph Gh Gb = true -> dinv Gh D ->
     mokr (rosat Gh) (iexec n s D mu C (ASWhile ph c body))) /\
  (forall ph p body Gh Gb s D mu C l i,
     rhead_ok ph Gh = true -> rcheck_block T (rbind p Gh) body = Some Gb ->
     rback T ph Gh Gb = true -> dinv Gh D ->
     mokr (rosat Gh) (ifor_loop n s D mu C ph p l i body)).

Lemma after_phis_r : forall Gm ph (m : M ann (ioutcome ann * store)),
  phis_current ph Gm -> mokr (rosat Gm) m -> mokr (rosat Gm) (mbind m (after_phis ann ph)).
Proof.
  intros Gm ph m Hp Hm. eapply mokP_bind; [exact Hm|]. intros [o mu] _ Ho. unfold after_phis, rosat in *. cbn [fst] in *.
  destruct o as [s D|v].
  - apply mokP_events; [eapply phi_events_r; eauto|]. intros x E. inversion E; subst. exact Ho.
  - apply mokP_ret. exact I.
Qed.

Ltac estep := eapply mokP_bind; [eapply rexpr_sound; eauto | let x := fresh "x" in intros x _ _; try (destruct x as [? ?])].

Lemma rstmt_all : forall n, rstmt_at n.
Proof.
  induction n as [|n (IHs & IHb & IHw & IHf)].
  - split; [|split; [|split]]; intros; apply mokP_liftr; discriminate.
  - assert (W : forall ph c body Gh Gb s D mu C,
     rhead_ok ph Gh = true -> rcheck_expr Gh c = true -> rcheck_block T Gh body = Some Gb ->
     rback T ph Gh Gb = true -> dinv Gh D ->
     mokr (rosat Gh) (iexec (S n) s D mu C (ASWhile ph c body))).
    { intros ph c body Gh Gb s D mu C Hok Hc Hbody Hback Hd.
      rewrite iexec_S. cbn [iexec_body].
      eapply mokP_bind with (Q1 := fun _ => True).
      { apply mokP_events; [|intros; exact I]. eapply phi_events_r; eauto. apply rhead_ok_current; auto. }
      intros _ _ _. estep. pure. destruct x.
      - eapply mokP_bind; [eapply IHb; eauto|].
        intros [o mu2] _ Ho. unfold rosat in Ho. cbn [fst] in Ho. destruct o as [s' D'|rv].
        + eapply IHw; eauto. eapply rback_sound; eauto.
        + apply mokP_ret. exact I.
      - apply mokP_ret. exact Hd. }
    assert (F : forall ph p body Gh Gb s D mu C l i,
     rhead_ok ph Gh = true -> rcheck_block T (rbind p Gh) body = Some Gb ->
     rback T ph Gh Gb = true -> dinv Gh D ->
     mokr (rosat Gh) (ifor_loop (S n) s D mu C ph p l i body)).
    { intros ph p body Gh Gb s D mu C l i Hok Hbody Hback Hd.
      rewrite ifor_loop_S. unfold ifor_loop_body.
      eapply mokP_bind with (Q1 := fun _ => True).
      { apply mokP_events; [|intros; exact I]. eapply phi_events_r; eauto. apply rhead_ok_current; auto. }
      intros _ _ _.
      destruct (store_get mu l) as [vs|]; [|apply mokP_fail].
      destruct (nth_error vs i) as [x|]; [|apply mokP_ret; exact Hd].
      eapply mokP_bind; [eapply rbind_mok; eauto|]. intros [s1 D1] _ Hd1. cbn [snd] in Hd1.
      eapply mokP_bind; [eapply IHb; eauto|].
      intros [o mu1] _ Ho. unfold rosat in Ho. cbn [fst] in Ho. destruct o as [s2 D2|rv].
      - eapply IHf; eauto. eapply rback_sound; eauto.
      - apply mokP_ret. exact I. }
    split; [|split; [|split]]; auto.
    + intros G G' s D mu C st Hc Hd.
      destruct st; match goal with |- context [ASWhile] => idtac | _ => rewrite iexec_S; cbn [iexec_body] end.
      * (* assign *) cbn [rcheck_stmt] in Hc. destruct (rcheck_expr G e) eqn:He; [|discriminate]. inversion Hc; subst.
        estep. eapply mokP_bind; [eapply rbind_mok; eauto|]. intros [s' D'] _ Hd'. apply mokP_ret. exact Hd'.
      * (* indexed assign: a use of the list, then a fresh definition of it *)
        cbn [rcheck_stmt] in Hc. destruct (rcheck_expr G e && is_def G x (an_def au)) eqn:He; [|discriminate].
        inversion Hc; subst. bsp. estep.
        destruct (env_get s x) as [cur|]; [|apply mokP_fail].
        destruct (is_def_use _ _ _ _ H0 Hd) as (adx & Ed & Hr).
        eapply mokP_bind with (Q1 := fun _ => True).
        { apply mokP_events; [|intros; exact I]. rewrite Ed. repeat constructor. exact Hr. }
        intros mu2 _ _. apply mokP_ret. unfold rosat. cbn. apply dinv_set. exact Hd.
      * (* if1 *) rewrite rcheck_if1_eq in Hc. destruct (rcheck_expr G c) eqn:He; [|discriminate].
        destruct (rcheck_block T G body) as [Gb|] eqn:Hb; [|discriminate].
        destruct (phis_bound ph Gb G) eqn:Hp; [|discriminate].
        estep. pure. apply after_phis_r; [eapply phis_bound_current; eauto|]. destruct x.
        -- eapply mokP_weaken; [eapply IHb; eauto|].
           intros [o m] Ho. unfold rosat in *. cbn [fst] in *. destruct o; auto. eapply rmerge_l; eauto.
        -- apply mokP_ret. unfold rosat. cbn. eapply rmerge_r; eauto.
      * (* if *) rewrite rcheck_if_eq in Hc. destruct (rcheck_expr G c) eqn:He; [|discriminate].
        destruct (rcheck_block T G ift) as [G1|] eqn:Hb1; [|discriminate].
        destruct (rcheck_block T G iff) as [G2|] eqn:Hb2; [|discriminate].
        assert (NoPhi : forall Gm, phis_current [] Gm) by (intros Gm x a []).
        destruct (blk_ret ift) eqn:R1; [|destruct (blk_ret iff) eqn:R2].
        -- (* the then-arm always returns *)
           destruct ph; [|discriminate]. inversion Hc; subst.
           estep. pure. apply after_phis_r; [apply NoPhi|]. destruct x.
           ++ eapply mokP_weaken_eq; [eapply IHb; eauto|].
              intros [o m] Eo Ho. unfold rosat in *. cbn [fst] in *. destruct o as [s' D'|rv]; auto.
              exfalso. exact (blk_always_returns _ _ _ _ _ _ _ _ _ _ _ R1 Eo).
           ++ eapply IHb; eauto.
        -- (* the else-arm always returns *)
           destruct ph; [|discriminate]. inversion Hc; subst.
           estep. pure. apply after_phis_r; [apply NoPhi|]. destruct x.
           ++ eapply IHb; eauto.
           ++ eapply mokP_weaken_eq; [eapply IHb; eauto|].
              intros [o m] Eo Ho. unfold rosat in *. cbn [fst] in *. destruct o as [s' D'|rv]; auto.
              exfalso. exact (blk_always_returns _ _ _ _ _ _ _ _ _ _ _ R2 Eo).
        -- destruct (phis_bound ph G1 G2) eqn:Hp; [|discriminate].
           estep. pure. apply after_phis_r; [eapply phis_bound_current; eauto|]. destruct x.
           ++ eapply mokP_weaken; [eapply IHb; eauto|].
              intros [o m] Ho. unfold rosat in *. cbn [fst] in *. destruct o; auto. eapply rmerge_l; eauto.
           ++ eapply mokP_weaken; [eapply IHb; eauto|].
              intros [o m] Ho. unfold rosat in *. cbn [fst] in *. destruct o; auto. eapply rmerge_r; eauto.
      * (* while *) rewrite rcheck_while_eq in Hc.
        destruct (rhead T ph G) as [Gh|] eqn:Hh; [|discriminate].
        destruct (rhead_ok ph Gh && rcheck_expr Gh c) eqn:H1; [|discriminate]. bsp.
        destruct (rcheck_block T Gh body) as [Gb|] eqn:Hb; [|discriminate].
        destruct (rback T ph Gh Gb) eqn:Hbk; [|discriminate]. inversion Hc; subst.
        eapply W; eauto. eapply rhead_sound; eauto.
      * (* for *) rewrite rcheck_for_eq in Hc. destruct (rcheck_expr G it) eqn:He; [|discriminate].
        destruct (rhead T ph G) as [Gh|] eqn:Hh; [|discriminate].
        destruct (rhead_ok ph Gh) eqn:Hok; [|discriminate].
        destruct (rcheck_block T (rbind p Gh) body) as [Gb|] eqn:Hb; [|discriminate].
        destruct (rback T ph Gh Gb) eqn:Hbk; [|discriminate]. inversion Hc; subst.
        estep. pure. eapply IHf; eauto. eapply rhead_sound; eauto.
      * (* with *) rewrite rcheck_context_eq in Hc. destruct (rcheck_expr G e) eqn:He; [|discriminate].
        estep. destruct v; try apply mokP_fail.
        destruct x as [[a x]|].
        -- eapply mokP_bind with (Q1 := fun _ => True); [apply mokP_events; [repeat constructor|intros; exact I]|].
           intros _ _ _. eapply IHb; eauto. apply dinv_set. exact Hd.
        -- eapply IHb; eauto.
      * cbn [rcheck_stmt] in Hc. destruct (rcheck_expr G e) eqn:He; [|discriminate]. inversion Hc; subst.
        estep. pure. destruct x; [apply mokP_ret; exact Hd | apply mokP_fail].
      * cbn [rcheck_stmt] in Hc. destruct (rcheck_expr G e) eqn:He; [|discriminate]. inversion Hc; subst.
        estep. apply mokP_ret. exact Hd.
      * cbn [rcheck_stmt] in Hc. destruct (rcheck_expr G e) eqn:He; [|discriminate]. inversion Hc; subst.
        estep. apply mokP_ret. exact I.
      * cbn [rcheck_stmt] in Hc. inversion Hc; subst. apply mokP_ret. exact Hd.
    + intros G G' s D mu C b Hc Hd. rewrite iexec_block_S.
      destruct b as [|st r]; cbn [iexec_block_body].
      * cbn in Hc. inversion Hc; subst. apply mokP_ret. exact Hd.
      * rewrite rcheck_block_cons in Hc. destruct (rcheck_stmt T G st) as [G1|] eqn:E1; [|discriminate].
        eapply mokP_bind; [eapply IHs; eauto|]. intros [o mu1] _ Ho. unfold rosat in Ho. cbn [fst] in Ho.
        destruct o as [s' D'|rv]; [eapply IHb; eauto | apply mokP_ret; exact I].
Qed.

(* ================================================================ the theorem *)
Lemma ibind_params_r : forall ps vs s D G,
  dinv G D ->
  Forall evr (fst (ibind_params ann ps vs s D)) /\
  (forall s' D', snd (ibind_params ann ps vs s D) = Ok (s', D') ->
     dinv (fold_left (fun G ax => dset G (snd ax) (an_def (fst ax))) ps G) D').
Proof.
  induction ps as [|[a x] ps IH]; intros vs s D G Hd; destruct vs as [|v vs]; cbn [ibind_params fold_left fst snd];
    try (split; [constructor|discriminate]).
  - split; [constructor|]. intros s' D' E. inversion E; subst. exact Hd.
  - specialize (IH vs (env_set s x v) (denv_set ann D x a) (dset G x (an_def a)) (dinv_set _ _ _ _ Hd)).
    destruct (ibind_params ann ps vs (env_set s x v) (denv_set ann D x a)) as [t r]. cbn [fst snd] in *.
    destruct IH as [Ht Hr]. split; [|exact Hr]. constructor; [exact I | exact Ht].
Qed.

Theorem reach_facts_sound_call : forall f, check_reach_func T f = true ->
  forall n vs mu C, Forall evr (fst (icall ann N P n f vs mu C)).
Proof.
  intros f Hc [|n] vs mu C; [constructor|].
  unfold check_reach_func in Hc.
  destruct (rcheck_block T (rparam_env (af_params f)) (af_body f)) as [G'|] eqn:Hb; [|discriminate].
  unfold icall.
  destruct (ibind_params_r (af_params f) vs [] [] []) as [Ht Hr].
  { intros x k E. discriminate. }
  destruct (ibind_params ann (af_params f) vs [] []) as [t r]. cbn [fst snd] in *.
  assert (M1 : mokr (fun _ : value * store => True)
    (mbind (t, lift r) (fun '(s, D) =>
       mbind (iexec_block n s D mu (match af_ctx f with Some c => c | None => C end) (af_body f))
         (fun '(o, mu1) => match o with IOReturn v => mret (v, mu1) | IONormal _ _ => mfail OtherErr end)))).
  { eapply mokP_bind with (Q1 := fun sd => dinv (rparam_env (af_params f)) (snd sd)).
    - apply mokP_events; auto. intros [s D] E. destruct r as [[s' D']|e]; inversion E; subst. cbn. eapply Hr. reflexivity.
    - intros [s D] _ Hs. cbn [snd] in Hs.
      eapply mokP_bind; [eapply (proj1 (proj2 (rstmt_all n))); eauto|].
      intros [o mu1] _ _. destruct o; [apply mokP_fail | apply mokP_ret; exact I]. }
  exact (proj1 M1).
Qed.

End Reach.
