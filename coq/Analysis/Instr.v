(* C13: annotated programs and the INSTRUMENTED evaluator.  Definitions only.

   An annotated program carries one annotation `A` (the facts an analysis
   reports) at every expression node, binding site, phi point and variable use
   of the fragment below; `erase_*` forget them and give back a program of
   Lang/Syntax.v.  The instrumented evaluator `ieval/iexec/icall` is Sem.v's
   evaluator (same fuel discipline, same results -- InstrProofs.v proves
   `snd (ieval ...) = eval ... (erase ...)`) that additionally
     - keeps a shadow environment D : name -> annotation of the binding site
       that bound it last (definition-site labels), and
     - returns the TRACE of events of the execution, also when the execution
       ends in an error or runs out of fuel (so every finite prefix of a
       non-terminating run is covered):
         EvVal a C v    the expression node annotated `a` produced value v; C was the active rounding context
         EvUse a d      the variable read annotated `a` observed the binding made at site `d`
         EvDef a x v    the binding site annotated `a` bound x to v
         EvPhi a x v d  control reached the phi point annotated `a` for x; x holds v, bound at site `d`

   FRAGMENT.  Expressions: variables, literals, context constants, every
   rounded operator (nullary .. ternary), predicates, comparison chains,
   and/or/not, conditional expressions, variadic min/max, context constructor
   calls; any OTHER expression (lists, tuples, comprehensions, calls, ...) is an
   opaque leaf `AOpaque a e uses`: evaluated by Sem.eval as a whole, one EvVal
   for its result, and one EvUse per listed variable occurrence.
   Statements: assignment (any pattern), indexed assignment, if / if-else,
   while, for, with, assert, effect, return, pass.  Function: parameters,
   declared context, body. *)
From Coq Require Import ZArith List Bool String.
From FpyV Require Import Num.RealFloat Num.Float Num.CtxDef Lang.Syntax Lang.Values Lang.Sem.
Import ListNotations.
Open Scope Z_scope.

Section Annotated.
Variable A : Type.

Inductive aexpr :=
  | AVar (a : A) (x : ident)
  | ANum (a : A) (v : fl)
  | ARat (a : A) (n d : Z)
  | ABool (a : A) (b : bool)
  | ACtxVal (a : A) (c : ctx)
  | AOp0 (a : A) (o : op)
  | AOp1 (a : A) (o : op) (e : aexpr)
  | AOp2 (a : A) (o : op) (e1 e2 : aexpr)
  | AOp3 (a : A) (o : op) (e1 e2 e3 : aexpr)
  | APred (a : A) (p : pred) (e : aexpr)
  | ACompare (a : A) (ops : list cmpop) (args : list aexpr)
  | AAnd (a : A) (args : list aexpr)
  | AOr (a : A) (args : list aexpr)
  | ANot (a : A) (e : aexpr)
  | AIf (a : A) (c t f : aexpr)
  | AMin (a : A) (es : list aexpr)
  | AMax (a : A) (es : list aexpr)
  | ACtor (a : A) (k : ctor) (args : list aexpr)
  | AOpaque (a : A) (e : expr) (uses : list (ident * A)).

Inductive apat :=
  | APVar (a : A) (x : ident)
  | APWild
  | APTuple (ps : list apat).

Definition phis := list (ident * A).

Inductive astmt :=
  | ASAssign (p : apat) (e : aexpr)
  | ASIndexAssign (au ad : A) (x : ident) (idx : list expr) (e : aexpr)
  | ASIf1 (ph : phis) (c : aexpr) (body : list astmt)
  | ASIf (ph : phis) (c : aexpr) (ift iff : list astmt)
  | ASWhile (ph : phis) (c : aexpr) (body : list astmt)
  | ASFor (ph : phis) (p : apat) (it : aexpr) (body : list astmt)
  | ASContext (x : option (A * ident)) (e : aexpr) (body : list astmt)
  | ASAssert (e : aexpr)
  | ASEffect (e : aexpr)
  | ASReturn (e : aexpr)
  | ASPass.

Record afunc := AFunc {
  af_params : list (A * ident);
  af_ctx : option ctx;
  af_body : list astmt }.

(* ---------------------------------------------------------------- erasure *)
Fixpoint erase_e (e : aexpr) : expr :=
  match e with
  | AVar _ x => EVar x
  | ANum _ v => ENum v
  | ARat _ n d => ERat n d
  | ABool _ b => EBool b
  | ACtxVal _ c => ECtxVal c
  | AOp0 _ o => EOp0 o
  | AOp1 _ o e => EOp1 o (erase_e e)
  | AOp2 _ o e1 e2 => EOp2 o (erase_e e1) (erase_e e2)
  | AOp3 _ o e1 e2 e3 => EOp3 o (erase_e e1) (erase_e e2) (erase_e e3)
  | APred _ p e => EPred p (erase_e e)
  | ACompare _ ops args => ECompare ops (map erase_e args)
  | AAnd _ args => EAnd (map erase_e args)
  | AOr _ args => EOr (map erase_e args)
  | ANot _ e => ENot (erase_e e)
  | AIf _ c t f => EIf (erase_e c) (erase_e t) (erase_e f)
  | AMin _ es => EMin (map erase_e es)
  | AMax _ es => EMax (map erase_e es)
  | ACtor _ k args => ECtor k (map erase_e args)
  | AOpaque _ e _ => e
  end.

Fixpoint erase_p (p : apat) : pat :=
  match p with
  | APVar _ x => PVar x
  | APWild => PWild
  | APTuple ps => PTuple (map erase_p ps)
  end.

Fixpoint erase_s (st : astmt) : stmt :=
  match st with
  | ASAssign p e => SAssign (erase_p p) (erase_e e)
  | ASIndexAssign _ _ x idx e => SIndexAssign x idx (erase_e e)
  | ASIf1 _ c body => SIf1 (erase_e c) (map erase_s body)
  | ASIf _ c t f => SIf (erase_e c) (map erase_s t) (map erase_s f)
  | ASWhile _ c body => SWhile (erase_e c) (map erase_s body)
  | ASFor _ p it body => SFor (erase_p p) (erase_e it) (map erase_s body)
  | ASContext x e body => SContext (option_map snd x) (erase_e e) (map erase_s body)
  | ASAssert e => SAssert (erase_e e)
  | ASEffect e => SEffect (erase_e e)
  | ASReturn e => SReturn (erase_e e)
  | ASPass => SPass
  end.

Definition erase_b (b : list astmt) : block := map erase_s b.

Definition erase_f (f : afunc) : func :=
  Func (map snd (af_params f)) (af_ctx f) (erase_b (af_body f)).

(* every path through the block ends in a `return` (reaching_defs._always_returns) *)
Fixpoint stmt_ret (st : astmt) : bool :=
  let blk := fix blk (b : list astmt) : bool :=
    match b with [] => false | [s] => stmt_ret s | _ :: r => blk r end in
  match st with
  | ASReturn _ => true
  | ASIf _ _ t f => blk t && blk f
  | ASContext _ _ body => blk body
  | _ => false
  end.

Fixpoint blk_ret (b : list astmt) : bool :=
  match b with [] => false | [s] => stmt_ret s | _ :: r => blk_ret r end.

(* ---------------------------------------------------------------- events, the trace monad *)
Inductive event :=
  | EvVal (a : A) (C : ctx) (v : value)
  | EvUse (a : A) (d : option A)
  | EvDef (a : A) (x : ident) (v : value)
  | EvPhi (a : A) (x : ident) (v : value) (d : option A).

Definition trace := list event.
Definition M (X : Type) : Type := (trace * res X)%type.

Definition mret {X} (x : X) : M X := ([], ROk x).
Definition mfail {X} (e : err) : M X := ([], RErr e).
Definition liftr {X} (r : res X) : M X := ([], r).
Definition mbind {X Y} (m : M X) (f : X -> M Y) : M Y :=
  match m with
  | (t1, ROk x) => let '(t2, r) := f x in (t1 ++ t2, r)
  | (t1, RErr e) => (t1, RErr e)
  | (t1, RFuel) => (t1, RFuel)
  end.

Notation "'let+' p ':=' c1 'in' c2" := (mbind c1 (fun p => c2))
  (at level 61, p pattern, c1 at next level, right associativity).

(* the shadow environment of definition-site labels *)
Definition denv := list (ident * A).

Fixpoint denv_get (D : denv) (x : ident) : option A :=
  match D with
  | [] => None
  | (y, a) :: D' => if String.eqb x y then Some a else denv_get D' x
  end.

Fixpoint denv_set (D : denv) (x : ident) (a : A) : denv :=
  match D with
  | [] => [(x, a)]
  | (y, b) :: D' => if String.eqb x y then (y, a) :: D' else (y, b) :: denv_set D' x a
  end.

Definition done (a : A) (C : ctx) (r : value * store) : M (value * store) := ([EvVal a C (fst r)], ROk r).

Definition use_events (D : denv) (uses : list (ident * A)) : trace :=
  map (fun xa => EvUse (snd xa) (denv_get D (fst xa))) uses.

Definition phi_events (s : env) (D : denv) (ph : phis) : trace :=
  flat_map (fun xa => match env_get s (fst xa) with
                      | Some v => [EvPhi (snd xa) (fst xa) v (denv_get D (fst xa))]
                      | None => []
                      end) ph.

Inductive ioutcome := IONormal (s : env) (D : denv) | IOReturn (v : value).

Definition erase_o (o : ioutcome) : outcome :=
  match o with IONormal s _ => ONormal s | IOReturn v => OReturn v end.

(* M-Var / M-Tuple with labels and events; the environment part is Sem.bind_pat *)
Fixpoint ibind_pat (p : apat) (v : value) (s : env) (D : denv) : trace * result (env * denv) :=
  match p with
  | APVar a x => ([EvDef a x v], Ok (env_set s x v, denv_set D x a))
  | APWild => ([], Ok (s, D))
  | APTuple ps =>
      match v with
      | VTuple vs =>
          if negb (Nat.eqb (List.length ps) (List.length vs)) then ([], Err ValueErr)
          else
            (fix go (ps : list apat) (vs : list value) (s : env) (D : denv) : trace * result (env * denv) :=
               match ps, vs with
               | p :: ps', v :: vs' =>
                   match ibind_pat p v s D with
                   | (t1, Ok (s', D')) => let '(t2, r) := go ps' vs' s' D' in (t1 ++ t2, r)
                   | (t1, Err e) => (t1, Err e)
                   end
               | _, _ => ([], Ok (s, D))
               end) ps vs s D
      | _ => ([], Err TypeErr)
      end
  end.

Definition mbind_pat (p : apat) (v : value) (s : env) (D : denv) : M (env * denv) :=
  let '(t, r) := ibind_pat p v s D in (t, lift r).

Fixpoint ibind_params (xs : list (A * ident)) (vs : list value) (s : env) (D : denv)
  : trace * result (env * denv) :=
  match xs, vs with
  | [], [] => ([], Ok (s, D))
  | (a, x) :: xs', v :: vs' =>
      let '(t, r) := ibind_params xs' vs' (env_set s x v) (denv_set D x a) in
      (EvDef a x v :: t, r)
  | _, _ => ([], Err TypeErr)
  end.

Section WithSem.
Variable N : numops.
Variable P : program.

(* One unfolding of every judgement with the recursive calls abstracted (as in
   Sem.v); the evaluator proper ties the knot on the fuel. *)
Section Bodies.
Variable ev : env -> denv -> store -> ctx -> aexpr -> M (value * store).
Variable evs : env -> denv -> store -> ctx -> list aexpr -> M (list value * store).
Variable cmpc : env -> denv -> store -> ctx -> value -> list cmpop -> list aexpr -> M (value * store).
Variable boolc : env -> denv -> store -> ctx -> bool -> list aexpr -> M (value * store).
Variable opq : env -> store -> ctx -> expr -> res (value * store).   (* Sem.eval at the SAME fuel *)
Variable veq : store -> value -> value -> res bool.

Definition ieval_body (s : env) (D : denv) (mu : store) (C : ctx) (e : aexpr) : M (value * store) :=
    match e with
    | AVar a x =>
        match env_get s x with
        | Some v => ([EvUse a (denv_get D x); EvVal a C v], ROk (v, mu))
        | None => mfail NameErr
        end
    | ANum a v => done a C (VNum (NF v), mu)
    | ARat a p q => if q =? 0 then mfail ValueErr else done a C (VNum (num_of_frac p q), mu)
    | ABool a b => done a C (VBool b, mu)
    | ACtxVal a c => done a C (VCtx c, mu)
    | AOp0 a o => let+ r := liftr (lift (n_nullop N o C)) in done a C (VNum r, mu)
    | AOp1 a o e1 =>
        let+ (va, mu1) := ev s D mu C e1 in
        let+ x := liftr (as_num va) in
        let+ r := liftr (lift (n_unop N o C x)) in done a C (VNum r, mu1)
    | AOp2 a o e1 e2 =>
        let+ (va, mu1) := ev s D mu C e1 in
        let+ (vb, mu2) := ev s D mu1 C e2 in
        let+ x := liftr (as_num va) in
        let+ y := liftr (as_num vb) in
        let+ r := liftr (lift (n_binop N o C x y)) in done a C (VNum r, mu2)
    | AOp3 a o e1 e2 e3 =>
        let+ (va, mu1) := ev s D mu C e1 in
        let+ (vb, mu2) := ev s D mu1 C e2 in
        let+ (vc, mu3) := ev s D mu2 C e3 in
        let+ x := liftr (as_num va) in
        let+ y := liftr (as_num vb) in
        let+ z := liftr (as_num vc) in
        let+ r := liftr (lift (n_ternop N o C x y z)) in done a C (VNum r, mu3)
    | APred a p e1 =>
        let+ (va, mu1) := ev s D mu C e1 in
        let+ x := liftr (as_num va) in done a C (VBool (n_pred N p x), mu1)
    | ACompare a ops args =>
        match args with
        | [] => mfail OtherErr
        | e1 :: rest =>
            let+ (va, mu1) := ev s D mu C e1 in
            let+ r := cmpc s D mu1 C va ops rest in done a C r
        end
    | AAnd a args => let+ r := boolc s D mu C true args in done a C r
    | AOr a args => let+ r := boolc s D mu C false args in done a C r
    | ANot a e1 =>
        let+ (va, mu1) := ev s D mu C e1 in
        let+ b := liftr (as_bool va) in done a C (VBool (negb b), mu1)
    | AIf a c t f =>
        let+ (vc, mu1) := ev s D mu C c in
        let+ b := liftr (as_bool vc) in
        let+ r := (if b then ev s D mu1 C t else ev s D mu1 C f) in done a C r
    | AMin a es =>
        let+ (vs, mu1) := evs s D mu C es in
        let+ xs := liftr (as_nums vs) in
        let+ r := liftr (minmax N false xs) in done a C (VNum r, mu1)
    | AMax a es =>
        let+ (vs, mu1) := evs s D mu C es in
        let+ xs := liftr (as_nums vs) in
        let+ r := liftr (minmax N true xs) in done a C (VNum r, mu1)
    | ACtor a k args =>
        let+ (vs, mu1) := evs s D mu C args in
        let+ xs := liftr (as_nums vs) in
        let+ c := liftr (lift (n_ctor N k xs)) in done a C (VCtx c, mu1)
    | AOpaque a e0 uses =>
        let+ r := (use_events D uses, opq s mu C e0) in done a C r
    end.

Definition ievals_body (s : env) (D : denv) (mu : store) (C : ctx) (es : list aexpr) : M (list value * store) :=
    match es with
    | [] => mret ([], mu)
    | e :: r =>
        let+ (v, mu1) := ev s D mu C e in
        let+ (vs, mu2) := evs s D mu1 C r in
        mret (v :: vs, mu2)
    end.

Definition icmp_chain_body (s : env) (D : denv) (mu : store) (C : ctx) (v : value)
    (ops : list cmpop) (args : list aexpr) : M (value * store) :=
    match ops, args with
    | [], [] => mret (VBool true, mu)
    | o :: ops', e :: args' =>
        if is_ordering o then
          let+ x := liftr (as_num v) in
          let+ (w, mu1) := ev s D mu C e in
          let+ y := liftr (as_num w) in
          if cmp_test N o x y then
            match ops' with
            | [] => mret (VBool true, mu1)
            | _ => cmpc s D mu1 C w ops' args'
            end
          else mret (VBool false, mu1)
        else
          let+ (w, mu1) := ev s D mu C e in
          let+ eq := liftr (veq mu1 v w) in
          if (match o with CNe => negb eq | _ => eq end) then
            match ops' with
            | [] => mret (VBool true, mu1)
            | _ => cmpc s D mu1 C w ops' args'
            end
          else mret (VBool false, mu1)
    | _, _ => mfail OtherErr
    end.

Definition ibool_chain_body (s : env) (D : denv) (mu : store) (C : ctx) (unit : bool)
    (args : list aexpr) : M (value * store) :=
    match args with
    | [] => mret (VBool unit, mu)
    | e :: r =>
        let+ (v, mu1) := ev s D mu C e in
        let+ b := liftr (as_bool v) in
        if Bool.eqb b unit then
          match r with
          | [] => mret (VBool b, mu1)
          | _ => boolc s D mu1 C unit r
          end
        else mret (VBool b, mu1)
    end.
End Bodies.

Fixpoint ieval (n : nat) (s : env) (D : denv) (mu : store) (C : ctx) (e : aexpr) {struct n}
  : M (value * store) :=
  match n with
  | O => liftr RFuel
  | S n' => ieval_body (ieval n') (ievals n') (icmp_chain n') (ibool_chain n') (eval N P n) s D mu C e
  end
with ievals (n : nat) (s : env) (D : denv) (mu : store) (C : ctx) (es : list aexpr) {struct n}
  : M (list value * store) :=
  match n with
  | O => liftr RFuel
  | S n' => ievals_body (ieval n') (ievals n') s D mu C es
  end
with icmp_chain (n : nat) (s : env) (D : denv) (mu : store) (C : ctx) (v : value)
    (ops : list cmpop) (args : list aexpr) {struct n} : M (value * store) :=
  match n with
  | O => liftr RFuel
  | S n' => icmp_chain_body (ieval n') (icmp_chain n') (value_eq N n') s D mu C v ops args
  end
with ibool_chain (n : nat) (s : env) (D : denv) (mu : store) (C : ctx) (unit : bool)
    (args : list aexpr) {struct n} : M (value * store) :=
  match n with
  | O => liftr RFuel
  | S n' => ibool_chain_body (ieval n') (ibool_chain n') s D mu C unit args
  end.

Definition after_phis (ph : phis) (r : ioutcome * store) : M (ioutcome * store) :=
  match fst r with
  | IONormal s D => (phi_events s D ph, ROk r)
  | IOReturn _ => mret r
  end.

Section StmtBodies.
Variable ev : env -> denv -> store -> ctx -> aexpr -> M (value * store).
Variable ex : env -> denv -> store -> ctx -> astmt -> M (ioutcome * store).
Variable exb : env -> denv -> store -> ctx -> list astmt -> M (ioutcome * store).
Variable forl : env -> denv -> store -> ctx -> phis -> apat -> loc -> nat -> list astmt -> M (ioutcome * store).
Variable idxw : env -> store -> ctx -> value -> list expr -> value -> res store.   (* Sem.index_walk *)

Definition iexec_body (s : env) (D : denv) (mu : store) (C : ctx) (st : astmt) : M (ioutcome * store) :=
    match st with
    | ASAssign p e =>
        let+ (v, mu1) := ev s D mu C e in
        let+ (s', D') := mbind_pat p v s D in
        mret (IONormal s' D', mu1)
    | ASIndexAssign au ad x idx e =>
        let+ (v, mu1) := ev s D mu C e in
        match env_get s x with
        | None => mfail NameErr
        | Some cur =>
            let+ mu2 := ([EvUse au (denv_get D x)], idxw s mu1 C cur idx v) in
            mret (IONormal s (denv_set D x ad), mu2)
        end
    | ASIf1 ph c body =>
        let+ (vc, mu1) := ev s D mu C c in
        let+ t := liftr (as_bool vc) in
        let+ r := (if t then exb s D mu1 C body else mret (IONormal s D, mu1)) in
        after_phis ph r
    | ASIf ph c ift iff =>
        let+ (vc, mu1) := ev s D mu C c in
        let+ t := liftr (as_bool vc) in
        let+ r := (if t then exb s D mu1 C ift else exb s D mu1 C iff) in
        after_phis ph r
    | ASWhile ph c body =>
        let+ _ := (phi_events s D ph, ROk tt) in
        let+ (vc, mu1) := ev s D mu C c in
        let+ t := liftr (as_bool vc) in
        if t then
          let+ (o, mu2) := exb s D mu1 C body in
          match o with
          | IOReturn v => mret (IOReturn v, mu2)
          | IONormal s' D' => ex s' D' mu2 C (ASWhile ph c body)
          end
        else mret (IONormal s D, mu1)
    | ASFor ph p it body =>
        let+ (vi, mu1) := ev s D mu C it in
        let+ (l, _) := liftr (as_list mu1 vi) in
        forl s D mu1 C ph p l O body
    | ASContext x e body =>
        let+ (vc, mu1) := ev s D mu CReal e in
        match vc with
        | VCtx C' =>
            match x with
            | Some (a, x) =>
                let+ _ := ([EvDef a x (VCtx C')], ROk tt) in
                exb (env_set s x (VCtx C')) (denv_set D x a) mu1 C' body
            | None => exb s D mu1 C' body
            end
        | _ => mfail TypeErr
        end
    | ASAssert e =>
        let+ (v, mu1) := ev s D mu C e in
        let+ t := liftr (as_bool v) in
        if t then mret (IONormal s D, mu1) else mfail AssertErr
    | ASEffect e =>
        let+ (_, mu1) := ev s D mu C e in mret (IONormal s D, mu1)
    | ASReturn e =>
        let+ (v, mu1) := ev s D mu C e in mret (IOReturn v, mu1)
    | ASPass => mret (IONormal s D, mu)
    end.

Definition iexec_block_body (s : env) (D : denv) (mu : store) (C : ctx) (b : list astmt) : M (ioutcome * store) :=
    match b with
    | [] => mret (IONormal s D, mu)
    | st :: r =>
        let+ (o, mu1) := ex s D mu C st in
        match o with
        | IOReturn v => mret (IOReturn v, mu1)
        | IONormal s' D' => exb s' D' mu1 C r
        end
    end.

Definition ifor_loop_body (s : env) (D : denv) (mu : store) (C : ctx) (ph : phis) (p : apat)
    (l : loc) (i : nat) (body : list astmt) : M (ioutcome * store) :=
    let+ _ := (phi_events s D ph, ROk tt) in
    match store_get mu l with
    | None => mfail OtherErr
    | Some vs =>
        match nth_error vs i with
        | None => mret (IONormal s D, mu)
        | Some x =>
            let+ (s1, D1) := mbind_pat p x s D in
            let+ (o, mu1) := exb s1 D1 mu C body in
            match o with
            | IOReturn v => mret (IOReturn v, mu1)
            | IONormal s2 D2 => forl s2 D2 mu1 C ph p l (S i) body
            end
        end
    end.
End StmtBodies.

Fixpoint iexec (n : nat) (s : env) (D : denv) (mu : store) (C : ctx) (st : astmt) {struct n}
  : M (ioutcome * store) :=
  match n with
  | O => liftr RFuel
  | S n' => iexec_body (ieval n') (iexec n') (iexec_block n') (ifor_loop n') (index_walk N P n') s D mu C st
  end
with iexec_block (n : nat) (s : env) (D : denv) (mu : store) (C : ctx) (b : list astmt) {struct n}
  : M (ioutcome * store) :=
  match n with
  | O => liftr RFuel
  | S n' => iexec_block_body (iexec n') (iexec_block n') s D mu C b
  end
with ifor_loop (n : nat) (s : env) (D : denv) (mu : store) (C : ctx) (ph : phis) (p : apat)
    (l : loc) (i : nat) (body : list astmt) {struct n} : M (ioutcome * store) :=
  match n with
  | O => liftr RFuel
  | S n' => ifor_loop_body (iexec_block n') (ifor_loop n') s D mu C ph p l i body
  end.

(* Sem.call with labels: parameters are binding sites *)
Definition icall (n : nat) (fn : afunc) (vs : list value) (mu : store) (C : ctx) : M (value * store) :=
  match n with
  | O => liftr RFuel
  | S n' =>
    let '(t, r) := ibind_params (af_params fn) vs [] [] in
    let+ (s, D) := (t, lift r) in
    let C' := match af_ctx fn with Some c => c | None => C end in
    let+ (o, mu1) := iexec_block n' s D mu C' (af_body fn) in
    match o with
    | IOReturn v => mret (v, mu1)
    | IONormal _ _ => mfail OtherErr
    end
  end.

End WithSem.
End Annotated.

Arguments AVar {A}. Arguments ANum {A}. Arguments ARat {A}. Arguments ABool {A}. Arguments ACtxVal {A}.
Arguments AOp0 {A}. Arguments AOp1 {A}. Arguments AOp2 {A}. Arguments AOp3 {A}. Arguments APred {A}.
Arguments ACompare {A}. Arguments AAnd {A}. Arguments AOr {A}. Arguments ANot {A}. Arguments AIf {A}.
Arguments AMin {A}. Arguments AMax {A}. Arguments ACtor {A}. Arguments AOpaque {A}.
Arguments APVar {A}. Arguments APWild {A}. Arguments APTuple {A}.
Arguments ASAssign {A}. Arguments ASIndexAssign {A}. Arguments ASIf1 {A}. Arguments ASIf {A}.
Arguments ASWhile {A}. Arguments ASFor {A}. Arguments ASContext {A}. Arguments ASAssert {A}.
Arguments ASEffect {A}. Arguments ASReturn {A}. Arguments ASPass {A}.
Arguments AFunc {A}. Arguments af_params {A}. Arguments af_ctx {A}. Arguments af_body {A}.
Arguments EvVal {A}. Arguments EvUse {A}. Arguments EvDef {A}. Arguments EvPhi {A}.
Arguments IONormal {A}. Arguments IOReturn {A}.
Arguments stmt_ret {A}. Arguments blk_ret {A}.
Arguments mret {A X}. Arguments mfail {A X}. Arguments liftr {A X}. Arguments mbind {A X Y}.
Arguments done {A}.
