(* Model of fpy2/analysis/format_infer/format.py : AbstractFormat, as coded.
   Definitions only (this file must keep evaluating when a proof breaks).

   Python types:  prec : int | float('inf');  exp : int | float('-inf');
   pos_bound / neg_bound : RealFloat | float (inf, -inf; nan can only arise from
   inf - inf on formats violating the class convention pos_bound >= 0 >= neg_bound).
   Mixed RealFloat/float arithmetic is the one of fpy2/number/number/reals.py
   (the `case float()` arms of __add__/__mul__/compare), transcribed below. *)
From Coq Require Import ZArith List Bool.
From FpyV Require Import Num.RealFloat Num.Float.
Import ListNotations.
Open Scope Z_scope.

(* ---------------------------------------------------------------- int | float('±inf') *)
Inductive ext := EFin (z : Z) | EPInf | EMInf.

Definition ext_is_float (a : ext) : bool := match a with EFin _ => false | _ => true end.

(* a < b, a > b on int|float (no nan) *)
Definition ext_lt (a b : ext) : bool :=
  match a, b with
  | EFin x, EFin y => x <? y
  | EMInf, EMInf => false
  | EMInf, _ => true
  | _, EMInf => false
  | EPInf, _ => false
  | EFin _, EPInf => true
  end.
Definition ext_gt (a b : ext) : bool := ext_lt b a.
Definition ext_eqb (a b : ext) : bool :=
  match a, b with EFin x, EFin y => x =? y | EPInf, EPInf => true | EMInf, EMInf => true | _, _ => false end.

(* Python min(a, b) = b if b < a else a ; max(a, b) = b if b > a else a *)
Definition ext_min (a b : ext) : ext := if ext_lt b a then b else a.
Definition ext_max (a b : ext) : ext := if ext_gt b a then b else a.

(* a + b ; inf + (-inf) is nan in Python: unreachable for prec (never -inf) and
   exp (never +inf); modelled as EPInf *)
Definition ext_add (a b : ext) : ext :=
  match a, b with
  | EFin x, EFin y => EFin (x + y)
  | EFin _, i => i
  | i, EFin _ => i
  | EPInf, _ => EPInf
  | EMInf, EMInf => EMInf
  | EMInf, EPInf => EPInf
  end.

(* ---------------------------------------------------------------- RealFloat | float *)
Inductive bnd := BFin (x : rf) | BInf (s : bool) (* s = true: float('-inf') *) | BNaN.

Definition bnd_is_float (b : bnd) : bool := match b with BFin _ => false | _ => true end.

(* -b *)
Definition bneg (b : bnd) : bnd :=
  match b with BFin x => BFin (rf_neg x) | BInf s => BInf (negb s) | BNaN => BNaN end.
(* abs(b) *)
Definition babs (b : bnd) : bnd :=
  match b with BFin x => BFin (rf_abs x) | BInf _ => BInf false | BNaN => BNaN end.

(* a + b : RealFloat.__add__/__radd__ `case float()` returns the float operand *)
Definition badd (a b : bnd) : bnd :=
  match a, b with
  | BFin x, BFin y => BFin (rf_add x y)
  | BFin _, f => f
  | f, BFin _ => f
  | BInf s, BInf t => if eqb s t then BInf s else BNaN
  | _, _ => BNaN
  end.

(* a - b : RealFloat.__sub__ = self + (-other); __rsub__ = (-self) + other *)
Definition bsub (a b : bnd) : bnd :=
  match a, b with
  | BFin x, BFin y => BFin (rf_sub x y)
  | BFin _, f => bneg f
  | f, BFin _ => f
  | BInf s, BInf t => if eqb s t then BNaN else BInf s
  | _, _ => BNaN
  end.

(* a * b : RealFloat.__mul__ `case float()` for an infinity computes
     s = self.s != (other < 0);  return other * (-1.0 if s else 1.0)
   so the sign of the result is  (other<0) xor s = self.s  -- the sign of the
   infinity cancels out.  Transcribed as coded. *)
Definition bmul (a b : bnd) : bnd :=
  match a, b with
  | BFin x, BFin y => BFin (rf_mul x y)
  | BFin x, BInf t => BInf (xorb t (xorb (rs x) t))
  | BInf s, BFin y => BInf (xorb s (xorb (rs y) s))
  | BInf s, BInf t => BInf (xorb s t)
  | _, _ => BNaN
  end.

(* a < b, a > b through RealFloat.compare / float comparison (nan: False) *)
Definition bnd_lt (a b : bnd) : bool :=
  match a, b with
  | BFin x, BFin y => match rf_compare x y with Lt => true | _ => false end
  | BFin _, BInf t => negb t
  | BInf s, BFin _ => s
  | BInf s, BInf t => s && negb t
  | _, _ => false
  end.
Definition bnd_gt (a b : bnd) : bool :=
  match a, b with
  | BFin x, BFin y => match rf_compare x y with Gt => true | _ => false end
  | BFin _, BInf t => t
  | BInf s, BFin _ => negb s
  | BInf s, BInf t => negb s && t
  | _, _ => false
  end.
Definition bmax (a b : bnd) : bnd := if bnd_gt b a then b else a.
Definition bmin (a b : bnd) : bnd := if bnd_lt b a then b else a.

(* ---------------------------------------------------------------- AbstractFormat *)
Record absfmt := AF {
  a_prec : ext; a_exp : ext; a_pos : bnd; a_neg : bnd;
  a_pinf : bool; a_ninf : bool; a_nan : bool; a_nz : bool }.

Definition rf_zero : rf := RF false 0 0.      (* RealFloat.from_int(0) *)

(* __neg__ *)
Definition af_neg (A : absfmt) : absfmt :=
  AF (a_prec A) (a_exp A) (bneg (a_neg A)) (bneg (a_pos A))
     (a_ninf A) (a_pinf A) (a_nan A) (a_nz A).

(* __abs__ *)
Definition af_abs (A : absfmt) : absfmt :=
  AF (a_prec A) (a_exp A) (a_pos A) (BFin rf_zero)
     (a_pinf A || a_ninf A) false (a_nan A) false.

(* max_bound.normalize(n=exp - 1).p *)
Definition norm_prec (b : rf) (e : Z) : result Z :=
  bind (normalize b None (Some (e - 1))) (fun y => Ok (rf_p y)).

(* the `prec` computation shared by __add__ and __sub__ *)
Definition sum_prec (exp : ext) (pos neg : bnd) : result ext :=
  match pos, neg with
  | BFin p, BFin n =>
      match exp with
      | EFin e =>
          let mb := bmax (BFin p) (babs (BFin n)) in
          match mb with
          | BFin m => bind (norm_prec m e) (fun q => Ok (EFin (Z.max q 1)))
          | _ => Ok EPInf
          end
      | _ => Ok EPInf
      end
  | _, _ => Ok EPInf
  end.

(* __add__ *)
Definition af_add (A B : absfmt) : result absfmt :=
  let exp := ext_min (a_exp A) (a_exp B) in
  let pos := badd (a_pos A) (a_pos B) in
  let neg := badd (a_neg A) (a_neg B) in
  bind (sum_prec exp pos neg) (fun prec =>
  Ok (AF prec exp pos neg
        (a_pinf A || a_pinf B) (a_ninf A || a_ninf B)
        (a_nan A || a_nan B || (a_pinf A && a_ninf B) || (a_ninf A && a_pinf B))
        (a_nz A && a_nz B))).

(* `if isinstance(b, float) and math.isnan(b): b = d` *)
Definition nan_to (d b : bnd) : bnd := match b with BNaN => d | _ => b end.

(* __sub__ *)
Definition af_sub (A B : absfmt) : result absfmt :=
  let exp := ext_min (a_exp A) (a_exp B) in
  let pos := nan_to (BInf false) (bsub (a_pos A) (a_neg B)) in
  let neg := nan_to (BInf true) (bsub (a_neg A) (a_pos B)) in
  bind (sum_prec exp pos neg) (fun prec =>
  Ok (AF prec exp pos neg
        (a_pinf A || a_ninf B) (a_ninf A || a_pinf B)
        (a_nan A || a_nan B || (a_pinf A && a_pinf B) || (a_ninf A && a_ninf B))
        (a_nz A))).

(* the `bound` property: max(pos_bound, abs(neg_bound)) *)
Definition af_bound (A : absfmt) : bnd := bmax (a_pos A) (babs (a_neg A)).

(* _maxval_precision(bound, exp) *)
Definition maxval_precision (b : rf) (e : Z) : result Z :=
  bind (normalize b None (Some (e - 1))) (fun y => Ok (bitlen (rc y))).

(* effective_prec *)
Definition effective_prec (A : absfmt) : result ext :=
  match a_prec A, af_bound A with
  | EFin p, BFin b =>
      match a_exp A with
      | EFin e =>
          let cutoff := RF false e (Z.shiftl 1 p) in
          if bnd_lt (BFin b) (BFin cutoff) then bind (maxval_precision b e) (fun q => Ok (EFin q))
          else Ok (EFin p)
      | _ => Ok (EFin p)
      end
  | EFin p, _ => Ok (EFin p)
  | (EPInf | EMInf), BFin b =>
      match a_exp A with
      | EFin e => bind (maxval_precision b e) (fun q => Ok (EFin q))
      | _ => Err AssertErr
      end
  | EPInf, _ => Ok EPInf
  | EMInf, _ => Ok EMInf
  end.

(* __mul__ *)
Definition af_mul (A B : absfmt) : result absfmt :=
  bind (effective_prec A) (fun p1 =>
  bind (effective_prec B) (fun p2 =>
  let prec :=
    if ext_eqb p1 (EFin 1) || ext_eqb p2 (EFin 1) then ext_max p1 p2
    else ext_max (ext_add p1 p2) (EFin 1) in
  let exp := ext_add (a_exp A) (a_exp B) in
  let pos := bmax (bmul (a_pos A) (a_pos B)) (bmul (a_neg A) (a_neg B)) in
  let neg := bmin (bmul (a_pos A) (a_neg B)) (bmul (a_neg A) (a_pos B)) in
  let self_inf := a_pinf A || a_ninf A in
  let other_inf := a_pinf B || a_ninf B in
  let inf_out := self_inf || other_inf in
  Ok (AF prec exp pos neg inf_out inf_out (a_nan A || a_nan B || inf_out) (a_nz A || a_nz B)))).

(* __or__ *)
Definition af_or (A B : absfmt) : absfmt :=
  AF (ext_max (a_prec A) (a_prec B)) (ext_min (a_exp A) (a_exp B))
     (bmax (a_pos A) (a_pos B)) (bmin (a_neg A) (a_neg B))
     (a_pinf A || a_pinf B) (a_ninf A || a_ninf B) (a_nan A || a_nan B) (a_nz A || a_nz B).

(* __and__ *)
Definition af_and (A B : absfmt) : absfmt :=
  AF (ext_min (a_prec A) (a_prec B)) (ext_max (a_exp A) (a_exp B))
     (bmin (a_pos A) (a_pos B)) (bmax (a_neg A) (a_neg B))
     (a_pinf A && a_pinf B) (a_ninf A && a_ninf B) (a_nan A && a_nan B) (a_nz A && a_nz B).

(* specials_contained_in *)
Definition specials_le (A B : absfmt) : bool :=
  negb ((a_pinf A && negb (a_pinf B)) || (a_ninf A && negb (a_ninf B))
        || (a_nan A && negb (a_nan B)) || (a_nz A && negb (a_nz B))).

(* _is_contained_in / __le__ *)
Definition af_le (A B : absfmt) : bool :=
  if negb (specials_le A B) then false
  else if ext_gt (a_exp B) (a_exp A) then false
  else if bnd_lt (a_pos B) (a_pos A) then false
  else if bnd_gt (a_neg B) (a_neg A) then false
  else
    match a_prec B, a_exp B with
    | EFin q, EFin _ =>
        if ext_gt (a_prec A) (EFin q) then
          match a_exp A with
          | EFin e =>
              let cutoff := BFin (RF false e (Z.shiftl 1 q)) in
              if bnd_is_float (a_pos A) || bnd_gt (a_pos A) cutoff then false
              else if bnd_is_float (a_neg A) || bnd_gt (babs (a_neg A)) cutoff then false
              else true
          | _ => false
          end
        else true
    | _, _ => true
    end.

(* from_format for the "simple float format" MPBFloatFormat(pmax, emin, pos_maxval,
   neg_maxval, enable_nan, enable_inf): expmin = emin - pmax + 1; the four special
   flags are what representable_in answers (a float format has a -0). *)
Definition from_mpb_float (pmax emin : Z) (posmax negmax : rf) (enable_nan enable_inf : bool) : absfmt :=
  AF (EFin pmax) (EFin (emin - pmax + 1)) (BFin posmax) (BFin negmax) enable_inf enable_inf enable_nan true.

(* round_is_identity(unrounded : AbstractFormat, ctx) for such a context *)
Definition round_is_identity (A : absfmt) (pmax emin : Z) (posmax negmax : rf) (enable_nan enable_inf : bool) : bool :=
  af_le A (from_mpb_float pmax emin posmax negmax enable_nan enable_inf).

(* ---------------------------------------------------------------- executable membership *)
(* class convention of the Python class: prec >= 1 (constructor), exp never +inf,
   pos_bound >= 0 or +inf, neg_bound <= 0 or -inf *)
Definition bnd_nonneg (b : bnd) : bool :=
  match b with BFin x => (0 <=? rc x) && ((rc x =? 0) || negb (rs x)) | BInf s => negb s | BNaN => false end.
Definition bnd_nonpos (b : bnd) : bool :=
  match b with BFin x => (0 <=? rc x) && ((rc x =? 0) || rs x) | BInf s => s | BNaN => false end.
Definition af_wfb (A : absfmt) : bool :=
  match a_prec A with EFin p => 1 <=? p | EPInf => true | EMInf => false end &&
  match a_exp A with EPInf => false | _ => true end &&
  bnd_nonneg (a_pos A) && bnd_nonpos (a_neg A).

(* strip trailing zeros of a positive significand *)
Fixpoint pos_odd (c : positive) (e : Z) : positive * Z :=
  match c with xO c' => pos_odd c' (e + 1) | _ => (c, e) end.

(* is the finite non-zero x a member of the finite part of A? *)
Definition mem_fin (A : absfmt) (x : rf) : bool :=
  match rc x with
  | Zpos c =>
      let '(c', e') := pos_odd c (rexp x) in
      match a_prec A with EFin p => bitlen (Zpos c') <=? p | EPInf => true | EMInf => false end &&
      match a_exp A with EFin e => e <=? e' | EMInf => true | EPInf => false end &&
      negb (bnd_gt (BFin x) (a_pos A)) && negb (bnd_lt (BFin x) (a_neg A))
  | _ => false
  end.

Definition mem (A : absfmt) (v : fl) : bool :=
  match v with
  | FNaN _ => a_nan A
  | FInf s => if s then a_ninf A else a_pinf A
  | FFin x => if rc x =? 0 then negb (rs x) || a_nz A else mem_fin A x
  end.

(* ---------------------------------------------------------------- repaired variants
   (fixes/C14-*.diff).  The correspondence accepts, per operation, either the code as
   it stands (definitions above, whose unsound arms are refuted in AbsFormatProofs.v)
   or the repaired code below, so the check passes before and after a fix. *)

(* __neg__ with has_neg_zero=True *)
Definition af_neg_fx (A : absfmt) : absfmt :=
  AF (a_prec A) (a_exp A) (bneg (a_neg A)) (bneg (a_pos A))
     (a_ninf A) (a_pinf A) (a_nan A) true.

(* __abs__ with pos_bound = max(self.pos_bound, -self.neg_bound) *)
Definition af_abs_fx (A : absfmt) : absfmt :=
  AF (a_prec A) (a_exp A) (bmax (a_pos A) (bneg (a_neg A))) (BFin rf_zero)
     (a_pinf A || a_ninf A) false (a_nan A) false.

(* RealFloat.__mul__ float arm returning abs(other) * res_sgn *)
Definition bmul_fx (a b : bnd) : bnd :=
  match a, b with
  | BFin x, BFin y => BFin (rf_mul x y)
  | BFin x, BInf t => BInf (xorb (rs x) t)
  | BInf s, BFin y => BInf (xorb (rs y) s)
  | BInf s, BInf t => BInf (xorb s t)
  | _, _ => BNaN
  end.

(* __mul__; fix_inf: repaired RealFloat.__mul__; fix_nz: has_neg_zero also when an
   operand has a negative member (neg_bound < 0) *)
Definition af_mul_gen (fix_inf fix_nz : bool) (A B : absfmt) : result absfmt :=
  let bm := if fix_inf then bmul_fx else bmul in
  bind (effective_prec A) (fun p1 =>
  bind (effective_prec B) (fun p2 =>
  let prec :=
    if ext_eqb p1 (EFin 1) || ext_eqb p2 (EFin 1) then ext_max p1 p2
    else ext_max (ext_add p1 p2) (EFin 1) in
  let exp := ext_add (a_exp A) (a_exp B) in
  let pos := bmax (bm (a_pos A) (a_pos B)) (bm (a_neg A) (a_neg B)) in
  let neg := bmin (bm (a_pos A) (a_neg B)) (bm (a_neg A) (a_pos B)) in
  let self_inf := a_pinf A || a_ninf A in
  let other_inf := a_pinf B || a_ninf B in
  let inf_out := self_inf || other_inf in
  let nz :=
    if fix_nz then (a_nz A || bnd_lt (a_neg A) (BFin rf_zero)) || (a_nz B || bnd_lt (a_neg B) (BFin rf_zero))
    else a_nz A || a_nz B in
  Ok (AF prec exp pos neg inf_out inf_out (a_nan A || a_nan B || inf_out) nz))).

(* __le__ with the precision test also when other.exp is -inf *)
Definition af_le_fx (A B : absfmt) : bool :=
  match a_prec B, a_exp B with
  | EFin q, (EMInf | EPInf) => if ext_gt (a_prec A) (EFin q) then false else af_le A B
  | _, _ => af_le A B
  end.
