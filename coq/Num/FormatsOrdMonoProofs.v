(* Property C16: from the bounded ordinal facts (consecutive ordinals are
   consecutive values) to the statement on arbitrary pairs: the ordinal map of
   every extended format with nbits <= 8 is strictly increasing, and
   next_up / next_down step to the adjacent decoded value. *)
From Coq Require Import ZArith List Bool Lia Reals Lra.
From Flocq Require Import Core.Raux Core.Defs.
From FpyV Require Import Num.RealFloat Num.RealFloatProofs Num.Float Num.Formats Num.Layout
  Num.FormatsBoundedLibProofs Num.FormatsBoundedOrdProofs Num.FormatsFixedProofs.
Open Scope Z_scope.

Theorem efloat_ordinal_strictly_increasing_le8 f o1 o2 :
  dom8 f -> b_neg_ord (ef_mpb f) <= o1 -> o1 < o2 -> o2 <= b_pos_ord (ef_mpb f) ->
  exists y1 y2, ef_from_ord f o1 false = Ok (FFin y1) /\ ef_from_ord f o2 false = Ok (FFin y2) /\
    rf_wf y1 /\ rf_wf y2 /\ (R2R y1 < R2R y2)%R.
Proof.
  intros D L1 L12 L2.
  remember (Z.to_nat (o2 - o1 - 1)) as k eqn:Hk. revert o2 L12 L2 Hk.
  induction k as [|k IH]; intros o2 L12 L2 Hk.
  - assert (o2 = o1 + 1) by lia. subst o2.
    destruct (efloat_ordinal_range_le8 as_coded f o1 D ltac:(lia)) as [y1 [F1 [W1 [_ [_ Hn]]]]].
    destruct (Hn ltac:(lia)) as [y2 [F2 C]].
    destruct (efloat_ordinal_range_le8 as_coded f (o1 + 1) D ltac:(lia)) as [y2' [F2' [W2 _]]].
    rewrite F2 in F2'. injection F2' as <-.
    exists y1, y2. repeat split; auto.
    rewrite compare_denote in C by assumption. apply Rcompare_Lt_inv. exact C.
  - destruct (IH (o2 - 1) ltac:(lia) ltac:(lia) ltac:(lia)) as [y1 [ym [F1 [Fm [W1 [Wm Lt1]]]]]].
    destruct (efloat_ordinal_range_le8 as_coded f (o2 - 1) D ltac:(lia)) as [ym' [Fm' [_ [_ [_ Hn]]]]].
    rewrite Fm in Fm'. injection Fm' as <-.
    destruct (Hn ltac:(lia)) as [y2 [F2 C]]. replace (o2 - 1 + 1) with o2 in F2 by lia.
    destruct (efloat_ordinal_range_le8 as_coded f o2 D ltac:(lia)) as [y2' [F2' [W2 _]]].
    rewrite F2 in F2'. injection F2' as <-.
    exists y1, y2. repeat split; auto.
    rewrite compare_denote in C by assumption. apply Rcompare_Lt_inv in C. lra.
Qed.

(* next_up / next_down of a decoded finite value: the value of the adjacent
   ordinal, an error at the ends of the range *)
Theorem efloat_next_le8 fx f b r :
  fx = as_coded \/ fx = all_fixed -> dom8 f -> is_pattern f b -> ef_decode f b = Ok (FFin r) ->
  exists o, ef_to_ord fx f (FFin r) false = Ok o /\
    ord_next_up (ef_ops fx f) (FFin r) false = ef_from_ord f (o + 1) false /\
    ord_next_down (ef_ops fx f) (FFin r) false = ef_from_ord f (o + -1) false /\
    (o = b_pos_ord (ef_mpb f) -> exists e, ef_from_ord f (o + 1) false = Err e) /\
    (o = b_neg_ord (ef_mpb f) -> exists e, ef_from_ord f (o + -1) false = Err e).
Proof.
  intros Hfx D Hb Dr.
  destruct (efloat_ordinal_of_decoded_le8 fx f b r D Hb Dr) as [W [o [y [TO [Rg [FO EQ]]]]]].
  exists o. split; [exact TO|].
  assert (R : ef_repr fx f (FFin r) = true).
  { unfold ef_to_ord in TO. destruct (ef_repr fx f (FFin r)); [reflexivity|discriminate]. }
  destruct (ord_next_spec (ef_ops fx f) r false o R TO) as [U Dn]. cbn [ef_ops oo_from_ord] in U, Dn.
  split; [exact U|]. split; [exact Dn|].
  unfold ef_from_ord, mpb_from_ord. split; intros ->.
  - destruct (Z.gtb_spec (b_pos_ord (ef_mpb f) + 1) (b_pos_ord (ef_mpb f))); [|lia]. simpl. eexists; reflexivity.
  - destruct (Z.gtb_spec (b_neg_ord (ef_mpb f) + -1) (b_pos_ord (ef_mpb f))); [lia|].
    destruct (Z.ltb_spec (b_neg_ord (ef_mpb f) + -1) (b_neg_ord (ef_mpb f))); [|lia]. simpl. eexists; reflexivity.
Qed.
