(* C01, context level: the rounding of a finite non-zero operand under the
   float and fixed families is Flocq's `round`, followed — for the bounded
   families — by the overflow rule, triggered exactly when the rounded value
   leaves [neg_max, pos_max]; flags truthful; results are format members. *)
From Coq Require Import ZArith Bool Lia Reals Psatz.
From Flocq Require Import Core.Zaux Core.Raux Core.Defs Core.Digits Core.Float_prop
  Core.Generic_fmt Core.FLX Core.FLT Core.FIX.
From FpyV Require Import Num.RealFloat Num.RealFloatProofs Num.RoundSpec Num.RoundProofs
  Num.Float Num.FloatProofs Num.CtxDef Num.Ctx.
Open Scope Z_scope.

(* RealFloat._round_at never sets the overflow flag *)
Lemma round_at_overflow_false x p n emin rm ex y fl :
  round_at x p n emin rm ex = Ok (y, fl) -> f_overflow fl = false.
Proof.
  unfold round_at.
  destruct ((rexp x >? n) && match p with Some p0 => rf_p x <=? p0 | None => true end).
  { intros [= <- <-]. reflexivity. }
  destruct (split x n) as [kept lost].
  destruct (is_zero lost). { intros [= <- <-]. reflexivity. }
  destruct ex; [discriminate|].
  match goal with |- context [let '(a, b) := ?E in _] => destruct E as [k' c'] end.
  intros [= <- <-]. reflexivity.
Qed.

(* RealFloat.round: value, inexact flag, no overflow flag *)
Lemma rf_round_spec x max_p min_n rm :
  rf_wf x -> rc x <> 0 ->
  match max_p with Some p => 1 <= p | None => True end ->
  (max_p <> None \/ min_n <> None) ->
  exists y fl,
    rf_round x max_p min_n rm false = Ok (y, fl) /\
    R2R y = round radix2 (fexp_of max_p min_n) (rnd_of rm) (R2R x) /\
    rs y = rs x /\ rf_wf y /\
    (f_inexact fl = false <-> R2R y = R2R x) /\ f_overflow fl = false.
Proof.
  intros Hw Hnz Hp Hsome.
  destruct (round_flocq x max_p min_n rm Hw Hnz Hp Hsome) as (y & fl & Hr & Hv & Hs & Hwy).
  exists y, fl.
  unfold rf_wf in Hw. assert (Hc : 0 < rc x) by lia. pose proof (bitlen_pos _ Hc).
  split; [exact Hr|]. split; [exact Hv|]. split; [exact Hs|]. split; [exact Hwy|].
  unfold rf_round, round_params in Hr.
  destruct max_p as [p|], min_n as [n|]; cbn [bind] in Hr.
  - split; [|exact (round_at_overflow_false _ _ _ _ _ _ _ _ Hr)].
    apply (round_inexact_truthful x (Some p) (Z.max n (rf_e x - p)) (Some (p + n)) rm y fl Hc); [|exact Hr].
    unfold p_ok. split; [assumption|lia].
  - split; [|exact (round_at_overflow_false _ _ _ _ _ _ _ _ Hr)].
    apply (round_inexact_truthful x (Some p) (rf_e x - p) None rm y fl Hc); [|exact Hr].
    unfold p_ok. split; [assumption|lia].
  - split; [|exact (round_at_overflow_false _ _ _ _ _ _ _ _ Hr)].
    apply (round_inexact_truthful x None n None rm y fl Hc); [exact I|exact Hr].
  - destruct Hsome; congruence.
Qed.

(* ---------------------------------------------------------------- MPFloat / MPSFloat *)
Theorem mpfloat_round_spec p rm sp x rb :
  1 <= p -> rf_wf x -> rc x <> 0 ->
  exists y f,
    round_mpfloat p rm (Some 0) sp (FFin x) None rb = Ok (FFin y, f) /\
    R2R y = round radix2 (FLX_exp p) (rnd_of rm) (R2R x) /\
    (f_inexact f = false <-> R2R y = R2R x) /\ f_overflow f = false.
Proof.
  intros Hp Hw Hnz.
  assert (Hsome : (Some p) <> None \/ (@None Z) <> None) by (left; discriminate).
  assert (Hpp : match (Some p) with Some p0 => 1 <= p0 | None => True end) by (exact Hp).
  pose proof (rf_round_spec x (Some p) None rm Hw Hnz Hpp Hsome) as HRS.
  destruct HRS as (y & f & Hr & Hv & _ & _ & Hi & Ho).
  exists y, f. unfold round_mpfloat, special_float, is_zero.
  destruct (Z.eqb_spec (rc x) 0); [contradiction|].
  unfold rf_round_k, wrap_fin. rewrite Hr. cbn [bind fst snd]. auto.
Qed.

Theorem mpsfloat_round_spec p emin rm sp x rb :
  1 <= p -> rf_wf x -> rc x <> 0 ->
  exists y f,
    round_mpsfloat p emin rm (Some 0) sp (FFin x) None rb = Ok (FFin y, f) /\
    R2R y = round radix2 (FLT_exp (emin - p + 1) p) (rnd_of rm) (R2R x) /\
    (f_inexact f = false <-> R2R y = R2R x) /\ f_overflow f = false.
Proof.
  intros Hp Hw Hnz.
  assert (Hsome : (Some p) <> None \/ (Some (mps_nmin p emin)) <> None) by (left; discriminate).
  assert (Hpp : match (Some p) with Some p0 => 1 <= p0 | None => True end) by (exact Hp).
  pose proof (rf_round_spec x (Some p) (Some (mps_nmin p emin)) rm Hw Hnz Hpp Hsome) as HRS.
  destruct HRS as (y & f & Hr & Hv & _ & _ & Hi & Ho).
  exists y, f. unfold round_mpsfloat, special_float, is_zero, clamp_n.
  destruct (Z.eqb_spec (rc x) 0); [contradiction|].
  unfold rf_round_k, wrap_fin. rewrite Hr. cbn [bind fst snd].
  cbn [fexp_of] in Hv. unfold mps_nmin in Hv.
  replace (emin - p + 1 - 1 + 1) with (emin - p + 1) in Hv by lia. auto.
Qed.

(* ---------------------------------------------------------------- MPBFloat: overflow decided on the rounded value *)
Definition in_range (pos_max neg_max : rf) (r : R) : Prop := (R2R neg_max <= r <= R2R pos_max)%R.

Lemma is_overflowing_spec pos_max neg_max y :
  rf_wf pos_max -> rf_wf neg_max -> rf_wf y ->
  rs pos_max = false -> (rs neg_max = true \/ rc neg_max = 0) ->
  (is_overflowing pos_max neg_max y = false <-> in_range pos_max neg_max (R2R y)).
Proof.
  intros Hp Hn Hy Sp Sn. unfold is_overflowing, in_range.
  assert (Hpos : (0 <= R2R pos_max)%R).
  { unfold R2R, rf_m. rewrite Sp. apply F2R_ge_0. exact Hp. }
  assert (Hneg : (R2R neg_max <= 0)%R).
  { destruct Sn as [Sn|Sn].
    - unfold R2R, rf_m. rewrite Sn. apply F2R_le_0. simpl. unfold rf_wf in Hn. lia.
    - rewrite R2R_zero by assumption. lra. }
  destruct (rs y) eqn:Sy.
  - assert (Hy0 : (R2R y <= 0)%R).
    { unfold R2R, rf_m. rewrite Sy. apply F2R_le_0. simpl. unfold rf_wf in Hy. lia. }
    rewrite compare_denote by assumption.
    destruct (Rcompare_spec (R2R y) (R2R neg_max)); split; intros H'; try discriminate; try reflexivity; try lra.
  - assert (Hy0 : (0 <= R2R y)%R).
    { unfold R2R, rf_m. rewrite Sy. apply F2R_ge_0. exact Hy. }
    rewrite compare_denote by assumption.
    destruct (Rcompare_spec (R2R y) (R2R pos_max)); split; intros H'; try discriminate; try reflexivity; try lra.
Qed.

(* what an overflow produces (the model's table, stated as a function) *)
Definition overflow_result (pos_max neg_max : rf) (rm : rmode) (ov : ovmode) (sp : special)
    (s : bool) (subst_sign : bool) : result rfl :=
  let maxv := FFin (if s then neg_max else pos_max) in
  match ov with
  | OV_OVERFLOW =>
      if overflow_to_infinity rm s then
        if sp_enable_inf sp then Ok (FInf s, fl_ovf_flags)
        else match sp_inf_value sp with
             | None => Err ValueErr
             | Some v => Ok (if subst_sign then fl_with_sign s v else v, fl_ovf_flags)
             end
      else Ok (maxv, fl_ovf_flags)
  | OV_SATURATE => Ok (maxv, fl_ovf_flags)
  | OV_ASSERT => Err OverflowErr
  | OV_WRAP => Err OtherErr
  end.

Theorem mpbfloat_round_spec p emin pos_max neg_max rm ov sp x rb :
  1 <= p -> rf_wf x -> rc x <> 0 ->
  rf_wf pos_max -> rf_wf neg_max -> rs pos_max = false -> (rs neg_max = true \/ rc neg_max = 0) ->
  let r := round radix2 (FLT_exp (emin - p + 1) p) (rnd_of rm) (R2R x) in
  (in_range pos_max neg_max r ->
     exists y f, round_mpbfloat p emin pos_max neg_max rm ov (Some 0) sp (FFin x) None rb = Ok (FFin y, f) /\
       R2R y = r /\ (f_inexact f = false <-> R2R y = R2R x) /\ f_overflow f = false) /\
  (~ in_range pos_max neg_max r ->
     round_mpbfloat p emin pos_max neg_max rm ov (Some 0) sp (FFin x) None rb =
     overflow_result pos_max neg_max rm ov sp (rs x) true).
Proof.
  intros Hp Hw Hnz Hpm Hnm Sp Sn r.
  assert (Hsome : (Some p) <> None \/ (Some (mps_nmin p emin)) <> None) by (left; discriminate).
  assert (Hpp : match (Some p) with Some p0 => 1 <= p0 | None => True end) by (exact Hp).
  pose proof (rf_round_spec x (Some p) (Some (mps_nmin p emin)) rm Hw Hnz Hpp Hsome) as HRS.
  destruct HRS as (y & f & Hr & Hv & Hs & Hwy & Hi & Ho).
  cbn [fexp_of] in Hv. unfold mps_nmin in Hv.
  replace (emin - p + 1 - 1 + 1) with (emin - p + 1) in Hv by lia. fold r in Hv.
  pose proof (is_overflowing_spec pos_max neg_max y Hpm Hnm Hwy Sp Sn) as Hov. rewrite Hv in Hov.
  assert (Hred : round_mpbfloat p emin pos_max neg_max rm ov (Some 0) sp (FFin x) None rb =
     if is_overflowing pos_max neg_max y then overflow_result pos_max neg_max rm ov sp (rs x) true
     else Ok (FFin y, f)).
  { unfold round_mpbfloat, special_float, is_zero, clamp_n.
    destruct (Z.eqb_spec (rc x) 0); [contradiction|].
    unfold rf_round_k. unfold mps_nmin in *. rewrite Hr. cbn [bind].
    unfold overflow_result. rewrite Hs. destruct (is_overflowing pos_max neg_max y); reflexivity. }
  split.
  - intros Hin. apply Hov in Hin. rewrite Hred, Hin. exists y, f. auto.
  - intros Hout. rewrite Hred.
    destruct (is_overflowing pos_max neg_max y) eqn:E; [reflexivity|].
    exfalso. apply Hout. apply Hov. reflexivity.
Qed.

(* the overflow flag is truthful and implies inexact *)
Theorem overflow_result_flags pos_max neg_max rm ov sp s b v f :
  overflow_result pos_max neg_max rm ov sp s b = Ok (v, f) -> f_overflow f = true /\ f_inexact f = true.
Proof.
  unfold overflow_result. destruct ov.
  - destruct (overflow_to_infinity rm s).
    + destruct (sp_enable_inf sp).
      * intros [= <- <-]. auto.
      * destruct (sp_inf_value sp); [intros [= <- <-]; auto|discriminate].
    + intros [= <- <-]. auto.
  - intros [= <- <-]. auto.
  - discriminate.
  - discriminate.
Qed.

(* ---------------------------------------------------------------- fixed point *)
Theorem mpfixed_round_spec nmin rm sp nz x rb :
  rf_wf x -> rc x <> 0 ->
  exists y f,
    round_mpfixed nmin rm (Some 0) sp nz (FFin x) None rb = Ok (FFin y, f) /\
    R2R y = round radix2 (FIX_exp (nmin + 1)) (rnd_of rm) (R2R x) /\
    (f_inexact f = false <-> R2R y = R2R x) /\ f_overflow f = false.
Proof.
  intros Hw Hnz.
  assert (Hsome : (@None Z) <> None \/ (Some nmin) <> None) by (right; discriminate).
  assert (Hpp : match (@None Z) with Some p0 => 1 <= p0 | None => True end) by (exact I).
  pose proof (rf_round_spec x None (Some nmin) rm Hw Hnz Hpp Hsome) as HRS.
  destruct HRS as (y & f & Hr & Hv & _ & _ & Hi & Ho).
  exists (fix_neg_zero nz y), f. unfold round_mpfixed, special_fixed, is_zero, clamp_n_fixed.
  destruct (Z.eqb_spec (rc x) 0); [contradiction|].
  unfold rf_round_k. rewrite Hr. cbn [bind fst snd].
  assert (Hsame : R2R (fix_neg_zero nz y) = R2R y).
  { unfold fix_neg_zero, is_zero. destruct (Z.eqb_spec (rc y) 0) as [Z0|Z0]; [|reflexivity].
    cbn [andb]. destruct (rs y && negb nz); [|reflexivity]. rewrite !R2R_zero by (simpl; assumption). reflexivity. }
  rewrite Hsame. auto.
Qed.

(* a representable operand is returned unchanged and unflagged (every shape) *)
Theorem representable_unchanged x max_p min_n rm :
  rf_wf x -> rc x <> 0 ->
  match max_p with Some p => 1 <= p | None => True end ->
  (max_p <> None \/ min_n <> None) ->
  generic_format radix2 (fexp_of max_p min_n) (R2R x) ->
  exists y fl, rf_round x max_p min_n rm false = Ok (y, fl) /\ R2R y = R2R x /\ f_inexact fl = false.
Proof.
  intros Hw Hnz Hp Hsome Hfmt.
  destruct (rf_round_spec x max_p min_n rm Hw Hnz Hp Hsome) as (y & f & Hr & Hv & _ & _ & Hi & _).
  exists y, f. split; [exact Hr|].
  assert (Hv' : R2R y = R2R x).
  { rewrite Hv. apply round_generic; [|exact Hfmt].
    apply valid_rnd_of. }
  split; [exact Hv'|]. apply Hi. exact Hv'.
Qed.

(* the result is always a member of the format, and one of the two neighbours *)
Theorem result_member_neighbour x max_p min_n rm :
  rf_wf x -> rc x <> 0 ->
  match max_p with Some p => 1 <= p | None => True end ->
  (max_p <> None \/ min_n <> None) ->
  exists y fl, rf_round x max_p min_n rm false = Ok (y, fl) /\
    generic_format radix2 (fexp_of max_p min_n) (R2R y) /\
    (R2R y = round radix2 (fexp_of max_p min_n) Zfloor (R2R x) \/
     R2R y = round radix2 (fexp_of max_p min_n) Zceil (R2R x)).
Proof.
  intros Hw Hnz Hp Hsome.
  destruct (rf_round_spec x max_p min_n rm Hw Hnz Hp Hsome) as (y & f & Hr & Hv & _).
  exists y, f. split; [exact Hr|].
  assert (Hve : Valid_exp (fexp_of max_p min_n)).
  { apply valid_fexp_of. destruct max_p; [lia|exact I]. }
  rewrite Hv. split.
  - apply generic_format_round; [exact Hve|apply valid_rnd_of].
  - apply round_DN_or_UP. apply valid_rnd_of.
Qed.

(* ---------------------------------------------------------------- MPBFixed: overflow rule incl. wrap-around by ordinal *)
Definition overflow_result_fixed (nmin : Z) (pos_max neg_max : rf) (rm : rmode) (ov : ovmode) (sp : special)
    (s : bool) (y : rf) : result rfl :=
  let maxv := FFin (if rs y then neg_max else pos_max) in
  match ov with
  | OV_OVERFLOW =>
      if overflow_to_infinity rm (rs y) then
        if sp_enable_inf sp then Ok (FInf s, fl_ovf_flags)
        else match sp_inf_value sp with None => Err ValueErr | Some v => Ok (v, fl_ovf_flags) end
      else Ok (maxv, fl_ovf_flags)
  | OV_SATURATE => Ok (maxv, fl_ovf_flags)
  | OV_WRAP =>
      let neg_ord := fixed_to_ordinal nmin neg_max in
      let pos_ord := fixed_to_ordinal nmin pos_max in
      Ok (FFin (fixed_from_ordinal nmin ((fixed_to_ordinal nmin y - neg_ord) mod (pos_ord - neg_ord + 1) + neg_ord)), fl_ovf_flags)
  | OV_ASSERT => Err OverflowErr
  end.

Theorem mpbfixed_round_spec nmin pos_max neg_max rm ov sp nz x rb :
  rf_wf x -> rc x <> 0 ->
  rf_wf pos_max -> rf_wf neg_max -> rs pos_max = false -> (rs neg_max = true \/ rc neg_max = 0) ->
  let r := round radix2 (FIX_exp (nmin + 1)) (rnd_of rm) (R2R x) in
  exists y f0, rf_round x None (Some nmin) rm false = Ok (y, f0) /\ R2R y = r /\
  (in_range pos_max neg_max r ->
     exists y' f, round_mpbfixed nmin pos_max neg_max rm ov (Some 0) sp nz (FFin x) None rb = Ok (FFin y', f) /\
       R2R y' = r /\ (f_inexact f = false <-> R2R y' = R2R x) /\ f_overflow f = false) /\
  (~ in_range pos_max neg_max r ->
     round_mpbfixed nmin pos_max neg_max rm ov (Some 0) sp nz (FFin x) None rb =
     overflow_result_fixed nmin pos_max neg_max rm ov sp (rs x) y).
Proof.
  intros Hw Hnz Hpm Hnm Sp Sn r.
  assert (Hsome : (@None Z) <> None \/ Some nmin <> None) by (right; discriminate).
  assert (Hpp : match (@None Z) with Some p0 => 1 <= p0 | None => True end) by exact I.
  pose proof (rf_round_spec x None (Some nmin) rm Hw Hnz Hpp Hsome) as HRS.
  destruct HRS as (y & f & Hr & Hv & Hs & Hwy & Hi & Ho).
  cbn [fexp_of] in Hv. fold r in Hv.
  exists y, f. split; [exact Hr|]. split; [exact Hv|].
  pose proof (is_overflowing_spec pos_max neg_max y Hpm Hnm Hwy Sp Sn) as Hov. rewrite Hv in Hov.
  assert (Hred : round_mpbfixed nmin pos_max neg_max rm ov (Some 0) sp nz (FFin x) None rb =
     if is_overflowing pos_max neg_max y then overflow_result_fixed nmin pos_max neg_max rm ov sp (rs x) y
     else Ok (FFin (fix_neg_zero nz y), f)).
  { unfold round_mpbfixed, special_fixed, is_zero, clamp_n_fixed.
    destruct (Z.eqb_spec (rc x) 0); [contradiction|].
    unfold rf_round_k. rewrite Hr. cbn [bind].
    unfold overflow_result_fixed. destruct (is_overflowing pos_max neg_max y); reflexivity. }
  assert (Hsame : R2R (fix_neg_zero nz y) = R2R y).
  { unfold fix_neg_zero, is_zero. destruct (Z.eqb_spec (rc y) 0) as [Z0|Z0]; [|reflexivity].
    cbn [andb]. destruct (rs y && negb nz); [|reflexivity]. rewrite !R2R_zero by (simpl; assumption). reflexivity. }
  split.
  - intros Hin. apply Hov in Hin. rewrite Hred, Hin. exists (fix_neg_zero nz y), f.
    rewrite Hsame. auto.
  - intros Hout. rewrite Hred.
    destruct (is_overflowing pos_max neg_max y) eqn:E; [reflexivity|].
    exfalso. apply Hout. apply Hov. reflexivity.
Qed.

(* wrap-around lands inside the ordinal range, on the ordinal congruent to the rounded value's *)
Theorem wrap_ordinal_spec o neg_ord pos_ord :
  neg_ord <= pos_ord ->
  let total := pos_ord - neg_ord + 1 in
  let o' := (o - neg_ord) mod total + neg_ord in
  neg_ord <= o' <= pos_ord /\ (o' - o) mod total = 0.
Proof.
  intros Hle total o'.
  assert (Ht : 0 < total) by (unfold total; lia).
  pose proof (Z.mod_pos_bound (o - neg_ord) total Ht) as Hb.
  pose proof (Z.div_mod (o - neg_ord) total ltac:(lia)) as Hdm.
  split; [unfold o', total in *; lia|].
  replace (o' - o) with (- ((o - neg_ord) / total) * total) by (unfold o'; lia).
  apply Z.mod_mul. lia.
Qed.

Theorem fixed_ordinal_roundtrip nmin o : fixed_to_ordinal nmin (fixed_from_ordinal nmin o) = o.
Proof.
  unfold fixed_from_ordinal, fixed_to_ordinal, is_zero.
  destruct (Z.eqb_spec o 0) as [->|Ho]; [reflexivity|].
  cbn [rc rexp rs]. destruct (Z.eqb_spec (Z.abs o) 0); [lia|].
  replace (nmin + 1 - (nmin + 1)) with 0 by lia. cbn [Z.gtb Z.ltb Z.compare].
  destruct (Z.ltb_spec o 0); lia.
Qed.
