(* Model of fpy2/number/number/floats.py: Float = RealFloat + infinities + NaN.
   Definitions only. *)
From Coq Require Import ZArith List Bool.
From FpyV Require Import Num.RealFloat.
Import ListNotations.
Open Scope Z_scope.

Inductive fl := FFin (x : rf) | FInf (s : bool) | FNaN (s : bool).

Definition fl_isnan (x : fl) := match x with FNaN _ => true | _ => false end.
Definition fl_isinf (x : fl) := match x with FInf _ => true | _ => false end.
Definition fl_is_zero (x : fl) := match x with FFin r => is_zero r | _ => false end.
Definition fl_s (x : fl) : bool := match x with FFin r => rs r | FInf s => s | FNaN s => s end.

(* Float(s=..., x=self): sign replaced, class kept *)
Definition fl_with_sign (s : bool) (x : fl) : fl :=
  match x with
  | FFin r => FFin (RF s (rexp r) (rc r))
  | FInf _ => FInf s
  | FNaN _ => FNaN s
  end.

Definition fl_neg (x : fl) : fl := fl_with_sign (negb (fl_s x)) x.
Definition fl_pos (x : fl) : fl := x.          (* unary plus: a copy *)
Definition fl_abs (x : fl) : fl := fl_with_sign false x.

(* Float.__add__ *)
Definition fl_add (x y : fl) : fl :=
  match x, y with
  | FNaN _, _ | _, FNaN _ => FNaN false
  | FInf s1, FInf s2 => if eqb s1 s2 then FInf s1 else FNaN false
  | FInf s1, FFin _ => FInf s1
  | FFin _, FInf s2 => FInf s2
  | FFin a, FFin b => FFin (rf_add a b)
  end.

Definition fl_sub (x y : fl) : fl := fl_add x (fl_neg y).

(* Float.__mul__ *)
Definition fl_mul (x y : fl) : fl :=
  match x, y with
  | FNaN _, _ | _, FNaN _ => FNaN false
  | FInf s1, _ => if fl_is_zero y then FNaN false else FInf (xorb s1 (fl_s y))
  | _, FInf s2 => if fl_is_zero x then FNaN false else FInf (xorb (fl_s x) s2)
  | FFin a, FFin b => FFin (rf_mul a b)
  end.

(* Float.__pow__ *)
Definition fl_pow (x : fl) (k : Z) : result fl :=
  if k <? 0 then Err ValueErr
  else if k =? 0 then Ok (FFin (RF false 0 1))
  else match x with
       | FFin r => bind (rf_pow r k) (fun y => Ok (FFin y))
       | _ => Ok (fl_with_sign (fl_s x && negb (k mod 2 =? 0)) x)
       end.

(* Float.compare (Float arm): None = unordered *)
Definition fl_compare (x y : fl) : option comparison :=
  match x, y with
  | FNaN _, _ | _, FNaN _ => None
  | FInf s1, FInf s2 => Some (if eqb s1 s2 then Eq else if s1 then Lt else Gt)
  | FInf s1, FFin _ => Some (if s1 then Lt else Gt)
  | FFin _, FInf s2 => Some (if s2 then Gt else Lt)
  | FFin a, FFin b => Some (rf_compare a b)
  end.

(* Float.split / normalize / __int__ *)
Definition fl_split (x : fl) (n : Z) : fl * fl :=
  match x with
  | FFin r => let '(h, l) := split r n in (FFin h, FFin l)
  | FInf s => (FInf s, FInf s)
  | FNaN s => (FNaN s, FNaN s)
  end.

Definition fl_is_integer (x : fl) : bool := match x with FFin r => is_integer r | _ => false end.

Definition fl_to_int (x : fl) : result Z :=
  match x with FFin r => rf_to_int r | _ => Err ValueErr end.

(* hash key: the int or the reduced fraction (num, den) the code hashes through *)
Inductive hkey := HInt (z : Z) | HFrac (num den : Z) | HInf (s : bool) | HNaN.

Definition rf_hash_key (x : rf) : hkey :=
  match rf_to_int x with
  | Ok z => HInt z
  | Err _ =>
      (* not an integer: exp < 0; reduce m / 2^-exp *)
      let g := Z.gcd (rc x) (2 ^ (- rexp x)) in
      HFrac (rf_m x / g) (2 ^ (- rexp x) / g)
  end.

Definition fl_hash_key (x : fl) : hkey :=
  match x with FFin r => rf_hash_key r | FInf s => HInf s | FNaN _ => HNaN end.
