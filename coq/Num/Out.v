(* A small universal result type for correspondence cases, with decidable
   equality.  RealFloat values are compared as raw encodings (s, exp, c). *)
From Coq Require Import ZArith List Bool.
From FpyV Require Import Num.RealFloat Num.Float.
Import ListNotations.
Open Scope Z_scope.

Inductive out :=
  | ORf (x : rf) | OFl (x : fl) | OPair (a b : out) | OCmp (c : option comparison)
  | OZ (z : Z) | OB (b : bool) | OErr (e : err) | OFlags (f : flags)
  | OList (l : list out) | OKey (k : hkey) | ONone.

Definition rf_identical (x y : rf) : bool :=
  eqb (rs x) (rs y) && (rexp x =? rexp y) && (rc x =? rc y).

Definition fl_identical (x y : fl) : bool :=
  match x, y with
  | FFin a, FFin b => rf_identical a b
  | FInf a, FInf b => eqb a b
  | FNaN a, FNaN b => eqb a b
  | _, _ => false
  end.

Definition cmp_eqb (a b : comparison) : bool :=
  match a, b with Eq, Eq | Lt, Lt | Gt, Gt => true | _, _ => false end.

Definition err_eqb (a b : err) : bool :=
  match a, b with
  | ValueErr, ValueErr | OverflowErr, OverflowErr | TypeErr, TypeErr | IndexErr, IndexErr
  | AssertErr, AssertErr | NameErr, NameErr | OtherErr, OtherErr => true
  | _, _ => false
  end.

Definition flags_eqb (a b : flags) : bool :=
  eqb (f_invalid a) (f_invalid b) && eqb (f_divzero a) (f_divzero b) &&
  eqb (f_overflow a) (f_overflow b) && eqb (f_tiny_pre a) (f_tiny_pre b) &&
  eqb (f_tiny_post a) (f_tiny_post b) && eqb (f_inexact a) (f_inexact b) &&
  eqb (f_carry a) (f_carry b).

Definition hkey_eqb (a b : hkey) : bool :=
  match a, b with
  | HInt x, HInt y => x =? y
  | HFrac n d, HFrac n' d' => (n =? n') && (d =? d')
  | HInf s, HInf s' => eqb s s'
  | HNaN, HNaN => true
  | _, _ => false
  end.

Fixpoint out_eqb (a b : out) {struct a} : bool :=
  match a, b with
  | ORf x, ORf y => rf_identical x y
  | OFl x, OFl y => fl_identical x y
  | OPair a1 a2, OPair b1 b2 => out_eqb a1 b1 && out_eqb a2 b2
  | OCmp None, OCmp None => true
  | OCmp (Some x), OCmp (Some y) => cmp_eqb x y
  | OZ x, OZ y => x =? y
  | OB x, OB y => eqb x y
  | OErr x, OErr y => err_eqb x y
  | OFlags x, OFlags y => flags_eqb x y
  | OList l, OList m =>
      (fix go (l : list out) (m : list out) : bool :=
         match l, m with
         | [], [] => true
         | x :: l', y :: m' => out_eqb x y && go l' m'
         | _, _ => false
         end) l m
  | OKey x, OKey y => hkey_eqb x y
  | ONone, ONone => true
  | _, _ => false
  end.

Definition of_result {A} (f : A -> out) (r : result A) : out :=
  match r with Ok a => f a | Err e => OErr e end.

Definition o_rff (p : rf * flags) : out := OPair (ORf (fst p)) (OFlags (snd p)).
