(* Model of the number formats of fpy2/number/context: MPSFloatFormat,
   MPBFloatFormat, MPFixedFormat, MPBFixedFormat, EFloatFormat (IEEEFormat is
   the instance (es, nbits, true, IEEE_754, 0)), FixedFormat, SMFixedFormat,
   ExpFormat and the stepping functions of format.py::OrdinalFormat.
   Definitions only (property C16).  Each definition names the Python
   function it transcribes; exceptions are `Err` values. *)
From Coq Require Import ZArith List Bool.
From FpyV Require Import Num.RealFloat Num.Float.
Import ListNotations.
Open Scope Z_scope.

(* `c << off` when off > 0, `c >> -off` when off < 0 (the three-armed ifs of
   _to_ordinal / encode) *)
Definition shift_by (c off : Z) : Z :=
  if off >? 0 then Z.shiftl c off
  else if off <? 0 then Z.shiftr c (- off)
  else c.

Definition fl_e (x : fl) : Z := match x with FFin r => rf_e r | _ => -1 end.
Definition fl_is_nar (x : fl) : bool := match x with FFin _ => false | _ => true end.
Definition fl_is_nonzero (x : fl) : bool := match x with FFin r => negb (is_zero r) | _ => false end.
Definition rf_is_positive (x : rf) : bool := negb (rc x =? 0) && negb (rs x).
Definition rf_is_negative (x : rf) : bool := negb (rc x =? 0) && rs x.

(* Which of the four genuine defects recorded for C16 (known_findings.d/C16.json,
   fixes/C16-*.diff) are repaired in the modelled code.  `as_coded` is /repo at
   the pinned commit; `all_fixed` is /repo with the four proposed patches.  The
   check probes the implementation and evaluates the matching variant. *)
Record fixes := FX { fx_repr : bool; fx_enc_inf : bool; fx_enc_nan : bool; fx_norm : bool }.
Definition as_coded := FX false false false false.
Definition all_fixed := FX true true true true.

Section Model.
Variable fx : fixes.

(* ================================================================ MPSFloatFormat (mps_float.py) *)
Record mpsfmt := MPSF { s_pmax : Z; s_emin : Z; s_nan : bool; s_inf : bool }.
Definition s_expmin (f : mpsfmt) : Z := s_emin f - s_pmax f + 1.
Definition s_nmin (f : mpsfmt) : Z := s_expmin f - 1.
Definition mps_ctor_ok (f : mpsfmt) : bool := 1 <=? s_pmax f.

(* MPSFloatFormat.representable_in (finite part) *)
Definition mps_repr_rf (f : mpsfmt) (x : rf) : bool :=
  if is_zero x then true
  else if (rf_p x >? s_pmax f) && negb (Z.land (rc x) (bitmask (rf_p x - s_pmax f)) =? 0) then false
  else is_more_significant x (s_nmin f).

Definition mps_repr (f : mpsfmt) (x : fl) : bool :=
  match x with FNaN _ => s_nan f | FInf _ => s_inf f | FFin r => mps_repr_rf f r end.

(* MPSFloatFormat._to_ordinal *)
Definition mps_to_ord_rf (f : mpsfmt) (x : rf) : Z :=
  if is_zero x then 0
  else
    let '(eord, mord) :=
      if rf_e x <=? s_emin f then (0, shift_by (rc x) (rexp x - s_expmin f))
      else (rf_e x - s_emin f + 1,
            Z.land (shift_by (rc x) (- (rf_p x - s_pmax f))) (bitmask (s_pmax f - 1))) in
    let uord := Z.shiftl eord (s_pmax f - 1) + mord in
    (if rs x then -1 else 1) * uord.

(* MPSFloatFormat.to_ordinal *)
Definition mps_to_ord (f : mpsfmt) (x : fl) (infval : bool) : result Z :=
  if negb (mps_repr f x) then Err ValueErr
  else if infval then Err ValueErr
  else match x with FFin r => Ok (mps_to_ord_rf f r) | _ => Err ValueErr end.

(* MPSFloatFormat.from_ordinal *)
Definition mps_from_ord_rf (f : mpsfmt) (o : Z) : rf :=
  if o =? 0 then RF false 0 0
  else
    let s := o <? 0 in
    let uord := Z.abs o in
    let d := Z.shiftl 1 (s_pmax f - 1) in
    let eord := uord / d in
    let mord := uord mod d in
    if eord =? 0 then RF s (s_expmin f) mord
    else RF s (s_expmin f + (eord - 1)) (Z.lor d mord).

Definition mps_from_ord (f : mpsfmt) (o : Z) (infval : bool) : result fl :=
  if infval then Err ValueErr else Ok (FFin (mps_from_ord_rf f o)).

(* MPSFloatFormat.normalize *)
Definition mps_normalize (f : mpsfmt) (x : fl) : result fl :=
  if negb (mps_repr f x) then Err TypeErr
  else match x with
       | FNaN s => Ok (FNaN s)
       | FInf s => Ok (FInf s)
       | FFin r =>
           if rc r =? 0 then Ok (FFin (RF (rs r) (s_expmin f) 0))
           else bind (normalize r (Some (s_pmax f)) (Some (s_nmin f)))
                     (fun y => Ok (FFin (RF (rs r) (rexp y) (rc y))))
       end.

(* MPSFloatFormat.canonical_under *)
Definition mps_canonical (f : mpsfmt) (x : fl) : result bool :=
  if negb (mps_repr f x) then Err TypeErr
  else match x with
       | FFin r =>
           if (rc r =? 0) || (rf_e r <? s_emin f) then Ok (rexp r =? s_expmin f)
           else Ok (rf_p r =? s_pmax f)
       | _ => Ok true
       end.

Definition mps_zero (f : mpsfmt) (s : bool) : fl := FFin (RF s (s_expmin f) 0).
Definition mps_minval (f : mpsfmt) (s : bool) : fl := FFin (RF s (s_expmin f) 1).
Definition mps_max_subnormal (f : mpsfmt) (s : bool) : fl := FFin (RF s (s_expmin f) (bitmask (s_pmax f - 1))).
Definition mps_min_normal (f : mpsfmt) (s : bool) : fl := FFin (RF s (s_expmin f) (Z.shiftl 1 (s_pmax f - 1))).

(* ================================================================ MPBFloatFormat (mpb_float.py) *)
Record mpbfmt := MPBF { b_pmax : Z; b_emin : Z; b_pos : rf; b_neg : rf; b_nan : bool; b_inf : bool }.
Definition b_mps (f : mpbfmt) : mpsfmt := MPSF (b_pmax f) (b_emin f) (b_nan f) (b_inf f).
Definition b_expmin (f : mpbfmt) : Z := b_emin f - b_pmax f + 1.
Definition b_nmin (f : mpbfmt) : Z := b_expmin f - 1.
Definition b_emax (f : mpbfmt) : Z := Z.max (rf_e (b_pos f)) (rf_e (b_neg f)).
Definition b_expmax (f : mpbfmt) : Z := b_emax f - b_pmax f + 1.
Definition b_pos_ord (f : mpbfmt) : Z := mps_to_ord_rf (b_mps f) (b_pos f).
Definition b_neg_ord (f : mpbfmt) : Z := mps_to_ord_rf (b_mps f) (b_neg f).
Definition mpb_ctor_ok (f : mpbfmt) : bool := (1 <=? b_pmax f) && negb (rs (b_pos f)) && rs (b_neg f).

(* MPBFloatFormat.representable_in *)
Definition mpb_repr (f : mpbfmt) (x : fl) : bool :=
  match x with
  | FNaN _ => b_nan f
  | FInf _ => b_inf f
  | FFin r =>
      if negb (mps_repr_rf (b_mps f) r) then false
      else if is_zero r then true
      else if rs r then rf_leb (b_neg f) r
      else rf_leb r (b_pos f)
  end.

(* MPBFloatFormat.to_ordinal *)
Definition mpb_to_ord (f : mpbfmt) (x : fl) (infval : bool) : result Z :=
  if negb (mpb_repr f x) then Err ValueErr
  else match x with
       | FNaN _ => Err TypeErr
       | FInf s => if negb infval then Err TypeErr
                   else if s then Ok (b_neg_ord f - 1) else Ok (b_pos_ord f + 1)
       | FFin _ => mps_to_ord (b_mps f) x false
       end.

(* MPBFloatFormat.from_ordinal *)
Definition mpb_from_ord (f : mpbfmt) (o : Z) (infval : bool) : result fl :=
  let allow_inf := infval && b_inf f in
  if o >? b_pos_ord f then
    if negb allow_inf || (o >? b_pos_ord f + 1) then Err ValueErr else Ok (FInf false)
  else if o <? b_neg_ord f then
    if negb allow_inf || (o <? b_neg_ord f - 1) then Err ValueErr else Ok (FInf true)
  else mps_from_ord (b_mps f) o false.

Definition mpb_normalize (f : mpbfmt) (x : fl) : result fl :=
  if negb (mpb_repr f x) then Err TypeErr else mps_normalize (b_mps f) x.
Definition mpb_canonical (f : mpbfmt) (x : fl) : result bool :=
  if negb (mpb_repr f x) then Err TypeErr else mps_canonical (b_mps f) x.
Definition mpb_maxval (f : mpbfmt) (s : bool) : fl := FFin (if s then b_neg f else b_pos f).
(* MPBFloatFormat.infval: maxval.next_away_zero(p=pmax, n=nmin) *)
Definition mpb_infval (f : mpbfmt) (s : bool) : result fl :=
  bind (next_away (if s then b_neg f else b_pos f) (b_nmin f) (Some (b_pmax f))) (fun y => Ok (FFin y)).

(* ================================================================ MPFixedFormat (mp_fixed.py) *)
Record mpffmt := MPFF { f_nmin : Z; f_nan : bool; f_inf : bool; f_negzero : bool }.
Definition f_expmin (f : mpffmt) : Z := f_nmin f + 1.

(* MPFixedFormat.representable_in *)
Definition mpf_repr (f : mpffmt) (x : fl) : bool :=
  match x with
  | FNaN _ => f_nan f
  | FInf _ => f_inf f
  | FFin r =>
      if is_zero r && rs r && negb (f_negzero f) then false
      else is_more_significant r (f_nmin f)
  end.

(* MPFixedFormat._to_ordinal *)
Definition mpf_to_ord_rf (f : mpffmt) (x : rf) : Z :=
  if is_zero x then 0
  else let c := shift_by (rc x) (rexp x - f_expmin f) in
       if rs x then - c else c.

Definition mpf_to_ord (f : mpffmt) (x : fl) (infval : bool) : result Z :=
  if negb (mpf_repr f x) then Err ValueErr
  else if infval then Err ValueErr
  else match x with FFin r => Ok (mpf_to_ord_rf f r) | _ => Err ValueErr end.

(* MPFixedFormat.from_ordinal *)
Definition mpf_from_ord_rf (f : mpffmt) (o : Z) : rf :=
  if o =? 0 then RF false 0 0 else RF (o <? 0) (f_expmin f) (Z.abs o).
Definition mpf_from_ord (f : mpffmt) (o : Z) (infval : bool) : result fl :=
  if infval then Err ValueErr else Ok (FFin (mpf_from_ord_rf f o)).

(* MPFixedFormat.normalize, exactly as coded: for offset > 0 the significand
   is shifted RIGHT and for offset < 0 LEFT (see Props/C16.v: refuted) *)
Definition mpf_normalize_rf (f : mpffmt) (x : rf) : rf :=
  let offset := rexp x - f_expmin f in
  if fx_norm fx then
    (* fixes/C16-mpfixed-normalize.diff: shift towards the format's exponent *)
    if offset >? 0 then RF (rs x) (rexp x - offset) (Z.shiftl (rc x) offset)
    else if offset <? 0 then RF (rs x) (rexp x - offset) (Z.shiftr (rc x) (- offset))
    else x
  else
    if offset >? 0 then RF (rs x) (rexp x - offset) (Z.shiftr (rc x) offset)
    else if offset <? 0 then RF (rs x) (rexp x - offset) (Z.shiftl (rc x) (- offset))
    else x.
Definition mpf_normalize (f : mpffmt) (x : fl) : fl :=
  match x with FFin r => FFin (mpf_normalize_rf f r) | _ => x end.
Definition mpf_canonical (f : mpffmt) (x : fl) : bool :=
  match x with FFin r => rexp r =? f_expmin f | _ => 0 =? f_expmin f end.
Definition mpf_minval (f : mpffmt) (s : bool) : fl := FFin (RF s (f_expmin f) 1).

(* ================================================================ MPBFixedFormat (mpb_fixed.py) *)
Record mpbffmt := MPBFF { g_nmin : Z; g_pos : rf; g_neg : rf; g_nan : bool; g_inf : bool; g_negzero : bool }.
Definition g_mpf (f : mpbffmt) : mpffmt := MPFF (g_nmin f) (g_nan f) (g_inf f) (g_negzero f).
Definition g_pos_ord (f : mpbffmt) : Z := mpf_to_ord_rf (g_mpf f) (g_pos f).
Definition g_neg_ord (f : mpbffmt) : Z := mpf_to_ord_rf (g_mpf f) (g_neg f).
Definition mpbf_ctor_ok (f : mpbffmt) : bool :=
  negb (rf_is_negative (g_pos f)) && is_more_significant (g_pos f) (g_nmin f) &&
  negb (rf_is_positive (g_neg f)) && is_more_significant (g_neg f) (g_nmin f).

(* MPBFixedFormat.representable_in *)
Definition mpbf_repr (f : mpbffmt) (x : fl) : bool :=
  if negb (mpf_repr (g_mpf f) x) then false
  else match x with
       | FFin r =>
           if is_zero r then true
           else if rs r then rf_leb (g_neg f) r else rf_leb r (g_pos f)
       | _ => true
       end.

Definition mpbf_to_ord (f : mpbffmt) (x : fl) (infval : bool) : result Z :=
  if negb (mpbf_repr f x) then Err TypeErr
  else match x with
       | FNaN _ => Err ValueErr
       | FInf s => if negb infval then Err ValueErr
                   else if s then Ok (g_neg_ord f - 1) else Ok (g_pos_ord f + 1)
       | FFin _ => mpf_to_ord (g_mpf f) x false
       end.

Definition mpbf_from_ord (f : mpbffmt) (o : Z) (infval : bool) : result fl :=
  let pos_maxord := if infval then g_pos_ord f + 1 else g_pos_ord f in
  let neg_maxord := if infval then g_neg_ord f - 1 else g_neg_ord f in
  if (o >? pos_maxord) || (o <? neg_maxord) then Err ValueErr
  else if o >? g_pos_ord f then Ok (FInf false)
  else if o <? g_neg_ord f then Ok (FInf true)
  else mpf_from_ord (g_mpf f) o false.

Definition mpbf_normalize (f : mpbffmt) (x : fl) : result fl :=
  if negb (mpbf_repr f x) then Err TypeErr else Ok (mpf_normalize (g_mpf f) x).
Definition mpbf_canonical (f : mpbffmt) (x : fl) : result bool :=
  if negb (mpbf_repr f x) then Err TypeErr else Ok (mpf_canonical (g_mpf f) x).
Definition mpbf_minval (f : mpbffmt) (s : bool) : result fl :=
  if s && negb (rf_is_negative (g_neg f)) then Err ValueErr else Ok (mpf_minval (g_mpf f) s).
Definition mpbf_maxval (f : mpbffmt) (s : bool) : result fl :=
  if s then (if negb (rf_is_negative (g_neg f)) then Err ValueErr else Ok (FFin (g_neg f)))
  else Ok (FFin (g_pos f)).
Definition mpbf_infval (f : mpbffmt) (s : bool) : result fl :=
  bind (next_away (if s then g_neg f else g_pos f) (g_nmin f) None) (fun y => Ok (FFin y)).
Definition mpbf_largest (f : mpbffmt) : result fl := mpbf_maxval f false.
Definition mpbf_smallest (f : mpbffmt) : result fl :=
  if rf_is_negative (g_neg f) then mpbf_maxval f true else Ok (FFin (RF false 0 0)).

(* ================================================================ FixedFormat (fixed.py), SMFixedFormat (sm_fixed.py) *)
Record fixfmt := FIXF { x_signed : bool; x_scale : Z; x_nbits : Z }.
Definition fix_ctor_ok (f : fixfmt) : bool := if x_signed f then 2 <=? x_nbits f else 1 <=? x_nbits f.
(* _fixed_to_mpb_fixed *)
Definition fix_mpbf (f : fixfmt) : mpbffmt :=
  if x_signed f then
    MPBFF (x_scale f - 1) (RF false (x_scale f) (bitmask (x_nbits f - 1)))
          (RF true (x_scale f) (Z.shiftl 1 (x_nbits f - 1))) false false false
  else
    MPBFF (x_scale f - 1) (RF false (x_scale f) (bitmask (x_nbits f))) (RF false 0 0) false false false.

(* x.c shifted to the format's scale (encode of both fixed formats) *)
Definition fix_scaled (scale : Z) (r : rf) : Z :=
  if rc r =? 0 then 0
  else let offset := rexp r - scale in
       if offset >=? 0 then Z.shiftl (rc r) offset else Z.shiftr (rc r) (- offset).

(* FixedFormat.encode *)
Definition fix_encode (f : fixfmt) (x : fl) : result Z :=
  if negb (mpbf_repr (fix_mpbf f) x) then Err ValueErr
  else match x with
       | FFin r =>
           let c0 := fix_scaled (x_scale f) r in
           let c := if negb (rc r =? 0) && x_signed f && rs r then Z.shiftl 1 (x_nbits f) - c0 else c0 in
           if c >? bitmask (x_nbits f) then Err OverflowErr else Ok c
       | _ => Err ValueErr
       end.

(* FixedFormat.decode *)
Definition fix_decode (f : fixfmt) (b : Z) : result fl :=
  if (b <? 0) || (b >=? Z.shiftl 1 (x_nbits f)) then Err ValueErr
  else if x_signed f then
    if Z.land b (Z.shiftl 1 (x_nbits f - 1)) =? 0 then Ok (FFin (RF false (x_scale f) b))
    else Ok (FFin (RF true (x_scale f) (Z.shiftl 1 (x_nbits f) - b)))
  else Ok (FFin (RF false (x_scale f) b)).

Record smfmt := SMF { m_scale : Z; m_nbits : Z }.
Definition sm_ctor_ok (f : smfmt) : bool := 2 <=? m_nbits f.
Definition sm_mpbf (f : smfmt) : mpbffmt :=
  MPBFF (m_scale f - 1) (RF false (m_scale f) (bitmask (m_nbits f - 1)))
        (RF true (m_scale f) (bitmask (m_nbits f - 1))) false false true.

(* SMFixedFormat.encode *)
Definition sm_encode (f : smfmt) (x : fl) : result Z :=
  if negb (mpbf_repr (sm_mpbf f) x) then Err ValueErr
  else match x with
       | FFin r =>
           let sbit := if rs r then 1 else 0 in
           Ok (Z.lor (Z.shiftl sbit (m_nbits f - 1)) (fix_scaled (m_scale f) r))
       | _ => Err ValueErr
       end.

(* SMFixedFormat.decode *)
Definition sm_decode (f : smfmt) (b : Z) : result fl :=
  if (b <? 0) || (b >=? Z.shiftl 1 (m_nbits f)) then Err ValueErr
  else
    let s := negb (Z.land (Z.shiftr b (m_nbits f - 1)) 1 =? 0) in
    Ok (FFin (RF s (m_scale f) (Z.land b (bitmask (m_nbits f - 1))))).

(* ================================================================ EFloatFormat (efloat.py) *)
Inductive nan_kind := NK_IEEE | NK_MAXVAL | NK_NEGZERO | NK_NONE.
Definition nan_kind_eqb (a b : nan_kind) : bool :=
  match a, b with
  | NK_IEEE, NK_IEEE | NK_MAXVAL, NK_MAXVAL | NK_NEGZERO, NK_NEGZERO | NK_NONE, NK_NONE => true
  | _, _ => false
  end.

Record efmt := EF { e_es : Z; e_nbits : Z; e_inf : bool; e_kind : nan_kind; e_eoffset : Z }.

(* _format_is_valid *)
Definition format_is_valid (es nbits : Z) (enable_inf : bool) (k : nan_kind) : bool :=
  if nbits <? 1 then false
  else if (es <? 0) || (es >=? nbits) then false
  else
    let p := nbits - es in
    match k with
    | NK_IEEE => if es =? 0 then false else if enable_inf && (p =? 1) then false else true
    | NK_MAXVAL =>
        if es =? 0 then (if (p =? 1) || (enable_inf && (p =? 2)) then false else true)
        else if (es =? 1) && enable_inf && (p =? 1) then false else true
    | NK_NEGZERO | NK_NONE => if (es =? 0) && (p =? 1) && enable_inf then false else true
    end.

(* _has_nonzero *)
Definition has_nonzero (nbits : Z) (enable_inf : bool) (k : nan_kind) : bool :=
  if nbits >? 2 then true
  else if nbits =? 1 then false
  else negb enable_inf && (nan_kind_eqb k NK_NEGZERO || nan_kind_eqb k NK_NONE).

(* _binade_max *)
Definition binade_max (p emin e : Z) : rf :=
  if e >=? emin then RF false (e - p + 1) (bitmask p)
  else RF false (emin - p + 1) (Z.shiftr (bitmask p) (emin - e)).

(* RealFloat.next_towards_zero(p=p, n=n) *)
Definition next_towards_zero (x : rf) (p n : Z) : result rf :=
  if rc x =? 0 then Err ValueErr else next_towards x n (Some p).

(* _ext_to_mpb_fmt *)
Definition ext_to_mpb (f : efmt) : result mpbfmt :=
  let es := e_es f in
  let p := e_nbits f - es in
  let ebias := if es =? 0 then 0 else bitmask (es - 1) in
  let emax0 := if es =? 0 then -1 else ebias in
  let emin0 := 1 - ebias in
  let emax := emax0 + e_eoffset f in
  let emin := emin0 + e_eoffset f in
  let nmin := emin - p in
  let step (r : result rf) := bind r (fun m => next_towards_zero m p nmin) in
  let maxval : result rf :=
    match e_kind f with
    | NK_IEEE => Ok (binade_max p emin emax)
    | NK_MAXVAL =>
        if p =? 1 then
          (if e_inf f then Ok (binade_max p emin (emax - 1)) else Ok (binade_max p emin emax))
        else if (p =? 2) && e_inf f then Ok (binade_max p emin emax)
        else if e_inf f then step (step (Ok (binade_max p emin (emax + 1))))
        else step (Ok (binade_max p emin (emax + 1)))
    | NK_NEGZERO | NK_NONE =>
        if p =? 1 then
          (if e_inf f then Ok (binade_max p emin emax) else Ok (binade_max p emin (emax + 1)))
        else if e_inf f then step (Ok (binade_max p emin (emax + 1)))
        else Ok (binade_max p emin (emax + 1))
    end in
  bind maxval (fun mv =>
    let mv := if is_zero mv then RF false emin 0 else mv in
    Ok (MPBF p emin mv (RF true (rexp mv) (rc mv)) true true)).

(* EFloatFormat.__init__: ValueError for an invalid parameter tuple *)
Definition ef_ctor (f : efmt) : result mpbfmt :=
  if negb (format_is_valid (e_es f) (e_nbits f) (e_inf f) (e_kind f)) then Err ValueErr
  else bind (ext_to_mpb f) (fun m => if mpb_ctor_ok m then Ok m else Err ValueErr).

Definition ef_valid (f : efmt) : bool := match ef_ctor f with Ok _ => true | Err _ => false end.

(* the precomputed _mpb_fmt (a dummy for invalid tuples, which every entry point rejects) *)
Definition ef_mpb (f : efmt) : mpbfmt :=
  match ef_ctor f with Ok m => m | Err _ => MPBF 1 0 (RF false 0 0) (RF true 0 0) true true end.

Definition ef_pmax (f : efmt) : Z := b_pmax (ef_mpb f).
Definition ef_emin (f : efmt) : Z := b_emin (ef_mpb f).
Definition ef_emax (f : efmt) : Z := b_emax (ef_mpb f).
Definition ef_expmin (f : efmt) : Z := b_expmin (ef_mpb f).
Definition ef_expmax (f : efmt) : Z := b_expmax (ef_mpb f).
Definition ef_nmin (f : efmt) : Z := b_nmin (ef_mpb f).
Definition ef_m (f : efmt) : Z := ef_pmax f - 1.
Definition ef_ebias (f : efmt) : Z := ef_emax f - e_eoffset f.
Definition ef_has_nonzero (f : efmt) : bool := has_nonzero (e_nbits f) (e_inf f) (e_kind f).

(* EFloatFormat.representable_in, exactly as coded: NaN and the infinities
   fall through to the final `return self.has_nonzero()` *)
Definition ef_repr (f : efmt) (x : fl) : bool :=
  if fx_repr fx && fl_is_nar x then
    (* fixes/C16-efloat-representable-nar.diff *)
    match x with FInf _ => e_inf f | _ => negb (nan_kind_eqb (e_kind f) NK_NONE) end
  else
  if (match x with FInf _ => negb (e_inf f) | FNaN _ => nan_kind_eqb (e_kind f) NK_NONE | _ => false end) then false
  else if negb (mpb_repr (ef_mpb f) x) then false
  else if fl_is_zero x then negb (fl_s x && nan_kind_eqb (e_kind f) NK_NEGZERO)
  else ef_has_nonzero f.

(* EFloatFormat.encode *)
Definition ef_encode (f : efmt) (x : fl) : result Z :=
  if negb (ef_repr f x) then Err ValueErr
  else
    let es := e_es f in
    let m := ef_m f in
    let sbit :=
      (* fixes/C16-efloat-encode-negzero-nan.diff: the NEG_ZERO NaN code has the sign bit set *)
      if fx_enc_nan fx && fl_isnan x && nan_kind_eqb (e_kind f) NK_NEGZERO then 1
      else if fl_s x then 1 else 0 in
    let '(ebits, mbits) :=
      match x with
      | FNaN _ =>
          match e_kind f with
          | NK_IEEE => if e_inf f then (bitmask es, Z.shiftl 1 (m - 1)) else (bitmask es, 0)
          | NK_MAXVAL => (bitmask es, bitmask m)
          | NK_NEGZERO => (0, 0)
          | NK_NONE => (0, 0)   (* unreachable: NaN is not representable *)
          end
      | FInf _ =>
          match e_kind f with
          | NK_IEEE => (bitmask es, 0)
          | NK_MAXVAL =>
              if ef_pmax f =? 1 then
                (* fixes/C16-efloat-encode-inf-p1.diff: no mantissa field when p = 1 *)
                (bitmask es - 1, if fx_enc_inf fx then 0 else 1)
              else (bitmask es, bitmask m - 1)
          | NK_NEGZERO | NK_NONE => (bitmask es, bitmask m)
          end
      | FFin r =>
          if is_zero r then (0, 0)
          else if rf_e r <=? ef_emin f then (0, shift_by (rc r) (rexp r - ef_expmin f))
          else (rf_e r - ef_emin f + 1,
                Z.land (shift_by (rc r) (- (rf_p r - ef_pmax f))) (bitmask (ef_pmax f - 1)))
      end in
    Ok (Z.lor (Z.lor (Z.shiftl sbit (e_nbits f - 1)) (Z.shiftl ebits m)) mbits).

(* EFloatFormat.decode *)
Definition ef_decode (f : efmt) (b : Z) : result fl :=
  if (b <? 0) || (b >=? Z.shiftl 1 (e_nbits f)) then Err TypeErr
  else
    let m := ef_m f in
    let emask := bitmask (e_es f) in
    let sbit := Z.shiftr b (e_nbits f - 1) in
    let ebits := Z.land (Z.shiftr b m) emask in
    let mbits := Z.land b (bitmask m) in
    let s := negb (sbit =? 0) in
    let expmin := ef_expmin f in
    let finite :=
      if ebits =? 0 then FFin (RF s expmin mbits)
      else FFin (RF s (expmin + (ebits - 1)) (Z.lor (Z.shiftl 1 m) mbits)) in
    match e_kind f with
    | NK_IEEE =>
        if ebits =? 0 then Ok (FFin (RF s expmin mbits))
        else if ebits =? emask then
          (if e_inf f && (mbits =? 0) then Ok (FInf s) else Ok (FNaN s))
        else Ok finite
    | NK_MAXVAL =>
        let ord_bits := Z.lor (Z.shiftl ebits m) mbits in
        let nan_bits := bitmask (e_nbits f - 1) in
        if ord_bits =? nan_bits then Ok (FNaN s)
        else if e_inf f && (ord_bits =? nan_bits - 1) then Ok (FInf s)
        else Ok finite
    | NK_NEGZERO | NK_NONE =>
        let ord_bits := Z.lor (Z.shiftl ebits m) mbits in
        if e_inf f && (ord_bits =? bitmask (e_nbits f - 1)) then Ok (FInf s)
        else if (ebits =? 0) && (mbits =? 0) && s && nan_kind_eqb (e_kind f) NK_NEGZERO then Ok (FNaN s)
        else Ok finite
    end.

Definition ef_to_ord (f : efmt) (x : fl) (infval : bool) : result Z :=
  if negb (ef_repr f x) then Err TypeErr else mpb_to_ord (ef_mpb f) x infval.
Definition ef_from_ord (f : efmt) (o : Z) (infval : bool) : result fl := mpb_from_ord (ef_mpb f) o infval.
Definition ef_normalize (f : efmt) (x : fl) : result fl :=
  if negb (ef_repr f x) then Err TypeErr else mpb_normalize (ef_mpb f) x.
Definition ef_canonical (f : efmt) (x : fl) : result bool :=
  if negb (ef_repr f x) then Err TypeErr else mpb_canonical (ef_mpb f) x.
Definition ef_checked (f : efmt) (x : fl) : result fl := if ef_repr f x then Ok x else Err ValueErr.
Definition ef_zero (f : efmt) (s : bool) := ef_checked f (mps_zero (b_mps (ef_mpb f)) s).
Definition ef_minval (f : efmt) (s : bool) := ef_checked f (mps_minval (b_mps (ef_mpb f)) s).
Definition ef_max_subnormal (f : efmt) (s : bool) := ef_checked f (mps_max_subnormal (b_mps (ef_mpb f)) s).
Definition ef_min_normal (f : efmt) (s : bool) := ef_checked f (mps_min_normal (b_mps (ef_mpb f)) s).
Definition ef_maxval (f : efmt) (s : bool) := ef_checked f (mpb_maxval (ef_mpb f) s).
Definition ef_largest (f : efmt) := ef_maxval f false.
Definition ef_smallest (f : efmt) : result fl :=
  let x := mpb_maxval (ef_mpb f) true in
  if fl_is_zero x then ef_zero f false else Ok x.
Definition ef_infval (f : efmt) (s : bool) : result fl := mpb_infval (ef_mpb f) s.

(* ================================================================ ExpFormat (exponential.py) *)
Record expfmt := EXPF { p_nbits : Z; p_eoffset : Z }.
Definition exp_ctor_ok (f : expfmt) : bool := 1 <=? p_nbits f.
(* _exponent_bounds *)
Definition exp_emax (f : expfmt) : Z := bitmask (p_nbits f - 1) + p_eoffset f.
Definition exp_emin (f : expfmt) : Z := (1 - bitmask (p_nbits f - 1)) + p_eoffset f - 1.
Definition exp_ebias (f : expfmt) : Z := bitmask (p_nbits f - 1) - p_eoffset f.

(* MPFloatFormat(1).representable_in on a finite non-zero value *)
Definition mp1_repr_rf (x : rf) : bool :=
  if is_zero x then true
  else if rf_p x <=? 1 then true
  else Z.land (rc x) (bitmask (rf_p x - 1)) =? 0.

(* ExpFormat.representable_in *)
Definition exp_repr (f : expfmt) (x : fl) : bool :=
  match x with
  | FNaN _ => true
  | FInf _ => false
  | FFin r =>
      if negb (mp1_repr_rf r) then false
      else if negb (rf_is_positive r) then false
      else negb ((rf_e r <? exp_emin f) || (rf_e r >? exp_emax f))
  end.

(* ExpFormat.encode / decode *)
Definition exp_encode (f : expfmt) (x : fl) : result Z :=
  if negb (exp_repr f x) then Err ValueErr
  else match x with
       | FNaN _ => Ok (bitmask (p_nbits f))
       | _ => Ok (fl_e x + exp_ebias f)
       end.
Definition exp_decode (f : expfmt) (b : Z) : result fl :=
  if (b <? 0) || (b >=? Z.shiftl 1 (p_nbits f)) then Err ValueErr
  else if b =? bitmask (p_nbits f) then Ok (FNaN false)
  else Ok (FFin (RF false (b - exp_ebias f) 1)).

Definition exp_to_ord (f : expfmt) (x : fl) (infval : bool) : result Z :=
  if negb (exp_repr f x) then Err ValueErr
  else if infval then Err ValueErr
  else match x with FFin r => Ok (rf_e r + exp_ebias f) | _ => Err ValueErr end.
Definition exp_from_ord (f : expfmt) (o : Z) (infval : bool) : result fl :=
  if infval then Err ValueErr
  else if (o <? 0) || (o >=? bitmask (p_nbits f)) then Err ValueErr
  else exp_decode f o.
(* MPFloatFormat(1).normalize *)
Definition exp_normalize (f : expfmt) (x : fl) : result fl :=
  if negb (exp_repr f x) then Err ValueErr
  else match x with
       | FNaN s => Ok (FNaN s)
       | FInf s => Ok (FInf s)
       | FFin r =>
           if rc r =? 0 then Ok (FFin (RF (rs r) 0 0))
           else bind (normalize r (Some 1) None) (fun y => Ok (FFin (RF (rs r) (rexp y) (rc y))))
       end.
(* MPFloatFormat(1).canonical_under *)
Definition exp_canonical (f : expfmt) (x : fl) : result bool :=
  if negb (exp_repr f x) then Err ValueErr
  else match x with FFin r => Ok (rf_p r =? 1) | _ => Ok true end.
(* ExpFormat.infval: maxval.next_away_zero(p=1) *)
Definition exp_infval (f : expfmt) (s : bool) : result fl :=
  if s then Err ValueErr
  else let mv := RF false (exp_emax f) 1 in
       bind (next_away mv (rf_n mv) (Some 1)) (fun y => Ok (FFin y)).
Definition exp_minval (f : expfmt) (s : bool) : result fl :=
  if s then Err ValueErr else Ok (FFin (RF false (exp_emin f) 1)).
Definition exp_maxval (f : expfmt) (s : bool) : result fl :=
  if s then Err ValueErr else Ok (FFin (RF false (exp_emax f) 1)).

(* ================================================================ OrdinalFormat stepping (format.py) *)
Record ordops := ORDOPS {
  oo_repr : fl -> bool;
  oo_to_ord : fl -> bool -> result Z;
  oo_from_ord : Z -> bool -> result fl }.

Definition fl_eq_zero (x : fl) : bool := fl_is_zero x.          (* `x == 0` *)

(* OrdinalFormat._next_towards / _next_away *)
Definition ord_step (F : ordops) (x y : fl) (allow_inf towards : bool) : result fl :=
  match y with
  | FInf ys =>
      let step := if towards then (if ys then -1 else 1) else (if ys then 1 else -1) in
      bind (oo_to_ord F x false) (fun xo => oo_from_ord F (xo + step) allow_inf)
  | _ =>
      bind (oo_to_ord F x false) (fun xo =>
      bind (oo_to_ord F y false) (fun yo =>
        let step := if towards then (if xo <? yo then 1 else -1) else (if xo <? yo then -1 else 1) in
        oo_from_ord F (xo + step) allow_inf))
  end.

Definition ord_guard (F : ordops) (x : fl) (allow_inf : bool) : bool :=
  oo_repr F x && negb (fl_isnan x) && negb (negb allow_inf && fl_isinf x).

(* OrdinalFormat.next_up / next_down / next_towards_zero / next_away_zero *)
Definition ord_next_up (F : ordops) (x : fl) (allow_inf : bool) : result fl :=
  if negb (ord_guard F x allow_inf) then Err ValueErr
  else if fl_isinf x && negb (fl_s x) then Err ValueErr
  else ord_step F x (FInf false) allow_inf true.
Definition ord_next_down (F : ordops) (x : fl) (allow_inf : bool) : result fl :=
  if negb (ord_guard F x allow_inf) then Err ValueErr
  else if fl_isinf x && fl_s x then Err ValueErr
  else ord_step F x (FInf true) allow_inf true.
Definition ord_next_towards_zero (F : ordops) (x : fl) (allow_inf : bool) : result fl :=
  if negb (ord_guard F x allow_inf) then Err ValueErr
  else if fl_eq_zero x then Err ValueErr
  else bind (oo_from_ord F 0 false) (fun z => ord_step F x z allow_inf true).
Definition ord_next_away_zero (F : ordops) (x : fl) (allow_inf : bool) : result fl :=
  if negb (ord_guard F x allow_inf) then Err ValueErr
  else if fl_eq_zero x then Err ValueErr
  else bind (oo_from_ord F 0 false) (fun z => ord_step F x z allow_inf false).

Definition mps_ops (f : mpsfmt) := ORDOPS (mps_repr f) (mps_to_ord f) (mps_from_ord f).
Definition mpb_ops (f : mpbfmt) := ORDOPS (mpb_repr f) (mpb_to_ord f) (mpb_from_ord f).
Definition mpf_ops (f : mpffmt) := ORDOPS (mpf_repr f) (mpf_to_ord f) (mpf_from_ord f).
Definition mpbf_ops (f : mpbffmt) := ORDOPS (mpbf_repr f) (mpbf_to_ord f) (mpbf_from_ord f).
Definition ef_ops (f : efmt) := ORDOPS (ef_repr f) (ef_to_ord f) (ef_from_ord f).
Definition exp_ops (f : expfmt) := ORDOPS (exp_repr f) (exp_to_ord f) (exp_from_ord f).

End Model.
