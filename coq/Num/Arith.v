(* Model of fpy2/ops.py + number/engine/{gmp,real}.py for the operations of
   property C02: the mathematically exact result (a dyadic number, a rational,
   or an IEEE special) followed by ONE rounding under the context.
   Definitions only.

   The implementation reaches the same value through an MPFR evaluation
   rounded toward zero with a sticky bit (round to odd) at >= 2 extra digits;
   that detour is value-preserving by theorem N2 (Num/RoundOdd.v), so the
   model goes straight from the exact value to the context rounding; for
   non-dyadic exact values (quotients, square roots) the model makes the
   round-to-odd step explicit (rto_q, rto_sqrt) at a generous precision. *)
From Coq Require Import ZArith List Bool.
From FpyV Require Import Num.RealFloat Num.Float Num.CtxDef Num.Ctx.
Import ListNotations.
Open Scope Z_scope.

Inductive aop :=
  | AAdd | ASub | AMul | ADiv | AFma | ASqrt | ANeg | AFabs | ACopysign | AFdim
  | AFloor | ACeil | ATrunc | ARoundint | AFmod | ARemainder | AMod | ANearbyint.

(* exact values: a Float, or a non-dyadic rational (-1)^s * num/den, num, den > 0 *)
Inductive xv := XFl (x : fl) | XQ (s : bool) (num den : Z).

(* ---------------------------------------------------------------- round to odd of a rational *)
(* magnitude num/den rounded to odd at absolute position pos (lsb = 2^pos) *)
Definition rto_q (s : bool) (num den pos : Z) : rf :=
  let N := if pos <? 0 then num * 2 ^ (- pos) else num in
  let D := if pos <? 0 then den else den * 2 ^ pos in
  let q := N / D in
  let c := if N mod D =? 0 then q else if Z.even q then q + 1 else q in
  RF s pos c.

(* a position at least `extra` digits finer than what (max_p, min_n) keep *)
Definition fine_pos (e0 : Z) (max_p min_n : option Z) (extra : Z) : Z :=
  let a := match max_p with Some p => e0 - 1 - p - extra | None => e0 + 1 end in
  let b := match min_n with Some n => n - extra | None => e0 + 1 end in
  Z.min (Z.min a b) (e0 - 4 - extra).

(* Context.round_params *)
Definition ctx_round_params (c : ctx) : option Z * option Z :=
  let kk k := match k with Some k => k | None => 0 end in
  match c with
  | CReal => (None, None)
  | CMPFloat p _ k _ => (Some (p + kk k), None)
  | CMPSFloat p emin _ k _ => (Some (p + kk k), Some (mps_nmin p emin - kk k))
  | CMPBFloat p emin _ _ _ _ k _ => (Some (p + kk k), Some (mps_nmin p emin - kk k))
  | CEFloat es nbits ei nk eo _ _ k _ _ =>
      match ext_to_mpb es nbits ei nk eo with
      | Ok (p, emin, _) => (Some (p + kk k), Some (mps_nmin p emin - kk k))
      | Err _ => (None, None)
      end
  | CMPFixed nmin _ k _ _ => (None, Some (nmin - kk k))
  | CMPBFixed nmin _ _ _ _ k _ _ => (None, Some (nmin - kk k))
  | CFixed _ scale _ _ _ k _ _ => (None, Some (scale - 1 - kk k))
  | CSMFixed scale _ _ _ k _ _ => (None, Some (scale - 1 - kk k))
  | CExp _ _ _ _ _ => (Some 1, None)
  end.

Definition rto_of_q (c : ctx) (s : bool) (num den : Z) : rf :=
  let e0 := bitlen num - bitlen den in
  let '(mp, mn) := ctx_round_params c in
  rto_q s num den (fine_pos e0 mp mn 4).

(* sqrt of c * 2^exp (c > 0) rounded to odd at position pos, pos <= exp/2 *)
Definition rto_sqrt (c exp pos : Z) : rf :=
  let N := c * 2 ^ (exp - 2 * pos) in
  let r := Z.sqrt N in
  RF false pos (if r * r =? N then r else if Z.even r then r + 1 else r).

Definition rto_of_sqrt (cx : ctx) (x : rf) : rf :=
  let e := rf_e x in
  let '(mp, mn) := ctx_round_params cx in
  let p1 := fine_pos (e / 2) mp mn 4 in
  let pos := Z.min p1 (rexp x / 2 - 1) in
  rto_sqrt (rc x) (rexp x) pos.

(* ---------------------------------------------------------------- exact operations *)
Definition reduce_q (s : bool) (num den : Z) : xv :=
  (* num, den > 0; dyadic iff den / gcd is a power of two *)
  let g := Z.gcd num den in
  let n := num / g in let d := den / g in
  if d =? 2 ^ (Z.log2 d) then XFl (FFin (RF s (- Z.log2 d) n)) else XQ s n d.

Definition exact_div (x y : fl) : xv :=
  match x, y with
  | FNaN _, _ | _, FNaN _ => XFl (FNaN false)
  | FInf s1, FInf _ => XFl (FNaN false)
  | FInf s1, FFin b => XFl (FInf (xorb s1 (rs b)))
  | FFin a, FInf s2 => XFl (FFin (RF (xorb (rs a) s2) 0 0))
  | FFin a, FFin b =>
      let s := xorb (rs a) (rs b) in
      if is_zero b then (if is_zero a then XFl (FNaN false) else XFl (FInf s))
      else if is_zero a then XFl (FFin (RF s 0 0))
      else
        (* (ca * 2^ea) / (cb * 2^eb) *)
        let d := rexp a - rexp b in
        let num := if d >=? 0 then rc a * 2 ^ d else rc a in
        let den := if d >=? 0 then rc b else rc b * 2 ^ (- d) in
        reduce_q s num den
  end.

Definition exact_sqrt (x : fl) : fl + rf :=   (* inl: exact special / zero; inr: operand of a real sqrt *)
  match x with
  | FNaN _ => inl (FNaN false)
  | FInf s => if s then inl (FNaN false) else inl (FInf false)
  | FFin a => if is_zero a then inl (FFin (RF (rs a) 0 0))
              else if rs a then inl (FNaN false) else inr a
  end.

Definition fl_copysign (x y : fl) : fl := fl_with_sign (fl_s y) x.

Definition fl_gt (x y : fl) : bool := match fl_compare x y with Some Gt => true | _ => false end.

Definition exact_fdim (x y : fl) : fl :=
  if fl_isnan x || fl_isnan y then FNaN false
  else if fl_gt x y then fl_sub x y else FFin (RF false 0 0).

(* round to an integer with a fixed mode (RealEngine._real_rint) *)
Definition exact_rint (rm : rmode) (x : fl) : result fl :=
  match x with
  | FFin a => bind (rf_round a None (Some (-1)) rm false) (fun yf => Ok (FFin (fst yf)))
  | _ => Ok x
  end.

(* integers on a common exponent *)
Definition align (a b : rf) : Z * Z * Z :=
  let e := Z.min (rexp a) (rexp b) in
  (rf_m a * 2 ^ (rexp a - e), rf_m b * 2 ^ (rexp b - e), e).

Definition mk_signed (e m : Z) (zero_sign : bool) : rf :=
  if m =? 0 then RF zero_sign 0 0 else RF (m <? 0) e (Z.abs m).

(* C fmod: x - trunc(x/y)*y, sign of x *)
Definition exact_fmod (x y : fl) : fl :=
  match x, y with
  | FNaN _, _ | _, FNaN _ => FNaN false
  | FInf _, _ => FNaN false
  | FFin a, FInf _ => FFin a
  | FFin a, FFin b =>
      if is_zero b then FNaN false
      else if is_zero a then FFin a
      else let '(ma, mb, e) := align a b in
           FFin (mk_signed e (Z.rem ma mb) (rs a))
  end.

(* IEEE remainder: x - n*y, n = x/y rounded to nearest even *)
Definition exact_remainder (x y : fl) : fl :=
  match x, y with
  | FNaN _, _ | _, FNaN _ => FNaN false
  | FInf _, _ => FNaN false
  | FFin a, FInf _ => FFin a
  | FFin a, FFin b =>
      if is_zero b then FNaN false
      else if is_zero a then FFin a
      else let '(ma, mb, e) := align a b in
           let mb' := Z.abs mb in
           let q := ma / mb' in                  (* floor *)
           let r := ma - q * mb' in              (* 0 <= r < mb' *)
           let r' := if 2 * r <? mb' then r
                     else if 2 * r >? mb' then r - mb'
                     else if Z.even q then r else r - mb' in
           FFin (mk_signed e r' (rs a))
  end.

(* Python-style mod: x - floor(x/y)*y (gmp.MPFREngine._mod) *)
Definition exact_mod (x y : fl) : fl :=
  match x, y with
  | FNaN _, _ | _, FNaN _ => FNaN false
  | FInf _, _ => FNaN false
  | FFin a, FInf s2 =>
      if is_zero a then FFin (RF s2 (rexp a) (rc a))
      else if eqb (rs a) s2 then FFin a else FInf s2
  | FFin a, FFin b =>
      if is_zero b then FNaN false
      else if is_zero a then FFin (RF (rs b) (rexp a) (rc a))
      else let '(ma, mb, e) := align a b in
           FFin (mk_signed e (ma mod mb) false)
  end.

(* the exact result of an operation *)
Definition exact_op (op : aop) (cx : ctx) (args : list fl) : result xv :=
  match op, args with
  | AAdd, [x; y] => Ok (XFl (fl_add x y))
  | ASub, [x; y] => Ok (XFl (fl_sub x y))
  | AMul, [x; y] => Ok (XFl (fl_mul x y))
  | ADiv, [x; y] => Ok (exact_div x y)
  | AFma, [x; y; z] => Ok (XFl (fl_add (fl_mul x y) z))
  | ASqrt, [x] => match exact_sqrt x with
                  | inl v => Ok (XFl v)
                  | inr a => Ok (XFl (FFin (rto_of_sqrt cx a)))
                  end
  | ANeg, [x] => Ok (XFl (fl_neg x))
  | AFabs, [x] => Ok (XFl (fl_abs x))
  | ACopysign, [x; y] => Ok (XFl (fl_copysign x y))
  | AFdim, [x; y] => Ok (XFl (exact_fdim x y))
  | AFloor, [x] => bind (exact_rint RTN x) (fun v => Ok (XFl v))
  | ACeil, [x] => bind (exact_rint RTP x) (fun v => Ok (XFl v))
  | ATrunc, [x] => bind (exact_rint RTZ x) (fun v => Ok (XFl v))
  | ARoundint, [x] => bind (exact_rint RNA x) (fun v => Ok (XFl v))
  | AFmod, [x; y] => Ok (XFl (exact_fmod x y))
  | ARemainder, [x; y] => Ok (XFl (exact_remainder x y))
  | AMod, [x; y] => Ok (XFl (exact_mod x y))
  | _, _ => Err TypeErr
  end.

(* one rounding of an exact value; under REAL a rational stays a rational;
   rb = the integer drawn by a stochastic context (ignored otherwise) *)
Definition round_xv_rb (c : ctx) (v : xv) (rb : Z) : result (xv * flags) :=
  match v with
  | XFl x => bind (ctx_round c x None rb) (fun r => Ok (XFl (fst r), snd r))
  | XQ s n d =>
      match c with
      | CReal => Ok (XQ s n d, no_flags)
      | _ => bind (ctx_round c (FFin (rto_of_q c s n d)) None rb) (fun r => Ok (XFl (fst r), snd r))
      end
  end.

Definition round_xv (c : ctx) (v : xv) : result (xv * flags) := round_xv_rb c v 0.

Definition is_rint (op : aop) : bool :=
  match op with AFloor | ACeil | ATrunc | ARoundint => true | _ => false end.

Definition set_inexact (f : flags) : flags :=
  FL (f_invalid f) (f_divzero f) (f_overflow f) (f_tiny_pre f) (f_tiny_post f) true (f_carry f).

Definition arith_rb (op : aop) (c : ctx) (args : list fl) (rb : Z) : result (xv * flags) :=
  match op, args with
  | ANearbyint, [x] =>
      (* ops.nearbyint = Context.round_integer: ONE rounding, at the integer position, by the context's own mode *)
      bind (ctx_round c x (Some (-1)) rb) (fun r => Ok (XFl (fst r), snd r))
  | _, _ =>
  bind (exact_op op c args) (fun v =>
    bind (round_xv_rb c v rb) (fun r =>
      (* ops.ceil/floor/trunc/roundint: inexact iff the finite result differs from the operand *)
      match is_rint op, args, fst r with
      | true, [x], XFl (FFin y) =>
          match fl_compare (FFin y) x with
          | Some Eq => Ok r
          | _ => Ok (fst r, set_inexact (snd r))
          end
      | _, _, _ => Ok r
      end))
  end.

Definition arith (op : aop) (c : ctx) (args : list fl) : result (xv * flags) := arith_rb op c args 0.
