(* Property C16: the layout of the IEEE formats is Flocq's
   IEEE754.Bits.binary_float_of_bits (an independent formalisation of the
   IEEE 754 interchange encoding), for every field width. *)
From Coq Require Import ZArith List Bool Lia Reals.
From Flocq Require Import Core.Zaux Core.Raux Core.Defs Core.Float_prop IEEE754.Binary IEEE754.Bits.
From FpyV Require Import Num.RealFloat Num.RealFloatProofs Num.Float Num.Formats Num.Layout Num.FormatsProofs.
Open Scope Z_scope.

(* our values as Flocq's untyped floats; FPy's NaN has a sign and no payload *)
Definition ff_of_fl (x : fl) : full_float :=
  match x with
  | FNaN s => F754_nan s 1
  | FInf s => F754_infinity s
  | FFin r => match rc r with Zpos p => F754_finite (rs r) p (rexp r) | _ => F754_zero (rs r) end
  end.

Definition ff_erase_payload (x : full_float) : full_float :=
  match x with F754_nan s _ => F754_nan s 1 | _ => x end.

Definition ieee_fmt (mw ew : Z) : efmt := EF ew (mw + ew + 1) true NK_IEEE 0.

Lemma Zeq_bool_eqb x y : Zeq_bool x y = (x =? y).
Proof.
  destruct (Z.eqb_spec x y) as [->|N].
  - apply Zeq_is_eq_bool. reflexivity.
  - destruct (Zeq_bool x y) eqn:E; [|reflexivity]. apply Zeq_bool_eq in E. contradiction.
Qed.

Theorem ieee_layout_flocq mw ew b : 0 < mw -> 0 < ew -> 0 <= b < 2 ^ (mw + ew + 1) ->
  ff_of_fl (layout_value (ieee_fmt mw ew) b) = ff_erase_payload (binary_float_of_bits_aux mw ew b).
Proof.
  intros Hmw Hew Hb.
  unfold binary_float_of_bits_aux, split_bits, layout_value, ieee_fmt. cbn [e_nbits e_es e_inf e_kind e_eoffset].
  replace (mw + ew + 1 - 1 - ew) with mw by lia.
  replace (mw + ew + 1 - 1) with (mw + ew) by lia.
  pose proof (pow2_pos mw ltac:(lia)) as PM. pose proof (pow2_pos ew ltac:(lia)) as PE.
  assert (Hpw : 2 ^ (mw + ew) = 2 ^ mw * 2 ^ ew) by (apply Z.pow_add_r; lia).
  assert (Hpw1 : 2 ^ (mw + ew + 1) = 2 * (2 ^ mw * 2 ^ ew)).
  { rewrite Z.pow_add_r by lia. rewrite Hpw. change (2 ^ 1) with 2. ring. }
  change (Zpower 2 mw) with (2 ^ mw). change (Zpower 2 ew) with (2 ^ ew).
  assert (Hs : (b / 2 ^ (mw + ew) =? 1) = Zle_bool (2 ^ mw * 2 ^ ew) b).
  { rewrite Hpw.
    assert (0 <= b / (2 ^ mw * 2 ^ ew) < 2) by (split; [apply Z.div_pos; nia|apply Z.div_lt_upper_bound; nia]).
    unfold Zle_bool. fold (Z.leb (2 ^ mw * 2 ^ ew) b).
    destruct (Z.eqb_spec (b / (2 ^ mw * 2 ^ ew)) 1) as [E|E], (Z.leb_spec (2 ^ mw * 2 ^ ew) b) as [L|L]; try reflexivity; exfalso.
    - assert (b / (2 ^ mw * 2 ^ ew) = 0) by (apply Z.div_small; lia). lia.
    - assert (1 <= b / (2 ^ mw * 2 ^ ew)) by (apply Z.div_le_lower_bound; nia). lia. }
  rewrite Hs. set (s := Zle_bool (2 ^ mw * 2 ^ ew) b).
  set (T := b mod 2 ^ mw). set (E := (b / 2 ^ mw) mod 2 ^ ew).
  assert (RT : 0 <= T < 2 ^ mw) by (apply Z.mod_pos_bound; lia).
  assert (RE : 0 <= E < 2 ^ ew) by (apply Z.mod_pos_bound; lia).
  clearbody T E s.
  destruct (Z.eqb_spec ew 0); [lia|].
  rewrite !Zeq_bool_eqb. unfold SpecFloat.emin.
  assert (2 <= 2 ^ ew) by (change 2 with (2 ^ 1) at 1; apply Z.pow_le_mono_r; lia).
  destruct (Z.eqb_spec E (2 ^ ew - 1)) as [E1|E1].
  - destruct (Z.eqb_spec E 0); [lia|]. simpl andb.
    destruct (Z.eqb_spec T 0) as [->|T0]; [reflexivity|].
    destruct T as [|p|p]; [exfalso; apply T0; reflexivity|reflexivity|exfalso; destruct RT as [RT _]; apply RT; reflexivity].
  - destruct (Z.eqb_spec E 0) as [E0|E0].
    + unfold ff_of_fl. cbn [rc rs rexp].
      destruct T as [|p|p]; [reflexivity| |exfalso; clear -RT; lia]. unfold ff_erase_payload. f_equal. clear; lia.
    + unfold ff_of_fl. cbn [rc rs rexp]. rewrite (Z.add_comm (2 ^ mw) T).
      destruct (T + 2 ^ mw) as [|p|p] eqn:Q; [exfalso; clear -Q RT PM; lia| |exfalso; clear -Q RT PM; lia]. unfold ff_erase_payload. f_equal. clear; lia.
Qed.

(* hence the real number a finite pattern denotes is Flocq's *)
Corollary ieee_layout_value_flocq mw ew b r : 0 < mw -> 0 < ew -> 0 <= b < 2 ^ (mw + ew + 1) ->
  layout_value (ieee_fmt mw ew) b = FFin r ->
  rf_wf r /\ R2R r = FF2R radix2 (binary_float_of_bits_aux mw ew b) /\
  (rc r = 0 -> binary_float_of_bits_aux mw ew b = F754_zero (rs r)).
Proof.
  intros Hmw Hew Hb L. pose proof (ieee_layout_flocq mw ew b Hmw Hew Hb) as H. rewrite L in H.
  unfold ff_of_fl in H. destruct r as [s e c]. cbn [rc rs rexp] in *.
  destruct c as [|p|p].
  - destruct (binary_float_of_bits_aux mw ew b); try discriminate. simpl in H. injection H as <-.
    split; [unfold rf_wf; simpl; lia|]. split; [|reflexivity].
    simpl. unfold R2R, rf_m. simpl. destruct s; apply F2R_0.
  - destruct (binary_float_of_bits_aux mw ew b); try discriminate. simpl in H. injection H as <- <- <-.
    split; [unfold rf_wf; simpl; lia|]. split; [|discriminate].
    unfold R2R, rf_m, FF2R. simpl. destruct s; reflexivity.
  - exfalso.
    unfold layout_value, ieee_fmt in L. cbn [e_nbits e_es e_inf e_kind e_eoffset] in L.
    pose proof (pow2_pos (mw + ew + 1 - 1 - ew) ltac:(lia)).
    pose proof (Z.mod_pos_bound b (2 ^ (mw + ew + 1 - 1 - ew)) ltac:(lia)).
    destruct (_ =? 2 ^ ew - 1) in L; [destruct (_ && _) in L; discriminate|].
    destruct (_ =? 0) in L; injection L as _ _ L; lia.
Qed.

(* and through the tie decode = layout: FPy's IEEE decoder is Flocq's *)
Corollary ieee_decode_flocq mw ew b : 0 < mw -> 0 < ew -> 0 <= b < 2 ^ (mw + ew + 1) ->
  ef_valid (ieee_fmt mw ew) = true ->
  exists x, ef_decode (ieee_fmt mw ew) b = Ok x /\
    ff_of_fl x = ff_erase_payload (binary_float_of_bits_aux mw ew b).
Proof.
  intros Hmw Hew Hb V. exists (layout_value (ieee_fmt mw ew) b). split.
  - apply ef_decode_layout; [exact V|exact Hb].
  - apply ieee_layout_flocq; assumption.
Qed.
