(* Float layer of C05: the special-value case analysis of Float.__add__,
   __mul__, __neg__, __pos__, __abs__, compare against IEEE 754 stated on
   extended reals. *)
From Coq Require Import ZArith List Bool Lia Reals.
From Flocq Require Import Core.Zaux Core.Raux Core.Defs Core.Float_prop.
From FpyV Require Import Num.RealFloat Num.RealFloatProofs Num.Float.
Open Scope Z_scope.

(* extended reals: the values Float denotes (the sign of zero is tracked by
   separate sign theorems) *)
Inductive xreal := XR (r : R) | XInf (s : bool) | XNaN.

Definition den (x : fl) : xreal :=
  match x with FFin r => XR (R2R r) | FInf s => XInf s | FNaN _ => XNaN end.

Definition fl_wf (x : fl) : Prop := match x with FFin r => rf_wf r | _ => True end.

(* IEEE 754 addition / multiplication on extended reals, written from the
   standard (6.1, 6.2, 7.2), independent of the model *)
Definition xadd (a b : xreal) : xreal :=
  match a, b with
  | XNaN, _ | _, XNaN => XNaN
  | XInf s, XInf t => if eqb s t then XInf s else XNaN       (* inf - inf invalid *)
  | XInf s, XR _ => XInf s
  | XR _, XInf t => XInf t
  | XR x, XR y => XR (x + y)
  end.

Definition xneg (a : xreal) : xreal :=
  match a with XR x => XR (- x) | XInf s => XInf (negb s) | XNaN => XNaN end.

Definition xabs (a : xreal) : xreal :=
  match a with XR x => XR (Rabs x) | XInf _ => XInf false | XNaN => XNaN end.

(* the sign of a product involving an infinity needs the sign of the finite
   operand, which for a zero is not defined: 0 * inf is invalid *)
Definition xmul (a b : xreal) (sa sb : bool) : xreal :=
  match a, b with
  | XNaN, _ | _, XNaN => XNaN
  | XInf _, XInf _ => XInf (xorb sa sb)
  | XInf _, XR y => if Req_EM_T y 0 then XNaN else XInf (xorb sa sb)
  | XR x, XInf _ => if Req_EM_T x 0 then XNaN else XInf (xorb sa sb)
  | XR x, XR y => XR (x * y)
  end.

Definition xcompare (a b : xreal) : option comparison :=
  match a, b with
  | XNaN, _ | _, XNaN => None
  | XInf s, XInf t => Some (if eqb s t then Eq else if s then Lt else Gt)
  | XInf s, XR _ => Some (if s then Lt else Gt)
  | XR _, XInf t => Some (if t then Gt else Lt)
  | XR x, XR y => Some (Rcompare x y)
  end.

Lemma R2R_eq0 r : rf_wf r -> (R2R r = 0%R <-> rc r = 0).
Proof.
  intros Hw. split.
  - intros H. unfold R2R in H. apply eq_0_F2R in H. unfold rf_m in H. destruct (rs r); lia.
  - apply R2R_zero.
Qed.

Theorem fl_add_denote x y : den (fl_add x y) = xadd (den x) (den y).
Proof.
  destruct x as [a|s|s], y as [b|t|t]; simpl; try reflexivity.
  - rewrite add_denote. reflexivity.
  - destruct (eqb s t); reflexivity.
Qed.

Theorem fl_neg_denote x : den (fl_neg x) = xneg (den x).
Proof.
  destruct x as [a|s|s]; simpl; try reflexivity.
  f_equal. change (RF (negb (rs a)) (rexp a) (rc a)) with (rf_neg a). apply neg_denote.
Qed.

Theorem fl_neg_sign x : fl_s (fl_neg x) = negb (fl_s x).
Proof. destruct x; reflexivity. Qed.

Theorem fl_sub_denote x y : den (fl_sub x y) = xadd (den x) (xneg (den y)).
Proof. unfold fl_sub. rewrite fl_add_denote, fl_neg_denote. reflexivity. Qed.

(* unary plus is the identity: value AND sign *)
Theorem fl_pos_denote x : den (fl_pos x) = den x /\ fl_s (fl_pos x) = fl_s x.
Proof. split; reflexivity. Qed.

Theorem fl_abs_denote x : fl_wf x -> den (fl_abs x) = xabs (den x) /\ fl_s (fl_abs x) = false.
Proof.
  destruct x as [a|s|s]; simpl; intros Hw; split; try reflexivity.
  f_equal. change (RF false (rexp a) (rc a)) with (rf_abs a). apply abs_denote. exact Hw.
Qed.

Theorem fl_mul_denote x y : fl_wf x -> fl_wf y ->
  den (fl_mul x y) = xmul (den x) (den y) (fl_s x) (fl_s y).
Proof.
  destruct x as [a|s|s], y as [b|t|t]; simpl; intros Hx Hy; try reflexivity.
  - rewrite mul_denote. reflexivity.
  - unfold is_zero. destruct (Req_EM_T (R2R a) 0) as [E|E].
    + apply R2R_eq0 in E; [|assumption]. rewrite E. reflexivity.
    + destruct (Z.eqb_spec (rc a) 0) as [Z0|Z0]; [|reflexivity].
      exfalso. apply E. apply R2R_zero. assumption.
  - unfold is_zero. destruct (Req_EM_T (R2R b) 0) as [E|E].
    + apply R2R_eq0 in E; [|assumption]. rewrite E. reflexivity.
    + destruct (Z.eqb_spec (rc b) 0) as [Z0|Z0]; [|reflexivity].
      exfalso. apply E. apply R2R_zero. assumption.
Qed.

Theorem fl_mul_sign x y :
  fl_isnan (fl_mul x y) = false -> fl_s (fl_mul x y) = xorb (fl_s x) (fl_s y).
Proof.
  destruct x as [a|s|s], y as [b|t|t]; simpl; try discriminate; try reflexivity.
  - intros _. apply mul_sign.
  - destruct (is_zero a); [discriminate|reflexivity].
  - destruct (is_zero b); [discriminate|reflexivity].
Qed.

Theorem fl_compare_denote x y : fl_wf x -> fl_wf y ->
  fl_compare x y = xcompare (den x) (den y).
Proof.
  destruct x as [a|s|s], y as [b|t|t]; simpl; intros Hx Hy; try reflexivity.
  rewrite compare_denote by assumption. reflexivity.
Qed.

(* Float.__int__: exact or error *)
Theorem fl_int_exact x z : fl_wf x -> fl_to_int x = Ok z -> den x = XR (IZR z).
Proof.
  destruct x as [a|s|s]; simpl; try discriminate.
  intros Hw H. f_equal. symmetry. apply int_exact; assumption.
Qed.

(* Float.split recombines (finite case), specials are propagated *)
Theorem fl_split_sum x n : fl_wf x ->
  let '(hi, lo) := fl_split x n in den x = xadd (den hi) (den lo) \/ fl_isinf x = true.
Proof.
  destruct x as [a|s|s]; simpl; intros Hw.
  - pose proof (split_sum a n Hw) as H. destruct (split a n) as [h l]. left. simpl. f_equal. symmetry. exact H.
  - right. reflexivity.
  - left. reflexivity.
Qed.
