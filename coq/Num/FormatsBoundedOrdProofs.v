(* Property C16, bounded theorems (nbits <= 8, |eoffset| <= 3): ordinals of the extended-float formats and the min/max queries against the decoded value set. *)
From Coq Require Import ZArith List Bool Lia.
From FpyV Require Import Num.RealFloat Num.Float Num.Out Num.Formats Num.Layout Num.FormatsBoundedLibProofs.
Import ListNotations.
Open Scope Z_scope.

(* ---------------------------------------------------------------- ordinals *)
(* every decoded finite value has an ordinal in [ord(-max), ord(+max)] that maps
   back to the same number (the two zeros share ordinal 0) *)
Definition pat_ord (f : efmt) (b : Z) : bool :=
  match ef_decode f b with
  | Ok (FFin r) =>
      (0 <=? rc r) &&
      match ef_to_ord as_coded f (FFin r) false with
      | Ok o => (b_neg_ord (ef_mpb f) <=? o) && (o <=? b_pos_ord (ef_mpb f)) &&
                match ef_from_ord f o false with Ok (FFin y) => rf_eqb y r | _ => false end
      | Err _ => false
      end
  | Ok _ => true
  | Err _ => false
  end.

(* every ordinal of the range is the ordinal of a decoded value, and the
   values increase strictly with the ordinal *)
Definition ord_ok (f : efmt) (ds : list fl) (o : Z) : bool :=
  match ef_from_ord f o false with
  | Ok (FFin y) =>
      (0 <=? rc y) &&
      res_eqb Z.eqb (ef_to_ord as_coded f (FFin y) false) o &&
      existsb (fun d => fl_equiv d (FFin y)) ds &&
      ((b_pos_ord (ef_mpb f) <=? o) ||
       match ef_from_ord f (o + 1) false with
       | Ok (FFin y') => match rf_compare y y' with Lt => true | _ => false end
       | _ => false
       end)
  | _ => false
  end.

Definition fmt_ord (f : efmt) : bool :=
  forallb (pat_ord f) (ef_patterns f) &&
  (let ds := decoded f in
   forallb (ord_ok f ds) (Zrange (b_neg_ord (ef_mpb f)) (b_pos_ord (ef_mpb f) + 1))) &&
  (b_neg_ord (ef_mpb f) <=? 0) && (0 <=? b_pos_ord (ef_mpb f)).

Lemma all_fmt_ord : forall_fmt fmt_ord 1 8 3 = true.
Proof. vm_compute. reflexivity. Qed.

Lemma fmt_ord_at f : dom8 f -> fmt_ord f = true.
Proof. intros [V [Hn He]]. apply (forall_fmt_spec _ _ _ _ all_fmt_ord f V Hn). lia. Qed.

Theorem efloat_ordinal_of_decoded_le8 fx f b r :
  dom8 f -> is_pattern f b -> ef_decode f b = Ok (FFin r) ->
  rf_wf r /\
  exists o y, ef_to_ord fx f (FFin r) false = Ok o /\
    b_neg_ord (ef_mpb f) <= o <= b_pos_ord (ef_mpb f) /\
    ef_from_ord f o false = Ok (FFin y) /\ rf_eqb y r = true.
Proof.
  intros D Hb Dx. pose proof (fmt_ord_at f D) as H. unfold fmt_ord in H.
  apply andb_prop in H. destruct H as [H _]. apply andb_prop in H. destruct H as [H _].
  apply andb_prop in H. destruct H as [H _].
  pose proof (forallb_patterns _ _ H b Hb) as P. unfold pat_ord in P. rewrite Dx in P.
  apply andb_prop in P. destruct P as [W P]. split; [unfold rf_wf; lia|].
  assert (T : ef_to_ord fx f (FFin r) false = ef_to_ord as_coded f (FFin r) false).
  { unfold ef_to_ord. rewrite ef_repr_finite. reflexivity. }
  rewrite T. destruct (ef_to_ord as_coded f (FFin r) false) as [o|]; [|discriminate].
  apply andb_prop in P. destruct P as [P Q]. apply andb_prop in P. destruct P as [P1 P2].
  destruct (ef_from_ord f o false) as [[y|?|?]|] eqn:Fy; try discriminate.
  exists o, y. repeat split; try lia; auto.
Qed.

Theorem efloat_ordinal_range_le8 fx f o :
  dom8 f -> b_neg_ord (ef_mpb f) <= o <= b_pos_ord (ef_mpb f) ->
  exists y, ef_from_ord f o false = Ok (FFin y) /\ rf_wf y /\
    ef_to_ord fx f (FFin y) false = Ok o /\
    in_decoded_set f (FFin y) = true /\
    (o < b_pos_ord (ef_mpb f) ->
       exists y', ef_from_ord f (o + 1) false = Ok (FFin y') /\ rf_compare y y' = Lt).
Proof.
  intros D Ho. pose proof (fmt_ord_at f D) as H. unfold fmt_ord in H.
  apply andb_prop in H. destruct H as [H _]. apply andb_prop in H. destruct H as [H _].
  apply andb_prop in H. destruct H as [_ H].
  rewrite forallb_forall in H.
  assert (Hin : In o (Zrange (b_neg_ord (ef_mpb f)) (b_pos_ord (ef_mpb f) + 1))) by (apply In_Zrange; lia).
  specialize (H o Hin).
  unfold ord_ok in H.
  destruct (ef_from_ord f o false) as [[y|s|s]|] eqn:Fy; try discriminate.
  apply andb_prop in H. destruct H as [H M]. apply andb_prop in H. destruct H as [H I].
  apply andb_prop in H. destruct H as [W T].
  exists y. split; [reflexivity|]. split; [unfold rf_wf; lia|].
  split.
  { assert (E : ef_to_ord fx f (FFin y) false = ef_to_ord as_coded f (FFin y) false).
    { unfold ef_to_ord. rewrite ef_repr_finite. reflexivity. }
    rewrite E. unfold res_eqb in T. destruct (ef_to_ord as_coded f (FFin y) false); [|discriminate].
    apply Z.eqb_eq in T. subst. reflexivity. }
  split; [exact I|].
  intros Hlt. destruct (Z.leb_spec (b_pos_ord (ef_mpb f)) o); [lia|]. simpl in M.
  destruct (ef_from_ord f (o + 1) false) as [[y'|s|s]|]; try discriminate.
  exists y'. split; [reflexivity|]. destruct (rf_compare y y'); [discriminate|reflexivity|discriminate].
Qed.

Theorem efloat_ordinal_zero_in_range_le8 f :
  dom8 f -> b_neg_ord (ef_mpb f) <= 0 <= b_pos_ord (ef_mpb f).
Proof.
  intros D. pose proof (fmt_ord_at f D) as H. unfold fmt_ord in H.
  apply andb_prop in H. destruct H as [H P]. apply andb_prop in H. destruct H as [_ N]. lia.
Qed.

(* ---------------------------------------------------------------- queries against the decoded value set *)
Definition fin_with_sign (s : bool) (nonzero : bool) (d : fl) : bool :=
  match d with FFin r => eqb (rs r) s && (negb nonzero || negb (is_zero r)) | _ => false end.

(* |a| <= |b| for two finite values of the same sign s *)
Definition mag_leb (s : bool) (a b : rf) : bool := if s then rf_leb b a else rf_leb a b.

Definition fmt_queries (fx : fixes) (f : efmt) : bool :=
  let ds := decoded f in
  let member y := existsb (fun d => fl_equiv d y) ds in
  (* largest / smallest: bounds of the finite decoded values, attained *)
  match ef_largest fx f with
  | Ok (FFin y) => member (FFin y) && forallb (fun d => match d with FFin r => rf_leb r y | _ => true end) ds
  | _ => false
  end &&
  match ef_smallest fx f with
  | Ok (FFin y) => member (FFin y) && forallb (fun d => match d with FFin r => rf_leb y r | _ => true end) ds
  | _ => false
  end &&
  forallb (fun s =>
    (* maxval(s): the decoded value of sign s of greatest magnitude (a zero when there is no other) *)
    match ef_maxval fx f s with
    | Ok (FFin y) => eqb (rs y) s && member (FFin y) &&
                     forallb (fun d => match d with FFin r => negb (eqb (rs r) s) || mag_leb s r y | _ => true end) ds
    | Ok _ => false
    | Err _ => negb (existsb (fin_with_sign s false) ds)
    end &&
    (* minval(s): the non-zero decoded value of sign s of least magnitude; an error when there is none *)
    match ef_minval fx f s with
    | Ok (FFin y) => eqb (rs y) s && negb (is_zero y) && member (FFin y) &&
                     forallb (fun d => match d with
                                       | FFin r => negb (eqb (rs r) s) || is_zero r || mag_leb s y r
                                       | _ => true end) ds
    | Ok _ => false
    | Err _ => negb (existsb (fin_with_sign s true) ds)
    end) [false; true].

Lemma all_fmt_queries_fixed : forall_fmt (fmt_queries all_fixed) 1 8 3 = true.
Proof. vm_compute. reflexivity. Qed.
Lemma all_fmt_queries_coded : forall_fmt (fmt_queries as_coded) 1 8 3 = true.
Proof. vm_compute. reflexivity. Qed.


Lemma fmt_queries_at fx f : fx = as_coded \/ fx = all_fixed -> dom8 f -> fmt_queries fx f = true.
Proof.
  intros [-> | ->] [V [Hn He]].
  - apply (forall_fmt_spec _ _ _ _ all_fmt_queries_coded f V Hn). lia.
  - apply (forall_fmt_spec _ _ _ _ all_fmt_queries_fixed f V Hn). lia.
Qed.

Theorem efloat_largest_smallest_le8 fx f :
  fx = as_coded \/ fx = all_fixed -> dom8 f ->
  exists hi lo, ef_largest fx f = Ok (FFin hi) /\ ef_smallest fx f = Ok (FFin lo) /\
    in_decoded_set f (FFin hi) = true /\ in_decoded_set f (FFin lo) = true /\
    forall b r, is_pattern f b -> ef_decode f b = Ok (FFin r) -> rf_leb lo r = true /\ rf_leb r hi = true.
Proof.
  intros Hfx D. pose proof (fmt_queries_at fx f Hfx D) as H. unfold fmt_queries in H.
  apply andb_prop in H. destruct H as [H _]. apply andb_prop in H. destruct H as [HL HS].
  destruct (ef_largest fx f) as [[hi|?|?]|]; try discriminate.
  destruct (ef_smallest fx f) as [[lo|?|?]|]; try discriminate.
  apply andb_prop in HL. destruct HL as [ML AL]. apply andb_prop in HS. destruct HS as [MS AS].
  exists hi, lo. repeat split; auto.
  - exact (forallb_decoded _ f AS b (FFin r) H H0).
  - exact (forallb_decoded _ f AL b (FFin r) H H0).
Qed.

Theorem efloat_maxval_le8 fx f s :
  fx = as_coded \/ fx = all_fixed -> dom8 f ->
  match ef_maxval fx f s with
  | Ok y => exists m, y = FFin m /\ rs m = s /\ in_decoded_set f y = true /\
      forall b r, is_pattern f b -> ef_decode f b = Ok (FFin r) -> rs r = s -> mag_leb s r m = true
  | Err _ => forall b r, is_pattern f b -> ef_decode f b = Ok (FFin r) -> rs r <> s
  end.
Proof.
  intros Hfx D. pose proof (fmt_queries_at fx f Hfx D) as H. unfold fmt_queries in H.
  apply andb_prop in H. destruct H as [_ H]. rewrite forallb_forall in H.
  specialize (H s ltac:(destruct s; simpl; auto)). apply andb_prop in H. destruct H as [H _].
  destruct (ef_maxval fx f s) as [[m|?|?]|]; try discriminate.
  - apply andb_prop in H. destruct H as [H A]. apply andb_prop in H. destruct H as [S M].
    exists m. repeat split; auto. apply eqb_prop; exact S.
    intros b r Hb Dr Sr. pose proof (forallb_decoded _ f A b (FFin r) Hb Dr) as Q. simpl in Q.
    rewrite Sr, eqb_reflx in Q. exact Q.
  - intros b r Hb Dr Sr. apply negb_true_iff in H.
    assert (E : existsb (fin_with_sign s false) (decoded f) = true).
    { apply existsb_exists. exists (FFin r). split.
      - apply in_decoded. exists b. split; [apply In_Zrange; exact Hb|exact Dr].
      - simpl. rewrite Sr, eqb_reflx. reflexivity. }
    congruence.
Qed.

Theorem efloat_minval_le8 fx f s :
  fx = as_coded \/ fx = all_fixed -> dom8 f ->
  match ef_minval fx f s with
  | Ok y => exists m, y = FFin m /\ rs m = s /\ is_zero m = false /\ in_decoded_set f y = true /\
      forall b r, is_pattern f b -> ef_decode f b = Ok (FFin r) -> rs r = s -> is_zero r = false -> mag_leb s m r = true
  | Err _ => forall b r, is_pattern f b -> ef_decode f b = Ok (FFin r) -> rs r = s -> is_zero r = true
  end.
Proof.
  intros Hfx D. pose proof (fmt_queries_at fx f Hfx D) as H. unfold fmt_queries in H.
  apply andb_prop in H. destruct H as [_ H]. rewrite forallb_forall in H.
  specialize (H s ltac:(destruct s; simpl; auto)). apply andb_prop in H. destruct H as [_ H].
  destruct (ef_minval fx f s) as [[m|?|?]|]; try discriminate.
  - apply andb_prop in H. destruct H as [H A]. apply andb_prop in H. destruct H as [H M].
    apply andb_prop in H. destruct H as [S Z].
    exists m. repeat split; auto. apply eqb_prop; exact S. apply negb_true_iff; exact Z.
    intros b r Hb Dr Sr Zr. pose proof (forallb_decoded _ f A b (FFin r) Hb Dr) as Q. simpl in Q.
    rewrite Sr, eqb_reflx, Zr in Q. exact Q.
  - intros b r Hb Dr Sr. apply negb_true_iff in H.
    destruct (is_zero r) eqn:Zr; [reflexivity|].
    assert (E : existsb (fin_with_sign s true) (decoded f) = true).
    { apply existsb_exists. exists (FFin r). split.
      - apply in_decoded. exists b. split; [apply In_Zrange; exact Hb|exact Dr].
      - simpl. rewrite Sr, eqb_reflx, Zr. reflexivity. }
    congruence.
Qed.
