(* Model of the `_round_at` methods of the ten context families of
   fpy2/number/context/*.py.  Definitions only.

   ctx_round c x n rb:
     x  : the operand (finite RealFloat encoding, infinity or NaN)
     n  : optional least digit position (Context.round_at); None = Context.round
     rb : the integer drawn from the generator (ignored when the context is
          not stochastic)
   Result: the rounded value with its status flags, or the exception kind. *)
From Coq Require Import ZArith List Bool.
From FpyV Require Import Num.RealFloat Num.Float Num.CtxDef.
Import ListNotations.
Open Scope Z_scope.

Definition rfl := (fl * flags)%type.

Definition fl_ovf_flags : flags := FL false false true false false true false.
Definition set_ovf (f : flags) : flags :=
  FL (f_invalid f) (f_divzero f) true (f_tiny_pre f) (f_tiny_post f) true (f_carry f).

(* RealFloat.round with num_randbits *)
Definition rf_round_k (x : rf) (max_p min_n : option Z) (rm : rmode) (k : option Z) (rb : Z)
  : result (rf * flags) :=
  match k with
  | Some 0 => rf_round x max_p min_n rm false
  | _ =>
    bind (round_params x max_p min_n) (fun pn =>
      let '(p, n) := pn in
      let emin := match max_p, min_n with Some p, Some n => Some (p + n) | _, _ => None end in
      round_at_stoch x p n emin rm k rb false)
  end.

Definition wrap_fin (r : result (rf * flags)) : result rfl :=
  bind r (fun yf => Ok (FFin (fst yf), snd yf)).

(* ---------------------------------------------------------------- special values *)
(* float families (mp_float, mps_float, mpb_float): NaN loses its sign,
   the infinity substitute takes the operand's sign *)
Definition special_float (sp : special) (x : fl) : option (result rfl) :=
  match x with
  | FNaN _ =>
      Some (if sp_enable_nan sp then Ok (FNaN false, no_flags)
            else match sp_nan_value sp with None => Err ValueErr | Some v => Ok (v, no_flags) end)
  | FInf s =>
      Some (if sp_enable_inf sp then Ok (FInf s, no_flags)
            else match sp_inf_value sp with None => Err ValueErr | Some v => Ok (fl_with_sign s v, no_flags) end)
  | FFin _ => None
  end.

(* fixed families (mp_fixed, mpb_fixed): NaN keeps its sign, the infinity
   substitute is used as given *)
Definition special_fixed (sp : special) (x : fl) : option (result rfl) :=
  match x with
  | FNaN s =>
      Some (if sp_enable_nan sp then Ok (FNaN s, no_flags)
            else match sp_nan_value sp with None => Err ValueErr | Some v => Ok (v, no_flags) end)
  | FInf s =>
      Some (if sp_enable_inf sp then Ok (FInf s, no_flags)
            else match sp_inf_value sp with None => Err ValueErr | Some v => Ok (v, no_flags) end)
  | FFin _ => None
  end.

(* *_overflow_to_infinity: should an overflow round to infinity rather than MAX_VAL? *)
Definition overflow_to_infinity (rm : rmode) (s : bool) : bool :=
  match snd (to_direction rm s) with DTZ => false | _ => true end.

(* ---------------------------------------------------------------- MPFloat *)
Definition round_mpfloat (pmax : Z) (rm : rmode) (k : option Z) (sp : special)
    (x : fl) (n : option Z) (rb : Z) : result rfl :=
  match special_float sp x with
  | Some r => r
  | None =>
    match x with
    | FFin xr =>
        if is_zero xr then Ok (FFin (RF (rs xr) 0 0), no_flags)
        else wrap_fin (rf_round_k xr (Some pmax) n rm k rb)
    | _ => Err OtherErr
    end
  end.

(* ---------------------------------------------------------------- MPSFloat *)
Definition mps_nmin (pmax emin : Z) : Z := emin - pmax + 1 - 1.

Definition clamp_n (n : option Z) (nmin : Z) : Z :=
  match n with None => nmin | Some n => if n <? nmin then nmin else n end.

Definition round_mpsfloat (pmax emin : Z) (rm : rmode) (k : option Z) (sp : special)
    (x : fl) (n : option Z) (rb : Z) : result rfl :=
  match special_float sp x with
  | Some r => r
  | None =>
    match x with
    | FFin xr =>
        if is_zero xr then Ok (FFin (RF (rs xr) 0 0), no_flags)
        else wrap_fin (rf_round_k xr (Some pmax) (Some (clamp_n n (mps_nmin pmax emin))) rm k rb)
    | _ => Err OtherErr
    end
  end.

(* ---------------------------------------------------------------- MPBFloat *)
Definition is_overflowing (pos_max neg_max : rf) (y : rf) : bool :=
  if rs y then match rf_compare y neg_max with Lt => true | _ => false end
  else match rf_compare y pos_max with Gt => true | _ => false end.

Definition round_mpbfloat (pmax emin : Z) (pos_max neg_max : rf) (rm : rmode) (ov : ovmode)
    (k : option Z) (sp : special) (x : fl) (n : option Z) (rb : Z) : result rfl :=
  match special_float sp x with
  | Some r => r
  | None =>
    match x with
    | FFin xr =>
        if is_zero xr then Ok (FFin (RF (rs xr) 0 0), no_flags)
        else
          bind (rf_round_k xr (Some pmax) (Some (clamp_n n (mps_nmin pmax emin))) rm k rb) (fun yf =>
            let '(y, f) := yf in
            if is_overflowing pos_max neg_max y then
              let maxv := FFin (if rs y then neg_max else pos_max) in
              match ov with
              | OV_OVERFLOW =>
                  if overflow_to_infinity rm (rs y) then
                    if sp_enable_inf sp then Ok (FInf (rs xr), fl_ovf_flags)
                    else match sp_inf_value sp with
                         | None => Err ValueErr
                         | Some v => Ok (fl_with_sign (rs y) v, fl_ovf_flags)
                         end
                  else Ok (maxv, fl_ovf_flags)
              | OV_SATURATE => Ok (maxv, fl_ovf_flags)
              | OV_ASSERT => Err OverflowErr
              | OV_WRAP => Err OtherErr
              end
            else Ok (FFin y, f))
    | _ => Err OtherErr
    end
  end.

(* ---------------------------------------------------------------- EFloat *)
(* efloat._binade_max *)
Definition binade_max (p emin e : Z) : rf :=
  if e >=? emin then RF false (e - p + 1) (bitmask p)
  else RF false (emin - p + 1) (Z.shiftr (bitmask p) (emin - e)).

Definition ntz (x : rf) (p nmin : Z) : result rf :=
  if rc x =? 0 then Err ValueErr else next_towards x nmin (Some p).

(* efloat._ext_to_mpb_fmt: (p, emin, maxval) *)
Definition ext_to_mpb (es nbits : Z) (enable_inf : bool) (nk : nankind) (eoffset : Z)
  : result (Z * Z * rf) :=
  let p := nbits - es in
  let ebias := if es =? 0 then 0 else bitmask (es - 1) in
  let emax0 := if es =? 0 then -1 else ebias in
  let emin0 := 1 - ebias in
  let emax := emax0 + eoffset in
  let emin := emin0 + eoffset in
  let nmin := emin - p in
  let mv : result rf :=
    match nk with
    | NK_IEEE => Ok (binade_max p emin emax)
    | NK_MAXVAL =>
        if p =? 1 then
          if enable_inf then Ok (binade_max p emin (emax - 1)) else Ok (binade_max p emin emax)
        else if (p =? 2) && enable_inf then Ok (binade_max p emin emax)
        else if enable_inf then
          bind (ntz (binade_max p emin (emax + 1)) p nmin) (fun m1 => ntz m1 p nmin)
        else ntz (binade_max p emin (emax + 1)) p nmin
    | NK_NEGZERO | NK_NONE =>
        if p =? 1 then
          if enable_inf then Ok (binade_max p emin emax) else Ok (binade_max p emin (emax + 1))
        else if enable_inf then ntz (binade_max p emin (emax + 1)) p nmin
        else Ok (binade_max p emin (emax + 1))
    end in
  bind mv (fun m => Ok (p, emin, if rc m =? 0 then RF false emin 0 else m)).

(* efloat._format_is_valid *)
Definition efloat_valid (es nbits : Z) (enable_inf : bool) (nk : nankind) : bool :=
  if nbits <? 1 then false
  else if (es <? 0) || (es >=? nbits) then false
  else
    let p := nbits - es in
    match nk with
    | NK_IEEE => if es =? 0 then false else if enable_inf && (p =? 1) then false else true
    | NK_MAXVAL =>
        if es =? 0 then negb ((p =? 1) || (enable_inf && (p =? 2)))
        else negb ((es =? 1) && enable_inf && (p =? 1))
    | NK_NEGZERO | NK_NONE => negb ((es =? 0) && (p =? 1) && enable_inf)
    end.

(* EFloatContext._fixup *)
Definition efloat_fixup (enable_inf : bool) (nk : nankind) (nan_value inf_value : option fl)
    (maxv : rf) (r : rfl) : rfl :=
  let '(x, f) := r in
  let mx (s : bool) := FFin (RF s (rexp maxv) (rc maxv)) in
  match x with
  | FNaN s =>
      match nk with
      | NK_NONE =>
          match nan_value with
          | None => if enable_inf then (FInf s, f) else (mx s, f)
          | Some v => (fl_with_sign s v, f)
          end
      | _ => (x, f)
      end
  | FInf s =>
      if enable_inf then (x, f)
      else match inf_value with
           | None => match nk with NK_NONE => (mx s, f) | _ => (FNaN s, f) end
           | Some v => (fl_with_sign s v, f)
           end
  | FFin xr =>
      if is_zero xr && rs xr && match nk with NK_NEGZERO => true | _ => false end
      then (FFin (RF false (rexp xr) (rc xr)), f)
      else (x, f)
  end.

Definition round_efloat (es nbits : Z) (enable_inf : bool) (nk : nankind) (eoffset : Z)
    (rm : rmode) (ov : ovmode) (k : option Z) (nan_value inf_value : option fl)
    (x : fl) (n : option Z) (rb : Z) : result rfl :=
  if negb (efloat_valid es nbits enable_inf nk) then Err ValueErr
  else
  bind (ext_to_mpb es nbits enable_inf nk eoffset) (fun pem =>
    let '(p, emin, maxv) := pem in
    let negv := RF true (rexp maxv) (rc maxv) in
    bind (round_mpbfloat p emin maxv negv rm ov k sp_default x n rb) (fun r =>
      Ok (efloat_fixup enable_inf nk nan_value inf_value maxv r))).

(* ---------------------------------------------------------------- MPFixed *)
Definition clamp_n_fixed (n : option Z) (nmin : Z) : Z :=
  match n with None => nmin | Some n => Z.max n nmin end.

Definition fix_neg_zero (neg_zero : bool) (y : rf) : rf :=
  if is_zero y && rs y && negb neg_zero then RF false (rexp y) (rc y) else y.

Definition round_mpfixed (nmin : Z) (rm : rmode) (k : option Z) (sp : special) (neg_zero : bool)
    (x : fl) (n : option Z) (rb : Z) : result rfl :=
  match special_fixed sp x with
  | Some r => r
  | None =>
    match x with
    | FFin xr =>
        if is_zero xr then Ok (FFin (RF (rs xr && neg_zero) 0 0), no_flags)
        else
          bind (rf_round_k xr None (Some (clamp_n_fixed n nmin)) rm k rb) (fun yf =>
            Ok (FFin (fix_neg_zero neg_zero (fst yf)), snd yf))
    | _ => Err OtherErr
    end
  end.

(* ---------------------------------------------------------------- MPBFixed *)
(* MPFixedFormat._to_ordinal *)
Definition fixed_to_ordinal (nmin : Z) (x : rf) : Z :=
  if is_zero x then 0
  else
    let offset := rexp x - (nmin + 1) in
    let c := if offset >? 0 then Z.shiftl (rc x) offset
             else if offset <? 0 then Z.shiftr (rc x) (- offset) else rc x in
    if rs x then - c else c.

(* MPFixedFormat.from_ordinal *)
Definition fixed_from_ordinal (nmin : Z) (o : Z) : rf :=
  if o =? 0 then RF false 0 0 else RF (o <? 0) (nmin + 1) (Z.abs o).

Definition round_mpbfixed (nmin : Z) (pos_max neg_max : rf) (rm : rmode) (ov : ovmode)
    (k : option Z) (sp : special) (neg_zero : bool) (x : fl) (n : option Z) (rb : Z) : result rfl :=
  match special_fixed sp x with
  | Some r => r
  | None =>
    match x with
    | FFin xr =>
        if is_zero xr then Ok (FFin (RF (rs xr && neg_zero) 0 0), no_flags)
        else
          bind (rf_round_k xr None (Some (clamp_n_fixed n nmin)) rm k rb) (fun yf =>
            let '(y, f) := yf in
            if is_overflowing pos_max neg_max y then
              let maxv := FFin (if rs y then neg_max else pos_max) in
              match ov with
              | OV_OVERFLOW =>
                  if overflow_to_infinity rm (rs y) then
                    if sp_enable_inf sp then Ok (FInf (rs xr), fl_ovf_flags)
                    else match sp_inf_value sp with
                         | None => Err ValueErr
                         | Some v => Ok (v, fl_ovf_flags)
                         end
                  else Ok (maxv, fl_ovf_flags)
              | OV_SATURATE => Ok (maxv, fl_ovf_flags)
              | OV_WRAP =>
                  let neg_ord := fixed_to_ordinal nmin neg_max in
                  let pos_ord := fixed_to_ordinal nmin pos_max in
                  let ord_abs := fixed_to_ordinal nmin y - neg_ord in
                  let total := pos_ord - neg_ord + 1 in
                  Ok (FFin (fixed_from_ordinal nmin (ord_abs mod total + neg_ord)), fl_ovf_flags)
              | OV_ASSERT => Err OverflowErr
              end
            else Ok (FFin (fix_neg_zero neg_zero y), f))
    | _ => Err OtherErr
    end
  end.

(* fixed._fixed_to_mpb_fixed *)
Definition fixed_bounds (signed : bool) (scale nbits : Z) : rf * rf :=
  if signed then (RF false scale (bitmask (nbits - 1)), RF true scale (Z.shiftl 1 (nbits - 1)))
  else (RF false scale (bitmask nbits), RF false 0 0).

Definition sp_fixed (nan_value inf_value : option fl) := SP false false nan_value inf_value.

Definition round_fixed (signed : bool) (scale nbits : Z) (rm : rmode) (ov : ovmode) (k : option Z)
    (nan_value inf_value : option fl) (x : fl) (n : option Z) (rb : Z) : result rfl :=
  let '(pm, nm) := fixed_bounds signed scale nbits in
  round_mpbfixed (scale - 1) pm nm rm ov k (sp_fixed nan_value inf_value) false x n rb.

Definition round_smfixed (scale nbits : Z) (rm : rmode) (ov : ovmode) (k : option Z)
    (nan_value inf_value : option fl) (x : fl) (n : option Z) (rb : Z) : result rfl :=
  let pm := RF false scale (bitmask (nbits - 1)) in
  round_mpbfixed (scale - 1) pm (RF true scale (bitmask (nbits - 1))) rm ov k
                 (sp_fixed nan_value inf_value) true x n rb.

(* ---------------------------------------------------------------- Exp *)
(* exponential._exponent_bounds *)
Definition exp_bounds (nbits eoffset : Z) : Z * Z :=
  let emax0 := bitmask (nbits - 1) in
  let emin0 := 1 - emax0 in
  (emin0 + eoffset - 1, emax0 + eoffset).

Definition exp_overflow_to_infinity (rm : rmode) (s : bool) : bool :=
  match snd (to_direction rm s) with DTZ => false | DAZ => true | DTE => true | DTO => false end.
Definition exp_underflow_to_zero (rm : rmode) (s : bool) : bool :=
  match snd (to_direction rm s) with DTZ => true | DAZ => false | DTE => true | DTO => false end.

Definition round_exp (nbits eoffset : Z) (rm : rmode) (ov : ovmode) (inf_value : option fl)
    (x : fl) (n : option Z) : result rfl :=
  let '(emin, emax) := exp_bounds nbits eoffset in
  bind (round_mpfloat 1 rm (Some 0) sp_default x n 0) (fun r =>
    let '(y, f) := r in
    match y with
    | FNaN _ => Ok (FNaN false, no_flags)
    | FInf _ => match inf_value with None => Ok (FNaN false, no_flags) | Some v => Ok (v, no_flags) end
    | FFin yr =>
        if is_zero yr || rs yr then Ok (FNaN false, no_flags)
        else if rf_e yr <? emin then
          match ov with
          | OV_OVERFLOW =>
              if exp_underflow_to_zero rm (rs yr) then Ok (FNaN false, fl_ovf_flags)
              else Ok (FFin (RF false emin 1), fl_ovf_flags)
          | OV_SATURATE => Ok (FFin (RF false emin 1), fl_ovf_flags)
          | OV_ASSERT => Err ValueErr
          | OV_WRAP => Err OtherErr
          end
        else if rf_e yr >? emax then
          match ov with
          | OV_OVERFLOW =>
              if exp_overflow_to_infinity rm (rs yr) then Ok (FNaN false, fl_ovf_flags)
              else Ok (FFin (RF false emax 1), fl_ovf_flags)
          | OV_SATURATE => Ok (FFin (RF false emax 1), fl_ovf_flags)
          | OV_ASSERT => Err ValueErr
          | OV_WRAP => Err OtherErr
          end
        else Ok (y, f)
    end).

(* ---------------------------------------------------------------- dispatch *)
Definition ctx_round (c : ctx) (x : fl) (n : option Z) (rb : Z) : result rfl :=
  match c with
  | CReal => match n with None => Ok (x, no_flags) | Some _ => Err OtherErr end
  | CMPFloat p rm k sp => round_mpfloat p rm k sp x n rb
  | CMPSFloat p emin rm k sp => round_mpsfloat p emin rm k sp x n rb
  | CMPBFloat p emin pm nm rm ov k sp => round_mpbfloat p emin pm nm rm ov k sp x n rb
  | CEFloat es nbits einf nk eoff rm ov k nv iv => round_efloat es nbits einf nk eoff rm ov k nv iv x n rb
  | CMPFixed nmin rm k sp nz => round_mpfixed nmin rm k sp nz x n rb
  | CMPBFixed nmin pm nm rm ov k sp nz => round_mpbfixed nmin pm nm rm ov k sp nz x n rb
  | CFixed sg scale nbits rm ov k nv iv => round_fixed sg scale nbits rm ov k nv iv x n rb
  | CSMFixed scale nbits rm ov k nv iv => round_smfixed scale nbits rm ov k nv iv x n rb
  | CExp nbits eoff rm ov iv => round_exp nbits eoff rm ov iv x n
  end.

(* deterministic rounding (Context.round) *)
Definition ctx_round0 (c : ctx) (x : fl) : result rfl := ctx_round c x None 0.
