(* C03: the mechanism by which every MPFR-backed function and constant is
   rounded — evaluate toward zero at >= 2 extra digits, fold the inexact
   (ternary) bit into the last digit, round under the context — returns the
   true real result rounded ONCE, for any real value y the primitive targets.
   MPFR itself is an oracle: its assumed behaviour is the explicit hypothesis
   of `mpfr_value_spec` (value truncated toward zero at the requested
   precision + truthful ternary), spot-certified per run (see harness). *)
From Coq Require Import ZArith Bool Lia Reals Psatz.
From Flocq Require Import Core.Zaux Core.Raux Core.Defs Core.Digits Core.Float_prop
  Core.Generic_fmt Core.FLX Core.FLT Core.FIX.
From Flocq Require Import Round_odd.
From FpyV Require Import Num.RealFloat Num.RoundSpec Num.RoundOdd.
Open Scope Z_scope.

(* gmputils._round_odd on the significand: c even and inexact -> c + 1 (magnitude) *)
Definition sticky_fix (t : Z) (inexact : bool) (neg : bool) : Z :=
  if inexact && Z.even t then (if neg then t - 1 else t + 1) else t.

(* N3: truncation + sticky bit is round to odd, at the level of the scaled significand *)
Theorem rtz_sticky_is_rto z :
  Zrnd_odd z = sticky_fix (Ztrunc z) (negb (Req_bool z (IZR (Ztrunc z)))) (Rlt_bool z 0).
Proof.
  unfold sticky_fix, Zrnd_odd, Ztrunc.
  destruct (Rlt_bool_spec z 0) as [Hz|Hz].
  - (* negative: trunc = ceil *)
    destruct (Req_EM_T z (IZR (Zfloor z))) as [E|E].
    + assert (Hc : Zceil z = Zfloor z) by (rewrite E at 1; apply Zceil_IZR).
      rewrite Hc. rewrite Req_bool_true by exact E. reflexivity.
    + rewrite Zceil_floor_neq by (intro; apply E; symmetry; assumption).
      rewrite Req_bool_false.
      * cbn [negb andb]. rewrite Z.even_add. simpl (Z.even 1).
        destruct (Z.even (Zfloor z)); cbn [eqb negb xorb]; lia.
      * rewrite plus_IZR. intro Heq.
        pose proof (Zfloor_ub z). lra.
  - destruct (Req_EM_T z (IZR (Zfloor z))) as [E|E].
    + rewrite Req_bool_true by exact E. reflexivity.
    + rewrite Req_bool_false by exact E. cbn [negb andb].
      destruct (Z.even (Zfloor z)); [|reflexivity].
      rewrite Zceil_floor_neq by (intro; apply E; symmetry; assumption). reflexivity.
Qed.

(* what MPFR is assumed to deliver for a real target y at format fe:
   the toward-zero significand and a truthful inexact bit; then the value the
   implementation hands to the context rounding is Flocq's round to odd *)
Definition mpfr_rto (fe : Z -> Z) (y : R) : R :=
  let t := Ztrunc (scaled_mantissa radix2 fe y) in
  let inexact := negb (Req_bool (scaled_mantissa radix2 fe y) (IZR t)) in
  F2R (Float radix2 (sticky_fix t inexact (Rlt_bool (scaled_mantissa radix2 fe y) 0)) (cexp radix2 fe y)).

Theorem mpfr_value_spec fe y : mpfr_rto fe y = round radix2 fe Zrnd_odd y.
Proof. unfold mpfr_rto, round. rewrite <- rtz_sticky_is_rto. reflexivity. Qed.

(* elem_once: any real result y, evaluated this way with c >= 2 extra digits and
   then rounded by the context, is y rounded once — float shapes ... *)
Theorem elem_once_FLT emin p c rm y : 0 < p -> 2 <= c -> (1 < p \/ is_directed rm = true) ->
  round radix2 (FLT_exp emin p) (rnd_of rm) (mpfr_rto (FLT_exp (emin - c) (p + c)) y) =
  round radix2 (FLT_exp emin p) (rnd_of rm) y.
Proof. intros. rewrite mpfr_value_spec. apply N2_FLT; assumption. Qed.

Theorem elem_once_FLX p c rm y : 0 < p -> 2 <= c -> (1 < p \/ is_directed rm = true) ->
  round radix2 (FLX_exp p) (rnd_of rm) (mpfr_rto (FLX_exp (p + c)) y) =
  round radix2 (FLX_exp p) (rnd_of rm) y.
Proof. intros. rewrite mpfr_value_spec. apply N2_FLX; assumption. Qed.

(* ... and the fixed-point two-pass precision selection of gmputils.mpfr_call
   (prec=None): a 2-digit probe yields the exponent e of y, the second pass uses
   e - n + 2 digits, i.e. keeps the digits down to position n - 1 = (n + 1) - 2 *)
Theorem elem_once_FIX n rm y :
  round radix2 (FIX_exp (n + 1)) (rnd_of rm) (mpfr_rto (FIX_exp (n + 1 - 2)) y) =
  round radix2 (FIX_exp (n + 1)) (rnd_of rm) y.
Proof. rewrite mpfr_value_spec. apply N2_FIX. lia. Qed.

(* the second pass asks for prec = e - n + 2 digits of a value whose exponent is e:
   that IS the fixed-point format at position n - 1 *)
Theorem two_pass_precision n y : y <> 0%R ->
  let e := (mag radix2 y - 1)%Z in
  (n < e)%Z ->
  cexp radix2 (FLX_exp (e - n + 2)) y = cexp radix2 (FIX_exp (n + 1 - 2)) y.
Proof. intros Hy e He. unfold cexp, FLX_exp, FIX_exp, e. lia. Qed.

(* an exactly representable true result is returned exactly (no inexact flag):
   the intermediate is the value itself and the final rounding is the identity *)
Theorem elem_exact_FLT emin p c rm y : 0 < p -> 2 <= c ->
  generic_format radix2 (FLT_exp emin p) y ->
  mpfr_rto (FLT_exp (emin - c) (p + c)) y = y /\
  round radix2 (FLT_exp emin p) (rnd_of rm) y = y.
Proof.
  intros Hp Hc Hy.
  assert (Hp' : Prec_gt_0 p) by exact Hp.
  assert (Hpc : Prec_gt_0 (p + c)) by (unfold Prec_gt_0; lia).
  split.
  - rewrite mpfr_value_spec. apply round_generic; [typeclasses eauto|].
    apply generic_inclusion_mag with (FLT_exp emin p); [|exact Hy].
    intros _. unfold FLT_exp. lia.
  - apply round_generic; [typeclasses eauto|exact Hy].
Qed.
