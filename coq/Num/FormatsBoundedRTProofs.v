(* Property C16, bounded theorems (nbits <= 8, |eoffset| <= 3): every pattern decodes to the layout value, to a representable value, and encodes back to itself.  Genuine proofs of the bounded statements: vm_compute over the whole finite domain, lifted by forallb_forall. *)
From Coq Require Import ZArith List Bool Lia.
From FpyV Require Import Num.RealFloat Num.Float Num.Out Num.Formats Num.Layout Num.FormatsBoundedLibProofs.
Import ListNotations.
Open Scope Z_scope.

(* ---------------------------------------------------------------- patterns: decode -> representable -> encode *)
Definition pat_rt (fx : fixes) (f : efmt) (b : Z) : bool :=
  match ef_decode f b with
  | Err _ => false
  | Ok x =>
      fl_identical x (layout_value f b) &&
      (exc_repr fx f x ||
       (ef_repr fx f x &&
        (exc_enc_inf fx f x ||
         match ef_encode fx f x with
         | Err _ => false
         | Ok b' =>
             if fl_isnan x then match ef_decode f b' with Ok y => fl_isnan y | Err _ => false end
             else b' =? b
         end)))
  end.

Definition all_pat_rt (fx : fixes) := forall_fmt (fun f => forallb (pat_rt fx f) (ef_patterns f)) 1 8 3.

Lemma all_pat_rt_fixed : all_pat_rt all_fixed = true.
Proof. vm_compute. reflexivity. Qed.

Lemma all_pat_rt_coded : all_pat_rt as_coded = true.
Proof. vm_compute. reflexivity. Qed.

Lemma pat_rt_at fx f b : all_pat_rt fx = true -> dom8 f -> is_pattern f b -> pat_rt fx f b = true.
Proof.
  intros H [V [Hn He]] Hb.
  pose proof (forall_fmt_spec _ _ _ _ H f V Hn ltac:(lia)) as Hf. simpl in Hf.
  exact (forallb_patterns _ _ Hf b Hb).
Qed.

(* general form (fx = as_coded or all_fixed) *)
Lemma decode_roundtrip_gen fx : all_pat_rt fx = true ->
  forall f b, dom8 f -> is_pattern f b ->
  exists x, ef_decode f b = Ok x /\
    (exc_repr fx f x = false ->
       ef_repr fx f x = true /\
       (exc_enc_inf fx f x = false ->
          (fl_isnan x = false -> ef_encode fx f x = Ok b) /\
          (fl_isnan x = true -> exists b' y, ef_encode fx f x = Ok b' /\ ef_decode f b' = Ok y /\ fl_isnan y = true))).
Proof.
  intros H f b D Hb. pose proof (pat_rt_at fx f b H D Hb) as P. unfold pat_rt in P.
  destruct (ef_decode f b) as [x|] eqn:Dx; [|discriminate].
  exists x. split; [reflexivity|]. intros E1.
  apply andb_prop in P. destruct P as [_ P]. rewrite E1 in P. simpl in P.
  apply andb_prop in P. destruct P as [R P]. split; [exact R|]. intros E2.
  rewrite E2 in P. simpl in P.
  destruct (ef_encode fx f x) as [b'|] eqn:En; [|discriminate].
  split; intros N; rewrite N in P.
  - apply Z.eqb_eq in P. subst b'. reflexivity.
  - destruct (ef_decode f b') as [y|] eqn:Dy; [|discriminate]. exists b', y. auto.
Qed.

(* --- repaired code: full strength *)
Theorem efloat_decode_representable_le8_fixed f b x :
  dom8 f -> is_pattern f b -> ef_decode f b = Ok x -> ef_repr all_fixed f x = true.
Proof.
  intros D Hb Dx. destruct (decode_roundtrip_gen all_fixed all_pat_rt_fixed f b D Hb) as [x' [Dx' H]].
  rewrite Dx in Dx'. injection Dx' as <-. apply H. reflexivity.
Qed.

Theorem efloat_decode_encode_le8_fixed f b x :
  dom8 f -> is_pattern f b -> ef_decode f b = Ok x ->
  (fl_isnan x = false -> ef_encode all_fixed f x = Ok b) /\
  (fl_isnan x = true -> exists b' y, ef_encode all_fixed f x = Ok b' /\ ef_decode f b' = Ok y /\ fl_isnan y = true).
Proof.
  intros D Hb Dx. destruct (decode_roundtrip_gen all_fixed all_pat_rt_fixed f b D Hb) as [x' [Dx' H]].
  rewrite Dx in Dx'. injection Dx' as <-. destruct (H eq_refl) as [_ H2]. apply H2.
  unfold exc_enc_inf. reflexivity.
Qed.

(* --- the code as it is: the statement holds outside the recorded corners *)
Theorem efloat_decode_representable_le8_partial f b x :
  dom8 f -> is_pattern f b -> ef_decode f b = Ok x ->
  ef_has_nonzero f = true \/ fl_is_nar x = false ->
  ef_repr as_coded f x = true.
Proof.
  intros D Hb Dx Hc. destruct (decode_roundtrip_gen as_coded all_pat_rt_coded f b D Hb) as [x' [Dx' H]].
  rewrite Dx in Dx'. injection Dx' as <-. apply H.
  unfold exc_repr. simpl. destruct Hc as [-> | ->]; [reflexivity|apply andb_false_r].
Qed.

Theorem efloat_decode_representable_refuted :
  exists f b x, dom8 f /\ is_pattern f b /\ ef_decode f b = Ok x /\ ef_repr as_coded f x = false.
Proof.
  exists (EF 0 1 false NK_NEGZERO 0), 1, (FNaN true).
  unfold dom8, is_pattern. vm_compute. repeat split; intro; discriminate.
Qed.

Theorem efloat_decode_encode_le8_partial f b x :
  dom8 f -> is_pattern f b -> ef_decode f b = Ok x ->
  ef_has_nonzero f = true \/ fl_is_nar x = false ->
  ~ (e_kind f = NK_MAXVAL /\ e_nbits f - e_es f = 1 /\ fl_isinf x = true) ->
  (fl_isnan x = false -> ef_encode as_coded f x = Ok b) /\
  (fl_isnan x = true -> exists b' y, ef_encode as_coded f x = Ok b' /\ ef_decode f b' = Ok y /\ fl_isnan y = true).
Proof.
  intros D Hb Dx Hc Hn. destruct (decode_roundtrip_gen as_coded all_pat_rt_coded f b D Hb) as [x' [Dx' H]].
  rewrite Dx in Dx'. injection Dx' as <-.
  assert (E1 : exc_repr as_coded f x = false).
  { unfold exc_repr. simpl. destruct Hc as [-> | ->]; [reflexivity|apply andb_false_r]. }
  destruct (H E1) as [_ H2]. apply H2.
  unfold exc_enc_inf. simpl.
  destruct (e_kind f) eqn:K; try reflexivity. simpl.
  destruct (Z.eqb_spec (e_nbits f - e_es f) 1) as [P1|P1]; [|reflexivity]. simpl.
  destruct (fl_isinf x) eqn:I; [|reflexivity]. exfalso. apply Hn. auto.
Qed.

Theorem efloat_decode_encode_refuted :
  exists f b x b', dom8 f /\ is_pattern f b /\ ef_decode f b = Ok x /\ fl_isnan x = false /\
    ef_repr as_coded f x = true /\ ef_encode as_coded f x = Ok b' /\ b' <> b.
Proof.
  exists (EF 2 3 true NK_MAXVAL 0), 2, (FInf false), 3.
  unfold dom8, is_pattern. vm_compute. repeat split; intro; discriminate.
Qed.
