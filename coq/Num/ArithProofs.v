(* C02: the rational round-to-odd of Num/Arith.v is Flocq's Zrnd_odd rounding,
   and rounding it under any of the three shapes with any of the eight modes is
   rounding the exact quotient once (N2 + N1). *)
From Coq Require Import ZArith Bool Lia Reals Psatz.
From Flocq Require Import Core.Zaux Core.Raux Core.Defs Core.Digits Core.Float_prop
  Core.Generic_fmt Core.FLX Core.FLT Core.FIX.
From Flocq Require Import Round_odd.
From FpyV Require Import Num.RealFloat Num.RealFloatProofs Num.RoundSpec Num.RoundProofs Num.RoundOdd
  Num.Float Num.CtxDef Num.Ctx Num.Arith.
Open Scope Z_scope.

Lemma round_cexp_eq (fexp1 fexp2 : Z -> Z) (rnd : R -> Z) (x : R) :
  fexp1 (mag radix2 x : Z) = fexp2 (mag radix2 x : Z) ->
  round radix2 fexp1 rnd x = round radix2 fexp2 rnd x.
Proof. intros H. unfold round, scaled_mantissa, cexp. rewrite H. reflexivity. Qed.

(* Zrnd_odd of a positive rational from integer division *)
Lemma Zrnd_odd_div N D : 0 <= N -> 0 < D ->
  Zrnd_odd (IZR N / IZR D) =
  if N mod D =? 0 then N / D else if Z.even (N / D) then N / D + 1 else N / D.
Proof.
  intros HN HD. unfold Zrnd_odd.
  rewrite Zfloor_div by lia.
  pose proof (Z.div_mod N D ltac:(lia)) as Hdm.
  pose proof (Z.mod_pos_bound N D HD) as Hmb.
  assert (HDr : (0 < IZR D)%R) by (apply IZR_lt; lia).
  destruct (Z.eqb_spec (N mod D) 0) as [E|E].
  - destruct (Req_EM_T (IZR N / IZR D) (IZR (N / D))) as [_|Hne]; [reflexivity|].
    exfalso. apply Hne. rewrite Hdm at 1. rewrite E, Z.add_0_r, mult_IZR. field. lra.
  - destruct (Req_EM_T (IZR N / IZR D) (IZR (N / D))) as [Heq|Hne].
    + exfalso. apply E.
      assert (IZR N = IZR (N / D) * IZR D)%R by (rewrite <- Heq; field; lra).
      rewrite <- mult_IZR in H. apply eq_IZR in H. lia.
    + destruct (Z.even (N / D)); [|reflexivity].
      rewrite Zceil_floor_neq.
      * rewrite Zfloor_div by lia. reflexivity.
      * rewrite Zfloor_div by lia. intro Hc. apply Hne. symmetry. exact Hc.
Qed.

(* rto_q is round-to-odd at the fixed-point format of position pos *)
Theorem rto_q_flocq s num den pos : 0 < num -> 0 < den ->
  R2R (rto_q s num den pos) =
  round radix2 (FIX_exp pos) Zrnd_odd (cond_Ropp s (IZR num / IZR den)).
Proof.
  intros Hn Hd.
  assert (Hpos : forall q, (0 < q)%R ->
     R2R (rto_q false num den pos) = round radix2 (FIX_exp pos) Zrnd_odd (IZR num / IZR den)).
  { intros _ _. unfold round, cexp, scaled_mantissa, FIX_exp. unfold rto_q.
    set (N := if pos <? 0 then num * 2 ^ (- pos) else num).
    set (D := if pos <? 0 then den else den * 2 ^ pos).
    assert (HN : 0 <= N) by (unfold N; destruct (pos <? 0); [pose proof (pow2_pos (- pos)); nia|lia]).
    assert (HD : 0 < D).
    { unfold D. destruct (Z.ltb_spec pos 0); [lia|]. pose proof (pow2_pos pos ltac:(lia)). nia. }
    assert (Hsm : (IZR num / IZR den * bpow radix2 (- pos))%R = (IZR N / IZR D)%R).
    { assert (Hdr : (0 < IZR den)%R) by (apply IZR_lt; lia).
      unfold N, D. destruct (Z.ltb_spec pos 0).
      - rewrite mult_IZR. rewrite <- (IZR_Zpower radix2) by lia. change (Zpower radix2 (- pos)) with (2 ^ (- pos)).
        rewrite (IZR_Zpower radix2) by lia. field. lra.
      - rewrite mult_IZR. rewrite bpow_opp. rewrite <- (IZR_Zpower radix2 pos) by lia.
        change (Zpower radix2 pos) with (2 ^ pos).
        assert (0 < IZR (2 ^ pos))%R by (apply IZR_lt; apply pow2_pos; lia).
        field. split; lra. }
    change (cexp radix2 (fun _ : Z => pos) (IZR num / IZR den)) with pos.
    rewrite Hsm, Zrnd_odd_div by assumption.
    unfold R2R, rf_m. cbn [rs rc rexp]. reflexivity. }
  destruct s; cbn [cond_Ropp].
  - rewrite round_odd_opp. rewrite <- (Hpos 1%R) by lra.
    unfold rto_q, R2R, rf_m. cbn [rs rc rexp]. rewrite F2R_Zopp. reflexivity.
  - apply (Hpos 1%R). lra.
Qed.

Lemma rto_q_wf s num den pos : 0 < num -> 0 < den -> rf_wf (rto_q s num den pos).
Proof.
  intros Hn Hd. unfold rf_wf, rto_q. cbn [rc].
  set (N := if pos <? 0 then num * 2 ^ (- pos) else num).
  set (D := if pos <? 0 then den else den * 2 ^ pos).
  assert (HN : 0 <= N) by (unfold N; destruct (pos <? 0); [pose proof (pow2_pos (- pos)); nia|lia]).
  assert (HD : 0 < D).
  { unfold D. destruct (Z.ltb_spec pos 0); [lia|]. pose proof (pow2_pos pos ltac:(lia)). nia. }
  pose proof (Z.div_pos N D HN HD).
  destruct (N mod D =? 0); [lia|]. destruct (Z.even (N / D)); lia.
Qed.

(* one more rounding of the round-to-odd quotient = one rounding of the quotient *)
Theorem quotient_rounded_once_FLT emin p rm s num den pos :
  0 < num -> 0 < den -> 0 < p -> (1 < p \/ is_directed rm = true) ->
  let q := cond_Ropp s (IZR num / IZR den) in
  pos <= FLT_exp emin p (mag radix2 q) - 2 ->
  round radix2 (FLT_exp emin p) (rnd_of rm) (R2R (rto_q s num den pos)) =
  round radix2 (FLT_exp emin p) (rnd_of rm) q.
Proof.
  intros Hn Hd Hp Hdir q Hpos.
  rewrite rto_q_flocq by assumption. fold q.
  set (c := FLT_exp emin p (mag radix2 q) - pos).
  rewrite (round_cexp_eq (FIX_exp pos) (FLT_exp (emin - c) (p + c))).
  - apply N2_FLT; [assumption|unfold c; lia|assumption].
  - unfold FIX_exp, FLT_exp, c. unfold FLT_exp. lia.
Qed.

Theorem quotient_rounded_once_FLX p rm s num den pos :
  0 < num -> 0 < den -> 0 < p -> (1 < p \/ is_directed rm = true) ->
  let q := cond_Ropp s (IZR num / IZR den) in
  pos <= FLX_exp p (mag radix2 q) - 2 ->
  round radix2 (FLX_exp p) (rnd_of rm) (R2R (rto_q s num den pos)) =
  round radix2 (FLX_exp p) (rnd_of rm) q.
Proof.
  intros Hn Hd Hp Hdir q Hpos.
  rewrite rto_q_flocq by assumption. fold q.
  set (c := FLX_exp p (mag radix2 q) - pos).
  rewrite (round_cexp_eq (FIX_exp pos) (FLX_exp (p + c))).
  - apply N2_FLX; [assumption|unfold c; lia|assumption].
  - unfold FIX_exp, FLX_exp, c. unfold FLX_exp. lia.
Qed.

Theorem quotient_rounded_once_FIX emin rm s num den pos :
  0 < num -> 0 < den ->
  let q := cond_Ropp s (IZR num / IZR den) in
  pos <= emin - 2 ->
  round radix2 (FIX_exp emin) (rnd_of rm) (R2R (rto_q s num den pos)) =
  round radix2 (FIX_exp emin) (rnd_of rm) q.
Proof.
  intros Hn Hd q Hpos.
  rewrite rto_q_flocq by assumption. fold q.
  replace pos with (emin - (emin - pos)) at 1 by lia.
  apply N2_FIX. lia.
Qed.

(* sums, differences, products and fused multiply-adds of Float operands are
   exact before the single rounding (from C05) *)
Theorem exact_add_value a b : R2R (rf_add a b) = (R2R a + R2R b)%R.
Proof. apply add_denote. Qed.
Theorem exact_mul_value a b : R2R (rf_mul a b) = (R2R a * R2R b)%R.
Proof. apply mul_denote. Qed.
Theorem exact_fma_value a b c : R2R (rf_add (rf_mul a b) c) = (R2R a * R2R b + R2R c)%R.
Proof. rewrite add_denote, mul_denote. reflexivity. Qed.

(* end to end for a float shape: RealFloat.round of the round-to-odd quotient
   is the Flocq rounding of the exact quotient *)
Theorem div_once_FLT emin p rm s num den pos :
  0 < num -> 0 < den -> 1 <= p -> (1 < p \/ is_directed rm = true) ->
  let q := cond_Ropp s (IZR num / IZR den) in
  pos <= FLT_exp emin p (mag radix2 q) - 2 ->
  rc (rto_q s num den pos) <> 0 ->
  exists y fl,
    rf_round (rto_q s num den pos) (Some p) (Some (emin - 1)) rm false = Ok (y, fl) /\
    R2R y = round radix2 (FLT_exp emin p) (rnd_of rm) q.
Proof.
  intros Hn Hd Hp Hdir q Hpos Hnz.
  assert (Hsome : Some p <> None \/ Some (emin - 1) <> None) by (left; discriminate).
  pose proof (rto_q_wf s num den pos Hn Hd) as Hwf.
  set (t := rto_q s num den pos) in *.
  pose proof (round_flocq t (Some p) (Some (emin - 1)) rm Hwf Hnz Hp Hsome) as HRF.
  destruct HRF as (y & fl & Hr & Hv & _).
  exists y, fl. split; [exact Hr|]. rewrite Hv. cbn [fexp_of].
  replace (emin - 1 + 1) with emin by lia.
  assert (Hp0 : 0 < p) by lia.
  exact (quotient_rounded_once_FLT emin p rm s num den pos Hn Hd Hp0 Hdir Hpos).
Qed.
