(* Parametric (unbounded width) theorems of property C16. *)
From Coq Require Import ZArith List Bool Lia Reals Lra.
From Flocq Require Import Core.Zaux Core.Raux Core.Defs Core.Float_prop.
From FpyV Require Import Num.RealFloat Num.RealFloatProofs Num.Float Num.FloatProofs Num.Formats Num.Layout.
Import ListNotations.
Open Scope Z_scope.

Ltac Zify.zify_post_hook ::= Z.to_euclidean_division_equations.

(* ---------------------------------------------------------------- bit-level facts *)
Lemma shiftl1_pow k : 0 <= k -> Z.shiftl 1 k = 2 ^ k.
Proof. intros. rewrite Z.shiftl_1_l. reflexivity. Qed.

Lemma lor_disjoint a m t : 0 <= m -> 0 <= t < 2 ^ m -> Z.lor (Z.shiftl a m) t = a * 2 ^ m + t.
Proof.
  intros Hm Ht. rewrite Z.shiftl_mul_pow2 by lia.
  assert (L : Z.land (a * 2 ^ m) t = 0).
  { apply Z.bits_inj'. intros n Hn. rewrite Z.land_spec, Z.bits_0.
    destruct (Z.ltb_spec n m).
    - rewrite Z.mul_pow2_bits_low by lia. reflexivity.
    - destruct (Z.eq_dec t 0) as [->|Hz]; [rewrite Z.bits_0; apply andb_false_r|].
      rewrite (Z.bits_above_log2 t n); [apply andb_false_r|lia|].
      apply Z.lt_le_trans with m; [|lia]. apply Z.log2_lt_pow2; lia. }
  rewrite <- Z.lxor_lor by exact L. symmetry. apply Z.add_nocarry_lxor. exact L.
Qed.

Lemma split_fields b M es : 0 <= M -> 0 <= es ->
  b mod 2 ^ (M + es) = ((b / 2 ^ M) mod 2 ^ es) * 2 ^ M + b mod 2 ^ M.
Proof.
  intros HM He. rewrite Z.pow_add_r by lia.
  pose proof (pow2_pos es He). pose proof (pow2_pos M HM).
  rewrite Z.rem_mul_r by lia.
  ring.
Qed.

(* ---------------------------------------------------------------- extended floats: decode = layout *)
Lemma ext_to_mpb_params f m : ext_to_mpb f = Ok m ->
  b_pmax m = e_nbits f - e_es f /\
  b_emin m = 1 - (if e_es f =? 0 then 0 else bitmask (e_es f - 1)) + e_eoffset f.
Proof.
  unfold ext_to_mpb. cbv zeta.
  match goal with |- bind ?r _ = Ok _ -> _ => destruct r as [mv|]; simpl; [|discriminate] end.
  intros [= <-]. simpl. split; reflexivity.
Qed.

Lemma ef_mpb_params f : ef_valid f = true ->
  b_pmax (ef_mpb f) = e_nbits f - e_es f /\
  b_emin (ef_mpb f) = 1 - (if e_es f =? 0 then 0 else bitmask (e_es f - 1)) + e_eoffset f.
Proof.
  unfold ef_valid, ef_mpb. destruct (ef_ctor f) as [m|] eqn:C; [|discriminate]. intros _.
  unfold ef_ctor in C. destruct (format_is_valid _ _ _ _); simpl in C; [|discriminate].
  destruct (ext_to_mpb f) as [m'|] eqn:E; simpl in C; [|discriminate].
  destruct (mpb_ctor_ok m'); [|discriminate]. injection C as <-.
  apply ext_to_mpb_params. exact E.
Qed.


Lemma ef_valid_fmt f : ef_valid f = true ->
  format_is_valid (e_es f) (e_nbits f) (e_inf f) (e_kind f) = true.
Proof.
  unfold ef_valid, ef_ctor.
  destruct (format_is_valid (e_es f) (e_nbits f) (e_inf f) (e_kind f)); [reflexivity|discriminate].
Qed.

Lemma ef_valid_range f : ef_valid f = true ->
  1 <= e_nbits f /\ 0 <= e_es f < e_nbits f /\ (e_kind f = NK_IEEE -> 1 <= e_es f).
Proof.
  intros V. apply ef_valid_fmt in V. unfold format_is_valid in V.
  destruct (Z.ltb_spec (e_nbits f) 1); [discriminate|].
  destruct (Z.ltb_spec (e_es f) 0); [discriminate|].
  destruct (Z.geb_spec (e_es f) (e_nbits f)); [discriminate|]. simpl in V.
  repeat split; try lia. intros K. rewrite K in V.
  destruct (Z.eqb_spec (e_es f) 0); [discriminate|lia].
Qed.

Theorem ef_decode_layout f b :
  ef_valid f = true -> is_pattern f b -> ef_decode f b = Ok (layout_value f b).
Proof.
  intros V Hb. unfold is_pattern in Hb.
  destruct (ef_valid_range f V) as [Hn [Hes HI]].
  destruct (ef_mpb_params f V) as [Hp He].
  set (nbits := e_nbits f) in *. set (es := e_es f) in *.
  set (M := nbits - 1 - es).
  assert (HM : 0 <= M) by (unfold M; lia).
  assert (Hm : ef_m f = M) by (unfold ef_m, ef_pmax; rewrite Hp; unfold M; lia).
  assert (Hx : ef_expmin f = 1 - ((if es =? 0 then 0 else 2 ^ (es - 1) - 1) - e_eoffset f) - M).
  { unfold ef_expmin, b_expmin. rewrite Hp, He. unfold M.
    destruct (Z.eqb_spec es 0); [lia|]. rewrite bitmask_spec by lia. lia. }
  pose proof (pow2_pos M HM) as PM. pose proof (pow2_pos es ltac:(lia)) as PE.
  pose proof (pow2_pos (nbits - 1) ltac:(lia)) as PN.
  assert (Hsplit : 2 ^ nbits = 2 * 2 ^ (nbits - 1)).
  { replace nbits with (1 + (nbits - 1)) at 1 by lia. rewrite Z.pow_add_r by lia. reflexivity. }
  assert (Hs : negb (Z.shiftr b (nbits - 1) =? 0) = (b / 2 ^ (nbits - 1) =? 1)).
  { rewrite shiftr_pow by lia.
    assert (0 <= b / 2 ^ (nbits - 1) < 2) by (split; [apply Z.div_pos; lia|apply Z.div_lt_upper_bound; lia]).
    destruct (Z.eqb_spec (b / 2 ^ (nbits - 1)) 0), (Z.eqb_spec (b / 2 ^ (nbits - 1)) 1); simpl; try reflexivity; lia. }
  assert (HE : Z.land (Z.shiftr b M) (bitmask es) = (b / 2 ^ M) mod 2 ^ es).
  { rewrite land_bitmask by lia. rewrite shiftr_pow by lia. reflexivity. }
  assert (HT : Z.land b (bitmask M) = b mod 2 ^ M) by (apply land_bitmask; lia).
  set (E := (b / 2 ^ M) mod 2 ^ es) in *. set (T := b mod 2 ^ M) in *.
  assert (RE : 0 <= E < 2 ^ es) by (apply Z.mod_pos_bound; lia).
  assert (RT : 0 <= T < 2 ^ M) by (apply Z.mod_pos_bound; lia).
  assert (Hmag : Z.lor (Z.shiftl E M) T = b mod 2 ^ (nbits - 1)).
  { rewrite lor_disjoint by lia. replace (nbits - 1) with (M + es) by (unfold M; lia).
    rewrite split_fields by lia. reflexivity. }
  assert (Hc : Z.lor (Z.shiftl 1 M) T = 2 ^ M + T) by (rewrite lor_disjoint by lia; lia).
  assert (Htop : bitmask (nbits - 1) = 2 ^ (nbits - 1) - 1) by (apply bitmask_spec; lia).
  assert (Hem : bitmask es = 2 ^ es - 1) by (apply bitmask_spec; lia).
  unfold ef_decode, layout_value. fold nbits es.
  rewrite shiftl1_pow by lia.
  destruct (Z.ltb_spec b 0); [lia|]. destruct (Z.geb_spec b (2 ^ nbits)); [lia|]. simpl orb. cbv iota.
  rewrite Hm, Hx, Hs, HE, HT, Hmag, Hc, Htop, Hem. fold M. cbv zeta.
  change ((b / 2 ^ M) mod 2 ^ es) with E. change (b mod 2 ^ M) with T.
  set (s := b / 2 ^ (nbits - 1) =? 1).
  set (bias := (if es =? 0 then 0 else 2 ^ (es - 1) - 1) - e_eoffset f).
  set (mag := b mod 2 ^ (nbits - 1)).
  assert (Hfin : (if E =? 0 then FFin (RF s (1 - bias - M) T)
                  else FFin (RF s (1 - bias - M + (E - 1)) (2 ^ M + T))) =
                 (if E =? 0 then FFin (RF s (1 - bias - M) T) else FFin (RF s (E - bias - M) (2 ^ M + T)))).
  { destruct (E =? 0); [reflexivity|]. do 2 f_equal. lia. }
  destruct (e_kind f) eqn:K.
  - (* IEEE *)
    specialize (HI eq_refl).
    destruct (Z.eqb_spec E 0) as [E0|E0].
    + destruct (Z.eqb_spec E (2 ^ es - 1)) as [E1|E1]; [|reflexivity].
      exfalso. assert (2 <= 2 ^ es) by (change 2 with (2 ^ 1) at 1; apply Z.pow_le_mono_r; lia). lia.
    + destruct (Z.eqb_spec E (2 ^ es - 1)); [destruct (e_inf f && (T =? 0)); reflexivity|]. do 3 f_equal. lia.
  - (* MAX_VAL *)
    destruct (mag =? 2 ^ (nbits - 1) - 1); [reflexivity|].
    destruct (e_inf f && (mag =? 2 ^ (nbits - 1) - 1 - 1)); [reflexivity|]. f_equal. exact Hfin.
  - (* NEG_ZERO *)
    destruct (e_inf f && (mag =? 2 ^ (nbits - 1) - 1)); [reflexivity|].
    assert (Hz : ((E =? 0) && (T =? 0)) = (mag =? 0)).
    { unfold mag. replace (nbits - 1) with (M + es) by (unfold M; lia). rewrite split_fields by lia. fold E T.
      destruct (Z.eqb_spec E 0), (Z.eqb_spec T 0), (Z.eqb_spec (E * 2 ^ M + T) 0); simpl; try reflexivity; nia. }
    simpl nan_kind_eqb. rewrite andb_true_r. rewrite Hz.
    rewrite (andb_comm (mag =? 0) s).
    destruct (s && (mag =? 0)); [reflexivity|]. f_equal. exact Hfin.
  - (* NONE *)
    destruct (e_inf f && (mag =? 2 ^ (nbits - 1) - 1)); [reflexivity|].
    simpl nan_kind_eqb. rewrite andb_false_r. f_equal. exact Hfin.
Qed.

(* ---------------------------------------------------------------- meaning of the boolean equivalences used in the statements *)
Theorem fl_equiv_sound x y : fl_wf x -> fl_wf y -> fl_equiv x y = true ->
  match x, y with
  | FFin a, FFin b => R2R a = R2R b /\ (rc a = 0 -> rs a = rs b)
  | FInf s, FInf t => s = t
  | FNaN _, FNaN _ => True
  | _, _ => False
  end.
Proof.
  intros Wx Wy E. destruct x as [a|s|s], y as [b|t|t]; simpl in *; try discriminate; auto.
  - apply andb_prop in E. destruct E as [E1 E2]. split.
    + apply eq_iff_denote; assumption.
    + intros Z0. unfold is_zero in E2. rewrite Z0 in E2. simpl in E2. apply eqb_prop. exact E2.
  - apply eqb_prop. exact E.
Qed.

Theorem rf_order_sound a b : rf_wf a -> rf_wf b ->
  (rf_eqb a b = true <-> R2R a = R2R b) /\
  (rf_leb a b = true <-> (R2R a <= R2R b)%R) /\
  (rf_compare a b = Lt <-> (R2R a < R2R b)%R).
Proof.
  intros Wa Wb. split; [apply eq_iff_denote; assumption|].
  unfold rf_leb. rewrite compare_denote by assumption.
  destruct (Rcompare_spec (R2R a) (R2R b)) as [L|E|G]; (split; split; intros Hh); try reflexivity; try discriminate; try lra.
Qed.
