(* Parametric (unbounded width) theorems of property C16. *)
From Coq Require Import ZArith List Bool Lia Reals.
From Flocq Require Import Core.Zaux Core.Raux Core.Defs Core.Float_prop.
From FpyV Require Import Num.RealFloat Num.RealFloatProofs Num.Float Num.FloatProofs Num.Formats Num.Layout.
Import ListNotations.
Open Scope Z_scope.

Ltac Zify.zify_post_hook ::= Z.to_euclidean_division_equations.

(* ---------------------------------------------------------------- bit-level facts *)
Lemma shiftl1_pow k : 0 <= k -> Z.shiftl 1 k = 2 ^ k.
Proof. intros. rewrite Z.shiftl_1_l. reflexivity. Qed.

Lemma lor_disjoint a m t : 0 <= m -> 0 <= t < 2 ^ m -> Z.lor (Z.shiftl a m) t = a * 2 ^ m + t.
Proof.
  intros Hm Ht. rewrite Z.shiftl_mul_pow2 by lia.
  assert (L : Z.land (a * 2 ^ m) t = 0).
  { apply Z.bits_inj'. intros n Hn. rewrite Z.land_spec, Z.bits_0.
    destruct (Z.ltb_spec n m).
    - rewrite Z.mul_pow2_bits_low by lia. reflexivity.
    - destruct (Z.eq_dec t 0) as [->|Hz]; [rewrite Z.bits_0; apply andb_false_r|].
      rewrite (Z.bits_above_log2 t n); [apply andb_false_r|lia|].
      apply Z.lt_le_trans with m; [|lia]. apply Z.log2_lt_pow2; lia. }
  rewrite <- Z.lxor_lor by exact L. symmetry. apply Z.add_nocarry_lxor. exact L.
Qed.

Lemma split_fields b M es : 0 <= M -> 0 <= es ->
  b mod 2 ^ (M + es) = ((b / 2 ^ M) mod 2 ^ es) * 2 ^ M + b mod 2 ^ M.
Proof.
  intros HM He. rewrite Z.pow_add_r by lia.
  pose proof (pow2_pos es He). pose proof (pow2_pos M HM).
  rewrite Z.rem_mul_r by lia.
  ring.
Qed.

(* ---------------------------------------------------------------- extended floats: decode = layout *)
Lemma ext_to_mpb_params f m : ext_to_mpb f = Ok m ->
  b_pmax m = e_nbits f - e_es f /\
  b_emin m = 1 - (if e_es f =? 0 then 0 else bitmask (e_es f - 1)) + e_eoffset f.
Proof.
  unfold ext_to_mpb. cbv zeta.
  match goal with |- bind ?r _ = Ok _ -> _ => destruct r as [mv|]; simpl; [|discriminate] end.
  intros [= <-]. simpl. split; reflexivity.
Qed.

Lemma ef_mpb_params f : ef_valid f = true ->
  b_pmax (ef_mpb f) = e_nbits f - e_es f /\
  b_emin (ef_mpb f) = 1 - (if e_es f =? 0 then 0 else bitmask (e_es f - 1)) + e_eoffset f.
Proof.
  unfold ef_valid, ef_mpb. destruct (ef_ctor f) as [m|] eqn:C; [|discriminate]. intros _.
  unfold ef_ctor in C. destruct (format_is_valid _ _ _ _); simpl in C; [|discriminate].
  destruct (ext_to_mpb f) as [m'|] eqn:E; simpl in C; [|discriminate].
  destruct (mpb_ctor_ok m'); [|discriminate]. injection C as <-.
  apply ext_to_mpb_params. exact E.
Qed.

