(* Rounding contexts of fpy2/number/context/*.py: the parameter records only.
   The rounding function itself (`ctx_round`) is in Num/Ctx.v. *)
From Coq Require Import ZArith List Bool.
From FpyV Require Import Num.RealFloat Num.Float.
Open Scope Z_scope.

Inductive ovmode := OV_OVERFLOW | OV_SATURATE | OV_WRAP | OV_ASSERT.

(* EFloatNanKind *)
Inductive nankind := NK_IEEE | NK_MAXVAL | NK_NEGZERO | NK_NONE.

(* special-value options shared by the multi-precision families *)
Record special := SP {
  sp_enable_nan : bool;
  sp_enable_inf : bool;
  sp_nan_value : option fl;      (* nan_value: substitute when NaN is not enabled *)
  sp_inf_value : option fl }.    (* inf_value: substitute when infinity is not enabled *)

Definition sp_default := SP true true None None.

(* num_randbits: Some 0 = deterministic; Some k = k random bits; None = all bits *)
Inductive ctx :=
  | CReal
  | CMPFloat (pmax : Z) (rm : rmode) (k : option Z) (sp : special)
  | CMPSFloat (pmax emin : Z) (rm : rmode) (k : option Z) (sp : special)
  | CMPBFloat (pmax emin : Z) (pos_max neg_max : rf) (rm : rmode) (ov : ovmode) (k : option Z) (sp : special)
  | CEFloat (es nbits : Z) (enable_inf : bool) (nk : nankind) (eoffset : Z)
            (rm : rmode) (ov : ovmode) (k : option Z) (nan_value inf_value : option fl)
  | CMPFixed (nmin : Z) (rm : rmode) (k : option Z) (sp : special) (neg_zero : bool)
  | CMPBFixed (nmin : Z) (pos_max neg_max : rf) (rm : rmode) (ov : ovmode) (k : option Z)
              (sp : special) (neg_zero : bool)
  | CFixed (signed : bool) (scale nbits : Z) (rm : rmode) (ov : ovmode) (k : option Z)
           (nan_value inf_value : option fl)
  | CSMFixed (scale nbits : Z) (rm : rmode) (ov : ovmode) (k : option Z)
             (nan_value inf_value : option fl)
  | CExp (nbits eoffset : Z) (rm : rmode) (ov : ovmode) (inf_value : option fl).

(* IEEEContext(es, nbits, rm, overflow) *)
Definition CIEEE (es nbits : Z) (rm : rmode) (ov : ovmode) : ctx :=
  CEFloat es nbits true NK_IEEE 0 rm ov (Some 0) None None.

Definition FP64 := CIEEE 11 64 RNE OV_OVERFLOW.
Definition FP32 := CIEEE 8 32 RNE OV_OVERFLOW.
