(* Proofs about the RealFloat model: exact arithmetic denotes the real
   operations (property C05, RealFloat layer). *)
From Coq Require Import ZArith List Bool Lia Reals Psatz.
From Flocq Require Import Core.Zaux Core.Raux Core.Defs Core.Digits Core.Float_prop Calc.Operations.
From FpyV Require Import Num.RealFloat.
Open Scope Z_scope.

Definition R2R (x : rf) : R := F2R (Float radix2 (rf_m x) (rexp x)).

(* ---------------------------------------------------------------- integer facts *)
Lemma bitlen_nonneg c : 0 <= bitlen c.
Proof. unfold bitlen. destruct (c =? 0); [lia|]. pose proof (Z.log2_nonneg c). lia. Qed.

Lemma bitlen_bounds c : 0 < c -> 2 ^ (bitlen c - 1) <= c < 2 ^ bitlen c.
Proof.
  intros Hc. unfold bitlen. destruct (Z.eqb_spec c 0); [lia|].
  replace (Z.log2 c + 1 - 1) with (Z.log2 c) by lia.
  replace (Z.log2 c + 1) with (Z.succ (Z.log2 c)) by lia.
  apply Z.log2_spec; lia.
Qed.

Lemma bitlen_Zdigits c : 0 <= c -> bitlen c = Zdigits radix2 c.
Proof.
  intros Hc. destruct (Z.eq_dec c 0) as [->|Hn]; [reflexivity|].
  symmetry. apply Zdigits_unique. rewrite Z.abs_eq by lia.
  change (Zpower radix2) with (Z.pow 2). apply bitlen_bounds. lia.
Qed.

Lemma bitlen_unique c d : 2 ^ (d - 1) <= c < 2 ^ d -> 0 < c -> bitlen c = d.
Proof.
  intros H Hc. rewrite bitlen_Zdigits by lia. apply Zdigits_unique.
  rewrite Z.abs_eq by lia. exact H.
Qed.

Lemma bitlen_pos c : 0 < c -> 0 < bitlen c.
Proof. intros. unfold bitlen. destruct (Z.eqb_spec c 0); [lia|]. pose proof (Z.log2_nonneg c). lia. Qed.

Lemma bitmask_spec k : 0 <= k -> bitmask k = 2 ^ k - 1.
Proof. intros. unfold bitmask. rewrite Z.shiftl_1_l. reflexivity. Qed.

Lemma land_bitmask c k : 0 <= k -> Z.land c (bitmask k) = c mod 2 ^ k.
Proof.
  intros Hk. unfold bitmask. rewrite <- Z.land_ones by lia.
  unfold Z.ones. rewrite Z.sub_1_r. reflexivity.
Qed.

Lemma shiftl_pow c k : 0 <= k -> Z.shiftl c k = c * 2 ^ k.
Proof. intros. apply Z.shiftl_mul_pow2; lia. Qed.

Lemma shiftr_pow c k : 0 <= k -> Z.shiftr c k = c / 2 ^ k.
Proof. intros. apply Z.shiftr_div_pow2; lia. Qed.

Lemma pow2_pos k : 0 <= k -> 0 < 2 ^ k.
Proof. intros. apply Z.pow_pos_nonneg; lia. Qed.

(* ---------------------------------------------------------------- denotation basics *)
Lemma R2R_zero x : rc x = 0 -> R2R x = 0%R.
Proof. intros H. unfold R2R, rf_m. rewrite H. destruct (rs x); simpl; apply F2R_0. Qed.

Lemma rf_m_cond x : rf_m x = cond_Zopp (rs x) (rc x).
Proof. unfold rf_m, cond_Zopp. destruct (rs x); reflexivity. Qed.

Lemma R2R_F2R x : R2R x = F2R (Float radix2 (cond_Zopp (rs x) (rc x)) (rexp x)).
Proof. unfold R2R. rewrite rf_m_cond. reflexivity. Qed.

Lemma F2R_shift m e k : 0 <= k ->
  F2R (Float radix2 (m * 2 ^ k) (e - k)) = F2R (Float radix2 m e).
Proof.
  intros Hk. rewrite (F2R_change_exp radix2 (e - k) m e) by lia.
  replace (e - (e - k)) with k by lia. reflexivity.
Qed.

Lemma R2R_mk s e c : R2R (RF s e c) = F2R (Float radix2 (if s then - c else c) e).
Proof. reflexivity. Qed.

(* ---------------------------------------------------------------- neg / abs / pos *)
Theorem neg_denote x : R2R (rf_neg x) = (- R2R x)%R.
Proof.
  unfold R2R, rf_neg, rf_m; simpl. rewrite <- F2R_Zopp.
  destruct (rs x); simpl; f_equal; f_equal; lia.
Qed.

Theorem pos_denote x : R2R (rf_pos x) = R2R x.
Proof. reflexivity. Qed.

Theorem abs_denote x : rf_wf x -> R2R (rf_abs x) = Rabs (R2R x).
Proof.
  intros Hw. unfold R2R, rf_abs, rf_m; simpl. rewrite <- F2R_Zabs.
  unfold rf_wf in Hw. destruct (rs x); f_equal; f_equal; lia.
Qed.

(* ---------------------------------------------------------------- add *)
Theorem add_denote x y : R2R (rf_add x y) = (R2R x + R2R y)%R.
Proof.
  unfold rf_add.
  destruct (Z.eqb_spec (rc x) 0) as [Hx|Hx].
  { destruct (Z.eqb_spec (rc y) 0) as [Hy|Hy].
    - rewrite (R2R_zero x Hx), (R2R_zero y Hy). rewrite R2R_zero by reflexivity. ring.
    - rewrite (R2R_zero x Hx). ring. }
  destruct (Z.eqb_spec (rc y) 0) as [Hy|Hy].
  { rewrite (R2R_zero y Hy). ring. }
  set (e := Z.min (rexp x) (rexp y)).
  assert (He1 : 0 <= rexp x - e) by (unfold e; lia).
  assert (He2 : 0 <= rexp y - e) by (unfold e; lia).
  rewrite !shiftl_pow by assumption.
  set (m1 := if rs x then - (rc x * 2 ^ (rexp x - e)) else rc x * 2 ^ (rexp x - e)).
  set (m2 := if rs y then - (rc y * 2 ^ (rexp y - e)) else rc y * 2 ^ (rexp y - e)).
  assert (H1 : R2R x = F2R (Float radix2 m1 e)).
  { unfold R2R. rewrite (F2R_change_exp radix2 e) by (unfold e; lia).
    f_equal. f_equal. unfold m1, rf_m. change (Zpower radix2) with (Z.pow 2).
    destruct (rs x); lia. }
  assert (H2 : R2R y = F2R (Float radix2 m2 e)).
  { unfold R2R. rewrite (F2R_change_exp radix2 e) by (unfold e; lia).
    f_equal. f_equal. unfold m2, rf_m. change (Zpower radix2) with (Z.pow 2).
    destruct (rs y); lia. }
  rewrite H1, H2. rewrite R2R_mk.
  replace (if m1 + m2 <? 0 then - (if m1 + m2 <? 0 then - (m1 + m2) else m1 + m2)
           else if m1 + m2 <? 0 then - (m1 + m2) else m1 + m2) with (m1 + m2)
    by (destruct (m1 + m2 <? 0); lia).
  unfold F2R; simpl. rewrite plus_IZR. ring.
Qed.

Theorem sub_denote x y : R2R (rf_sub x y) = (R2R x - R2R y)%R.
Proof. unfold rf_sub. rewrite add_denote, neg_denote. ring. Qed.

Lemma add_wf x y : rf_wf x -> rf_wf y -> rf_wf (rf_add x y).
Proof.
  unfold rf_wf, rf_add. intros Hx Hy.
  destruct (rc x =? 0). { destruct (rc y =? 0); simpl; lia. }
  destruct (rc y =? 0); [assumption|].
  cbv zeta. match goal with |- context [?m <? 0] => destruct (Z.ltb_spec m 0) end; simpl; lia.
Qed.

(* sign of an exact zero sum: -0 only when both operands are -0 (IEEE 754 6.3),
   else the (non-cancelling) operand's own sign is kept *)
Theorem add_zero_sign x y : rc x = 0 -> rc y = 0 -> rs (rf_add x y) = rs x && rs y.
Proof. intros Hx Hy. unfold rf_add. rewrite Hx, Hy. reflexivity. Qed.

(* ---------------------------------------------------------------- mul *)
Theorem mul_denote x y : R2R (rf_mul x y) = (R2R x * R2R y)%R.
Proof.
  unfold rf_mul.
  destruct (Z.eqb_spec (rc x) 0) as [Hx|Hx]; simpl.
  { rewrite (R2R_zero x Hx), R2R_zero by reflexivity. ring. }
  destruct (Z.eqb_spec (rc y) 0) as [Hy|Hy]; simpl.
  { rewrite (R2R_zero y Hy), R2R_zero by reflexivity. ring. }
  unfold R2R, rf_m, F2R; simpl. rewrite bpow_plus.
  replace (IZR (if xorb (rs x) (rs y) then - (rc x * rc y) else rc x * rc y))
    with (IZR (if rs x then - rc x else rc x) * IZR (if rs y then - rc y else rc y))%R.
  ring.
  rewrite <- mult_IZR. f_equal. destruct (rs x), (rs y); simpl; lia.
Qed.

Theorem mul_sign x y : rs (rf_mul x y) = xorb (rs x) (rs y).
Proof. unfold rf_mul. destruct ((rc x =? 0) || (rc y =? 0)); reflexivity. Qed.

(* ---------------------------------------------------------------- pow *)
Lemma F2R_pow m e k : 0 < k ->
  F2R (Float radix2 (m ^ k) (e * k)) = (F2R (Float radix2 m e) ^ Z.to_nat k)%R.
Proof.
  intros Hk. unfold F2R; simpl.
  rewrite Rpow_mult_distr. f_equal.
  - rewrite <- (Z2Nat.id k) at 1 by lia. rewrite <- pow_IZR. reflexivity.
  - rewrite <- (Z2Nat.id k) at 1 by lia.
    generalize (Z.to_nat k). intros n. induction n as [|n IH].
    + simpl. rewrite Z.mul_0_r. reflexivity.
    + rewrite Nat2Z.inj_succ. replace (e * Z.succ (Z.of_nat n)) with (e + e * Z.of_nat n) by lia.
      rewrite bpow_plus, IH. simpl. reflexivity.
Qed.

Theorem pow_denote x k y : rf_wf x -> rf_pow x k = Ok y -> R2R y = (R2R x ^ Z.to_nat k)%R.
Proof.
  unfold rf_pow, rf_wf. intros Hw.
  destruct (Z.ltb_spec k 0); [discriminate|].
  destruct (Z.eqb_spec k 0) as [->|Hk].
  { intros [= <-]. unfold R2R, rf_m; simpl. unfold F2R; simpl. ring. }
  intros [= <-]. assert (0 < k) by lia.
  unfold R2R at 1, rf_m at 1; simpl.
  assert (Hm : (if rs x && (k mod 2 =? 1) then - rc x ^ k else rc x ^ k) = (rf_m x) ^ k).
  { unfold rf_m. destruct (rs x); simpl; [|reflexivity].
    destruct (Z.eqb_spec (k mod 2) 1) as [Ho|Ho].
    - rewrite Z.pow_opp_odd; [reflexivity|]. exists (k / 2).
      rewrite (Z.div_mod k 2) at 1 by lia. lia.
    - rewrite Z.pow_opp_even; [reflexivity|]. exists (k / 2).
      assert (k mod 2 = 0) by (pose proof (Z.mod_pos_bound k 2); lia).
      rewrite (Z.div_mod k 2) at 1 by lia. lia. }
  rewrite Hm. apply F2R_pow. assumption.
Qed.

Theorem pow_neg_rejected x k : k < 0 -> rf_pow x k = Err ValueErr.
Proof. intros. unfold rf_pow. destruct (Z.ltb_spec k 0); [reflexivity|lia]. Qed.

(* ---------------------------------------------------------------- compare *)
Lemma R2R_sign_pos x : rf_wf x -> rc x <> 0 -> rs x = false -> (0 < R2R x)%R.
Proof.
  unfold rf_wf. intros Hw Hc Hs. unfold R2R, rf_m. rewrite Hs. apply F2R_gt_0. simpl. lia.
Qed.

Lemma R2R_sign_neg x : rf_wf x -> rc x <> 0 -> rs x = true -> (R2R x < 0)%R.
Proof.
  unfold rf_wf. intros Hw Hc Hs. unfold R2R, rf_m. rewrite Hs. apply F2R_lt_0. simpl. lia.
Qed.

Lemma mag_cmp_lt c1 e1 c2 e2 : 0 < c1 -> 0 < c2 ->
  e1 + bitlen c1 < e2 + bitlen c2 ->
  (F2R (Float radix2 c1 e1) < F2R (Float radix2 c2 e2))%R.
Proof.
  intros H1 H2 Hlt.
  pose proof (bitlen_bounds c1 H1) as [_ B1].
  pose proof (bitlen_bounds c2 H2) as [B2 _].
  pose proof (bitlen_pos c1 H1). pose proof (bitlen_pos c2 H2).
  apply Rlt_le_trans with (bpow radix2 (e1 + bitlen c1)).
  - unfold F2R; simpl. rewrite bpow_plus, Rmult_comm.
    apply Rmult_lt_compat_l. apply bpow_gt_0.
    rewrite <- IZR_Zpower by lia. apply IZR_lt. exact B1.
  - apply Rle_trans with (bpow radix2 (e2 + bitlen c2 - 1)).
    + apply bpow_le. lia.
    + unfold F2R; simpl. replace (e2 + bitlen c2 - 1) with ((bitlen c2 - 1) + e2) by lia.
      rewrite bpow_plus. apply Rmult_le_compat_r. apply bpow_ge_0.
      rewrite <- IZR_Zpower by lia. apply IZR_le. exact B2.
Qed.

Lemma cmp_mag c1 e1 c2 e2 : 0 < c1 -> 0 < c2 ->
  match (e1 + bitlen c1 - 1) ?= (e2 + bitlen c2 - 1) with
  | Gt => Gt | Lt => Lt
  | Eq => Z.shiftl c1 (e1 - Z.min e1 e2) ?= Z.shiftl c2 (e2 - Z.min e1 e2)
  end = Rcompare (F2R (Float radix2 c1 e1)) (F2R (Float radix2 c2 e2)).
Proof.
  intros H1 H2.
  destruct (Z.compare_spec (e1 + bitlen c1 - 1) (e2 + bitlen c2 - 1)) as [He|He|He].
  - set (e := Z.min e1 e2).
    rewrite !shiftl_pow by (unfold e; lia).
    rewrite (F2R_change_exp radix2 e c1 e1) by (unfold e; lia).
    rewrite (F2R_change_exp radix2 e c2 e2) by (unfold e; lia).
    rewrite Rcompare_F2R. reflexivity.
  - symmetry. apply Rcompare_Lt. apply mag_cmp_lt; lia.
  - symmetry. apply Rcompare_Gt. apply mag_cmp_lt; lia.
Qed.

Theorem compare_denote x y : rf_wf x -> rf_wf y ->
  rf_compare x y = Rcompare (R2R x) (R2R y).
Proof.
  intros Hx Hy. unfold rf_compare.
  destruct (Z.eqb_spec (rc x) 0) as [Zx|Zx].
  { rewrite (R2R_zero x Zx).
    destruct (Z.eqb_spec (rc y) 0) as [Zy|Zy].
    - rewrite (R2R_zero y Zy). symmetry. apply Rcompare_Eq. reflexivity.
    - destruct (rs y) eqn:Sy; symmetry.
      + apply Rcompare_Gt. apply R2R_sign_neg; assumption.
      + apply Rcompare_Lt. apply R2R_sign_pos; assumption. }
  destruct (Z.eqb_spec (rc y) 0) as [Zy|Zy].
  { rewrite (R2R_zero y Zy). destruct (rs x) eqn:Sx; symmetry.
    - apply Rcompare_Lt. apply R2R_sign_neg; assumption.
    - apply Rcompare_Gt. apply R2R_sign_pos; assumption. }
  assert (Px : 0 < rc x) by (unfold rf_wf in Hx; lia).
  assert (Py : 0 < rc y) by (unfold rf_wf in Hy; lia).
  destruct (rs x) eqn:Sx, (rs y) eqn:Sy; simpl.
  - (* both negative *)
    unfold rf_e, rf_p. rewrite cmp_mag by assumption.
    unfold R2R, rf_m. rewrite Sx, Sy.
    rewrite !F2R_Zopp, Rcompare_opp. unfold cmp_rev. symmetry. apply Rcompare_sym.
  - symmetry. apply Rcompare_Lt. apply Rlt_trans with 0%R.
    apply R2R_sign_neg; assumption. apply R2R_sign_pos; assumption.
  - symmetry. apply Rcompare_Gt. apply Rlt_trans with 0%R.
    apply R2R_sign_neg; assumption. apply R2R_sign_pos; assumption.
  - unfold rf_e, rf_p. rewrite cmp_mag by assumption.
    unfold R2R, rf_m. rewrite Sx, Sy. reflexivity.
Qed.

Corollary eq_iff_denote x y : rf_wf x -> rf_wf y -> (rf_eqb x y = true <-> R2R x = R2R y).
Proof.
  intros Hx Hy. unfold rf_eqb. rewrite compare_denote by assumption.
  destruct (Rcompare_spec (R2R x) (R2R y)); split; intros; try discriminate; try reflexivity; try assumption; lra.
Qed.

(* ---------------------------------------------------------------- split *)
Theorem split_sum x n : rf_wf x ->
  let '(hi, lo) := split x n in (R2R hi + R2R lo)%R = R2R x.
Proof.
  intros Hw. unfold split, is_zero.
  destruct (Z.eqb_spec (rc x) 0) as [Zx|Zx].
  { rewrite (R2R_zero x Zx), !R2R_zero by reflexivity. ring. }
  destruct (Z.geb_spec n (rf_e x)).
  { rewrite (R2R_zero (RF _ _ 0)) by reflexivity. unfold R2R, rf_m; simpl. ring. }
  destruct (Z.ltb_spec n (rexp x)).
  { rewrite (R2R_zero (RF _ _ 0)) by reflexivity. unfold R2R, rf_m; simpl. ring. }
  set (k := n + 1 - rexp x). assert (Hk : 0 <= k) by (unfold k; lia).
  rewrite shiftr_pow, land_bitmask by assumption.
  unfold R2R at 1, rf_m at 1; simpl.
  rewrite (F2R_change_exp radix2 (rexp x) _ (rexp x + k)) by lia.
  replace (rexp x + k - rexp x) with k by lia.
  unfold R2R, rf_m; simpl. change (Zpower radix2 k) with (2 ^ k).
  unfold F2R; simpl. rewrite <- Rmult_plus_distr_r. f_equal. rewrite <- plus_IZR. f_equal.
  pose proof (Z.div_mod (rc x) (2 ^ k)). pose proof (pow2_pos k Hk).
  destruct (rs x); lia.
Qed.

(* the low part has no digit above n; the high part none at or below n *)
Theorem split_parts x n : rf_wf x ->
  let '(hi, lo) := split x n in
  rs hi = rs x /\ rs lo = rs x /\
  (Rabs (R2R lo) < bpow radix2 (n + 1))%R /\
  (exists z, R2R hi = (IZR z * bpow radix2 (n + 1))%R) /\
  0 <= rc hi /\ 0 <= rc lo.
Proof.
  intros Hw. unfold rf_wf in Hw. unfold split, is_zero.
  destruct (Z.eqb_spec (rc x) 0) as [Zx|Zx].
  { simpl. repeat split; try lia.
    - rewrite R2R_zero by reflexivity. rewrite Rabs_R0. apply bpow_gt_0.
    - exists 0. rewrite R2R_zero by reflexivity. ring. }
  assert (Pc : 0 < rc x) by lia.
  destruct (Z.geb_spec n (rf_e x)) as [Hge|Hlt].
  { simpl. repeat split; try lia.
    - unfold R2R, rf_m; simpl.
      replace (if rs x then - rc x else rc x) with (cond_Zopp (rs x) (rc x)) by (destruct (rs x); reflexivity).
      rewrite F2R_cond_Zopp, abs_cond_Ropp, Rabs_pos_eq by (apply F2R_ge_0; simpl; lia).
      unfold rf_e, rf_p in Hge. pose proof (bitlen_bounds _ Pc) as [_ B]. pose proof (bitlen_pos _ Pc).
      apply Rlt_le_trans with (bpow radix2 (rexp x + bitlen (rc x))).
      + unfold F2R; simpl. rewrite bpow_plus, Rmult_comm. apply Rmult_lt_compat_l. apply bpow_gt_0.
        rewrite <- IZR_Zpower by lia. apply IZR_lt. exact B.
      + apply bpow_le. lia.
    - exists 0. rewrite R2R_zero by reflexivity. ring. }
  destruct (Z.ltb_spec n (rexp x)) as [Hb|Hb].
  { simpl. repeat split; try lia.
    - rewrite R2R_zero by reflexivity. rewrite Rabs_R0. apply bpow_gt_0.
    - exists (rf_m x * 2 ^ (rexp x - (n + 1))). unfold R2R.
      rewrite (F2R_change_exp radix2 (n + 1)) by (simpl; lia). reflexivity. }
  set (k := n + 1 - rexp x). assert (Hk : 0 <= k) by (unfold k; lia).
  rewrite shiftr_pow, land_bitmask by assumption. pose proof (pow2_pos k Hk).
  simpl. repeat split; try lia.
  - unfold R2R, rf_m; simpl.
    replace (if rs x then - (rc x mod 2 ^ k) else rc x mod 2 ^ k) with (cond_Zopp (rs x) (rc x mod 2 ^ k)) by (destruct (rs x); reflexivity).
    pose proof (Z.mod_pos_bound (rc x) (2 ^ k)).
    rewrite F2R_cond_Zopp, abs_cond_Ropp, Rabs_pos_eq by (apply F2R_ge_0; simpl; lia).
    replace (n + 1) with (k + rexp x) by (unfold k; lia). rewrite bpow_plus.
    unfold F2R; cbn [Fnum Fexp]. apply Rmult_lt_compat_r. apply bpow_gt_0.
    rewrite <- IZR_Zpower by lia. apply IZR_lt. change (Zpower radix2 k) with (2 ^ k). lia.
  - exists (if rs x then - (rc x / 2 ^ k) else rc x / 2 ^ k).
    unfold R2R, rf_m; simpl. replace (rexp x + k) with (n + 1) by (unfold k; lia). reflexivity.
  - apply Z.div_pos; lia.
  - apply Z.mod_pos_bound. lia.
Qed.

(* ---------------------------------------------------------------- is_more_significant / bit / int *)
Theorem is_more_significant_spec x n : rf_wf x ->
  is_more_significant x n = is_zero (snd (split x n)).
Proof.
  intros Hw. unfold rf_wf in Hw. unfold is_more_significant, split, is_zero.
  destruct (Z.eqb_spec (rc x) 0) as [Zx|Zx]; [reflexivity|].
  destruct (Z.gtb_spec (rexp x) n) as [H1|H1].
  { destruct (Z.geb_spec n (rf_e x)) as [H2|H2].
    - exfalso. unfold rf_e, rf_p in H2. pose proof (bitlen_pos (rc x)). lia.
    - destruct (Z.ltb_spec n (rexp x)); [reflexivity|lia]. }
  destruct (Z.leb_spec (rf_e x) n) as [H2|H2].
  { destruct (Z.geb_spec n (rf_e x)); [|lia]. simpl. destruct (Z.eqb_spec (rc x) 0); [lia|reflexivity]. }
  destruct (Z.geb_spec n (rf_e x)); [lia|].
  destruct (Z.ltb_spec n (rexp x)); [lia|]. simpl.
  replace (n - rexp x + 1) with (n + 1 - rexp x) by lia. reflexivity.
Qed.

Theorem int_exact x z : rf_wf x -> rf_to_int x = Ok z -> IZR z = R2R x.
Proof.
  intros Hw. unfold rf_wf in Hw. unfold rf_to_int, is_integer.
  rewrite is_more_significant_spec by assumption.
  pose proof (split_sum x (-1) Hw) as Hs. pose proof (split_parts x (-1) Hw) as Hp.
  destruct (split x (-1)) as [hi lo] eqn:E.
  unfold is_zero; simpl. destruct (Z.eqb_spec (rc lo) 0) as [Zl|Zl]; [|discriminate]. simpl.
  destruct (Z.eqb_spec (rc x) 0) as [Zx|Zx].
  { intros [= <-]. rewrite R2R_zero; auto. }
  destruct (Z.geb_spec (rexp x) 0) as [He|He]; intros [= <-].
  - rewrite shiftl_pow by assumption. unfold R2R.
    rewrite (F2R_change_exp radix2 0 _ (rexp x)) by lia. unfold F2R; simpl. rewrite Rmult_1_r.
    f_equal. rewrite Z.sub_0_r. change (Z.pow_pos 2) with (Z.pow_pos radix2).
    unfold rf_m. change (Zpower radix2 (rexp x)) with (2 ^ rexp x). destruct (rs x); lia.
  - (* exp < 0 and the fractional digits are zero *)
    revert E. unfold split, is_zero. destruct (Z.eqb_spec (rc x) 0); [lia|].
    assert (Pc : 0 < rc x) by lia.
    destruct (Z.geb_spec (-1) (rf_e x)).
    { intros [= <- <-]. simpl in Zl. lia. }
    destruct (Z.ltb_spec (-1) (rexp x)); [lia|].
    intros [= <- <-]. simpl in Zl.
    replace (-1 + 1 - rexp x) with (- rexp x) in Zl by lia.
    rewrite land_bitmask in Zl by lia.
    rewrite shiftr_pow by lia.
    pose proof (pow2_pos (- rexp x)).
    assert (Hd : rc x = 2 ^ (- rexp x) * (rc x / 2 ^ (- rexp x))).
    { pose proof (Z.div_mod (rc x) (2 ^ (- rexp x))). lia. }
    unfold R2R, rf_m.
    transitivity (F2R (Float radix2 ((if rs x then - (rc x / 2 ^ (- rexp x)) else rc x / 2 ^ (- rexp x)) * 2 ^ (- rexp x)) (0 - (- rexp x)))).
    + rewrite F2R_shift by lia. unfold F2R; simpl. rewrite Rmult_1_r. f_equal. destruct (rs x); lia.
    + f_equal. f_equal. destruct (rs x); lia. lia.
Qed.

Theorem int_rejects_fraction x : rf_wf x -> rf_to_int x = Err ValueErr ->
  forall z, IZR z <> R2R x.
Proof.
  intros Hw. unfold rf_to_int, is_integer.
  rewrite is_more_significant_spec by assumption.
  pose proof (split_sum x (-1) Hw) as Hs. pose proof (split_parts x (-1) Hw) as Hp.
  destruct (split x (-1)) as [hi lo].
  destruct Hp as (_ & _ & Hlo & [zh Hhi] & _ & Hlc).
  unfold is_zero; simpl. destruct (Z.eqb_spec (rc lo) 0) as [Zl|Zl].
  { simpl. destruct (rc x =? 0); discriminate. }
  intros _ z Hz. simpl in Hlo, Hhi. rewrite Rmult_1_r in Hhi.
  (* lo = z - zh is an integer with |lo| < 1, so lo = 0, but rc lo <> 0 *)
  assert (Hl : R2R lo = IZR (z - zh)) by (rewrite minus_IZR; lra).
  rewrite Hl in Hlo. rewrite <- abs_IZR in Hlo. apply lt_IZR in Hlo.
  assert (z - zh = 0) by lia.
  assert (R2R lo = 0%R) by (rewrite Hl, H; reflexivity).
  unfold R2R in H0. apply eq_0_F2R in H0. unfold rf_m in H0. destruct (rs lo); lia.
Qed.

(* ---------------------------------------------------------------- normalize *)
Theorem normalize_denote x p n y : rf_wf x -> normalize x p n = Ok y ->
  R2R y = R2R x /\ rs y = rs x /\ rf_wf y.
Proof.
  intros Hw. unfold rf_wf in *.
  assert (Hgo : forall shift exp, exp = rexp x - shift ->
    (if shift =? 0 then Ok (RF (rs x) exp (rc x))
     else if shift >? 0 then Ok (RF (rs x) exp (Z.shiftl (rc x) shift))
     else if negb (Z.land (rc x) (bitmask (- shift)) =? 0) then Err ValueErr
     else Ok (RF (rs x) exp (Z.shiftr (rc x) (- shift)))) = Ok y ->
    R2R y = R2R x /\ rs y = rs x /\ 0 <= rc y).
  { intros shift exp ->.
    destruct (Z.eqb_spec shift 0) as [->|Hs].
    { intros [= <-]. rewrite Z.sub_0_r. simpl. auto. }
    destruct (Z.gtb_spec shift 0) as [Hp|Hp].
    { intros [= <-]. rewrite shiftl_pow by lia. simpl. pose proof (pow2_pos shift). split; [|split; [reflexivity|nia]].
      unfold R2R, rf_m; simpl.
      replace (if rs x then - (rc x * 2 ^ shift) else rc x * 2 ^ shift) with ((if rs x then - rc x else rc x) * 2 ^ shift) by (destruct (rs x); lia).
      apply F2R_shift. lia. }
    rewrite land_bitmask by lia.
    destruct (Z.eqb_spec (rc x mod 2 ^ (- shift)) 0) as [Hm|Hm]; [|discriminate]. simpl.
    intros [= <-]. rewrite shiftr_pow by lia. simpl. pose proof (pow2_pos (- shift)).
    split; [|split; [reflexivity|apply Z.div_pos; lia]].
    unfold R2R, rf_m; simpl.
    pose proof (Z.div_mod (rc x) (2 ^ (- shift))).
    rewrite <- (F2R_shift _ (rexp x - shift) (- shift)) by lia.
    f_equal. f_equal. destruct (rs x); lia. lia. }
  unfold normalize. destruct p as [p|], n as [n|].
  - destruct (p <? 0); [discriminate|].
    destruct (rexp x - (p - rf_p x) <=? n); apply Hgo; lia.
  - destruct (p <? 0); [discriminate|]. apply Hgo; lia.
  - apply Hgo; lia.
  - intros [= <-]. destruct x; simpl; auto.
Qed.
