(* Property C16, parametric theorems (every width, every scale): the
   two's-complement, sign-magnitude and exponential encodings, and the
   ordinals of the fixed-point formats. *)
From Coq Require Import ZArith List Bool Lia Reals.
From Flocq Require Import Core.Zaux Core.Raux Core.Defs Core.Float_prop.
From FpyV Require Import Num.RealFloat Num.RealFloatProofs Num.Float Num.FloatProofs Num.Formats Num.Layout Num.FormatsProofs.
Import ListNotations.
Open Scope Z_scope.

(* ---------------------------------------------------------------- comparing values of equal exponent *)
Lemma rf_compare_same_exp x y : rf_wf x -> rf_wf y -> rexp x = rexp y ->
  rf_compare x y = (rf_m x ?= rf_m y).
Proof.
  intros Hx Hy E. rewrite compare_denote by assumption. unfold R2R. rewrite E.
  apply Rcompare_F2R.
Qed.

Lemma rf_compare_ext x x' y : rf_wf x -> rf_wf x' -> rf_wf y -> R2R x = R2R x' ->
  rf_compare x y = rf_compare x' y /\ rf_compare y x = rf_compare y x'.
Proof. intros. rewrite !compare_denote by assumption. rewrite H2. auto. Qed.

(* fix_scaled: the significand moved to the format's exponent, exact when
   the value has no digit below the scale *)
Lemma fix_scaled_spec scale r : rf_wf r -> is_more_significant r (scale - 1) = true ->
  0 <= fix_scaled scale r /\ R2R r = R2R (RF (rs r) scale (fix_scaled scale r)) /\
  (rc r <> 0 -> fix_scaled scale r <> 0).
Proof.
  intros W M. unfold rf_wf in W. unfold fix_scaled.
  destruct (Z.eqb_spec (rc r) 0) as [Z0|Z0].
  { split; [lia|]. split; [|tauto]. rewrite R2R_zero by exact Z0. symmetry. apply R2R_zero. reflexivity. }
  destruct (Z.geb_spec (rexp r - scale) 0) as [O|O].
  - rewrite shiftl_pow by lia. pose proof (pow2_pos (rexp r - scale) O). split; [nia|]. split; [|nia].
    unfold R2R, rf_m. cbn [rs rexp rc].
    replace (if rs r then - (rc r * 2 ^ (rexp r - scale)) else rc r * 2 ^ (rexp r - scale))
      with ((if rs r then - rc r else rc r) * 2 ^ (rexp r - scale)) by (destruct (rs r); ring).
    rewrite <- (F2R_shift _ (rexp r) (rexp r - scale)) by lia. f_equal. f_equal. lia.
  - unfold is_more_significant, is_zero in M.
    destruct (Z.eqb_spec (rc r) 0); [contradiction|].
    destruct (Z.gtb_spec (rexp r) (scale - 1)); [lia|].
    destruct (Z.leb_spec (rf_e r) (scale - 1)); [discriminate|].
    rewrite land_bitmask in M by lia. apply Z.eqb_eq in M.
    replace (scale - 1 - rexp r + 1) with (scale - rexp r) in M by lia.
    rewrite shiftr_pow by lia. replace (- (rexp r - scale)) with (scale - rexp r) by lia.
    set (k := scale - rexp r) in *. pose proof (pow2_pos k ltac:(lia)) as Pk.
    assert (Q : rc r = rc r / 2 ^ k * 2 ^ k) by (pose proof (Z.div_mod (rc r) (2 ^ k)); lia).
    split; [apply Z.div_pos; lia|]. split.
    + unfold R2R, rf_m. cbn [rs rexp rc].
      rewrite <- (F2R_shift _ scale k) by lia. replace (scale - k) with (rexp r) by (unfold k; lia).
      f_equal. f_equal. destruct (rs r); lia.
    + intros _ Hq. rewrite Hq in Q. lia.
Qed.

(* ---------------------------------------------------------------- the sign bit *)
Lemma land_pow2 b k : 0 <= k -> Z.land b (2 ^ k) = if Z.testbit b k then 2 ^ k else 0.
Proof.
  intros Hk. apply Z.bits_inj'. intros n Hn. rewrite Z.land_spec, Z.pow2_bits_eqb by lia.
  destruct (Z.eqb_spec k n) as [->|N].
  - destruct (Z.testbit b n); [rewrite Z.pow2_bits_true by lia; reflexivity|rewrite Z.bits_0; reflexivity].
  - rewrite andb_false_r. destruct (Z.testbit b k); [|rewrite Z.bits_0; reflexivity].
    rewrite Z.pow2_bits_false by lia. reflexivity.
Qed.

Lemma top_bit b n : 1 <= n -> 0 <= b < 2 ^ n ->
  Z.testbit b (n - 1) = (2 ^ (n - 1) <=? b).
Proof.
  intros Hn Hb. pose proof (pow2_pos (n - 1) ltac:(lia)) as P.
  assert (S : 2 ^ n = 2 * 2 ^ (n - 1)).
  { replace n with (1 + (n - 1)) at 1 by lia. rewrite Z.pow_add_r by lia. reflexivity. }
  rewrite Z.testbit_eqb by lia.
  assert (0 <= b / 2 ^ (n - 1) < 2) by (split; [apply Z.div_pos; lia|apply Z.div_lt_upper_bound; lia]).
  destruct (Z.leb_spec (2 ^ (n - 1)) b) as [L|L].
  - assert (1 <= b / 2 ^ (n - 1)) by (apply Z.div_le_lower_bound; lia).
    replace (b / 2 ^ (n - 1)) with 1 by lia. reflexivity.
  - rewrite Z.div_small by lia. reflexivity.
Qed.

(* ================================================================ two's complement *)
Section Twos.
Variable f : fixfmt.
Hypothesis Hok : fix_ctor_ok f = true.
Let n := x_nbits f.
Let sc := x_scale f.

Lemma fix_n_pos : 1 <= n.
Proof. unfold fix_ctor_ok in Hok. fold n in Hok. destruct (x_signed f); lia. Qed.

Lemma fix_n_signed : x_signed f = true -> 2 <= n.
Proof. intros S. unfold fix_ctor_ok in Hok. fold n in Hok. rewrite S in Hok. lia. Qed.

(* decode: the pattern read as a (signed) integer, times 2^scale *)
Theorem fix_decode_layout b : 0 <= b < 2 ^ n ->
  exists r, fix_decode f b = Ok (FFin r) /\ rf_wf r /\ rexp r = sc /\
    rf_m r = (if x_signed f then twos_value n b else b) /\
    (rc r = 0 -> rs r = false).
Proof.
  intros Hb. pose proof fix_n_pos as Hn. unfold fix_decode. fold n sc.
  rewrite shiftl1_pow by lia.
  destruct (Z.ltb_spec b 0); [lia|]. destruct (Z.geb_spec b (2 ^ n)); [lia|]. simpl orb. cbv iota.
  destruct (x_signed f) eqn:S.
  - rewrite shiftl1_pow by lia. rewrite land_pow2 by lia. rewrite top_bit by lia.
    unfold twos_value. pose proof (pow2_pos (n - 1) ltac:(lia)).
    destruct (Z.leb_spec (2 ^ (n - 1)) b) as [L|L].
    + destruct (Z.eqb_spec (2 ^ (n - 1)) 0); [lia|].
      destruct (Z.ltb_spec b (2 ^ (n - 1))); [lia|].
      exists (RF true sc (2 ^ n - b)). unfold rf_wf, rf_m. cbn [rs rexp rc]. repeat split; try lia.
    + rewrite Z.eqb_refl. destruct (Z.ltb_spec b (2 ^ (n - 1))); [|lia].
      exists (RF false sc b). unfold rf_wf, rf_m. cbn [rs rexp rc]. repeat split; lia.
  - exists (RF false sc b). unfold rf_wf, rf_m. cbn [rs rexp rc]. repeat split; lia.
Qed.

Lemma fix_repr_canonical s c :
  0 <= c -> (c = 0 -> s = false) ->
  (s = false -> c <= (if x_signed f then 2 ^ (n - 1) - 1 else 2 ^ n - 1)) ->
  (s = true -> x_signed f = true /\ c <= 2 ^ (n - 1)) ->
  mpbf_repr (fix_mpbf f) (FFin (RF s sc c)) = true.
Proof.
  intros Hc Hz Hp Hm. pose proof fix_n_pos as Hn.
  unfold mpbf_repr, mpf_repr, is_zero. cbn [rc rs rexp].
  assert (G : g_nmin (fix_mpbf f) = sc - 1 /\ g_negzero (fix_mpbf f) = false /\ g_nan (fix_mpbf f) = false /\ g_inf (fix_mpbf f) = false).
  { unfold fix_mpbf. fold n sc. destruct (x_signed f); simpl; auto. }
  destruct G as [G1 [G2 [G3 G4]]]. unfold g_mpf. cbn [f_negzero f_nmin]. rewrite G1, G2.
  assert (MS : is_more_significant (RF s sc c) (sc - 1) = true).
  { unfold is_more_significant, is_zero. cbn [rc rexp]. destruct (c =? 0); [reflexivity|].
    destruct (Z.gtb_spec sc (sc - 1)); [reflexivity|lia]. }
  rewrite MS.
  destruct (Z.eqb_spec c 0) as [C0|C0].
  { rewrite (Hz C0). reflexivity. }
  simpl andb. cbv iota. simpl negb. cbv iota.
  destruct s.
  - destruct (Hm eq_refl) as [S Hc2]. unfold fix_mpbf. fold n sc. rewrite S. cbn [g_neg].
    unfold rf_leb. rewrite rf_compare_same_exp; [|unfold rf_wf; cbn [rc]; rewrite shiftl1_pow by lia; pose proof (pow2_pos (n-1)); lia|unfold rf_wf; cbn [rc]; lia|reflexivity].
    unfold rf_m. cbn [rs rc]. rewrite shiftl1_pow by lia.
    destruct (Z.compare_spec (- 2 ^ (n - 1)) (- c)); try reflexivity. lia.
  - specialize (Hp eq_refl). unfold rf_leb.
    assert (PW : g_pos (fix_mpbf f) = RF false sc (if x_signed f then 2 ^ (n - 1) - 1 else 2 ^ n - 1)).
    { unfold fix_mpbf. fold n sc. destruct (x_signed f) eqn:S; cbn [g_pos]; rewrite bitmask_spec; try reflexivity; try lia. }
    rewrite PW. rewrite rf_compare_same_exp; [|unfold rf_wf; cbn [rc]; lia| |reflexivity].
    + unfold rf_m. cbn [rs rc]. destruct (Z.compare_spec c (if x_signed f then 2 ^ (n - 1) - 1 else 2 ^ n - 1)); try reflexivity. lia.
    + unfold rf_wf. cbn [rc]. pose proof (pow2_pos (n - 1) ltac:(lia)). pose proof (pow2_pos n ltac:(lia)). destruct (x_signed f); lia.
Qed.

(* every pattern decodes to a representable value and is the encoding of it *)
Theorem fix_decode_encode b : 0 <= b < 2 ^ n ->
  exists x, fix_decode f b = Ok x /\ mpbf_repr (fix_mpbf f) x = true /\ fix_encode f x = Ok b.
Proof.
  intros Hb. pose proof fix_n_pos as Hn.
  pose proof (pow2_pos (n - 1) ltac:(lia)) as P1. pose proof (pow2_pos n ltac:(lia)) as Pn.
  assert (S2 : 2 ^ n = 2 * 2 ^ (n - 1)).
  { replace n with (1 + (n - 1)) at 1 by lia. rewrite Z.pow_add_r by lia. reflexivity. }
  destruct (fix_decode_layout b Hb) as [r [D [W [E [Mv Zs]]]]].
  exists (FFin r). split; [exact D|].
  destruct r as [s e c]. cbn [rexp rc rs] in *. subst e. unfold rf_wf in W. cbn [rc] in W.
  unfold rf_m in Mv. cbn [rs rc] in Mv.
  assert (R : mpbf_repr (fix_mpbf f) (FFin (RF s sc c)) = true).
  { apply fix_repr_canonical; try assumption.
    - intros ->. destruct (x_signed f); [|lia]. unfold twos_value in Mv. destruct (Z.ltb_spec b (2 ^ (n - 1))); lia.
    - intros ->. destruct (x_signed f) eqn:S; [split; [reflexivity|]|].
      + unfold twos_value in Mv. destruct (Z.ltb_spec b (2 ^ (n - 1))); lia.
      + assert (c = 0) by lia. specialize (Zs H). discriminate. }
  split; [exact R|].
  unfold fix_encode. rewrite R. simpl negb. cbv iota. fold n sc.
  unfold fix_scaled. cbn [rc rexp rs]. rewrite Z.sub_diag. change (0 >=? 0) with true. cbv iota.
  rewrite Z.shiftl_0_r. rewrite shiftl1_pow by lia. rewrite bitmask_spec by lia.
  destruct (Z.eqb_spec c 0) as [C0|C0].
  - simpl andb. cbv iota. specialize (Zs C0). subst s.
    assert (b = 0).
    { rewrite C0 in Mv. destruct (x_signed f); [|lia]. unfold twos_value in Mv. destruct (Z.ltb_spec b (2 ^ (n - 1))); lia. }
    subst b. destruct (Z.gtb_spec 0 (2 ^ n - 1)); [lia|reflexivity].
  - simpl negb. destruct s; cbv iota in Mv.
    + destruct (x_signed f) eqn:S; [|lia]. simpl andb. cbv iota.
      unfold twos_value in Mv. destruct (Z.ltb_spec b (2 ^ (n - 1))); [lia|].
      destruct (Z.gtb_spec (2 ^ n - c) (2 ^ n - 1)); [lia|]. f_equal. lia.
    + rewrite andb_false_r. cbv iota.
      assert (Hcb : c = b).
      { destruct (x_signed f); [|lia]. unfold twos_value in Mv. destruct (Z.ltb_spec b (2 ^ (n - 1))); lia. }
      clear Mv. subst c. destruct (Z.gtb_spec b (2 ^ n - 1)); [lia|reflexivity].
Qed.

(* every representable value (any redundant encoding) is encoded to a pattern
   that decodes to the same number; two's complement has one zero *)
Theorem fix_encode_decode r : rf_wf r -> mpbf_repr (fix_mpbf f) (FFin r) = true ->
  exists b y, fix_encode f (FFin r) = Ok b /\ 0 <= b < 2 ^ n /\
    fix_decode f b = Ok (FFin y) /\ rf_wf y /\ R2R y = R2R r /\ (rc r = 0 -> rs r = false /\ rs y = false).
Proof.
  intros W R. pose proof fix_n_pos as Hn.
  pose proof (pow2_pos (n - 1) ltac:(lia)) as P1. pose proof (pow2_pos n ltac:(lia)) as Pn.
  assert (S2 : 2 ^ n = 2 * 2 ^ (n - 1)).
  { replace n with (1 + (n - 1)) at 1 by lia. rewrite Z.pow_add_r by lia. reflexivity. }
  unfold fix_encode. rewrite R. simpl negb. cbv iota. fold n sc.
  assert (G : g_nmin (fix_mpbf f) = sc - 1 /\ g_negzero (fix_mpbf f) = false).
  { unfold fix_mpbf. fold n sc. destruct (x_signed f); simpl; auto. }
  destruct G as [G1 G2].
  unfold mpbf_repr, mpf_repr, g_mpf in R. cbn [f_negzero f_nmin] in R. rewrite G1, G2 in R.
  simpl negb in R. rewrite andb_true_r in R.
  destruct (is_zero r && rs r) eqn:NZ; [discriminate|].
  destruct (is_more_significant r (sc - 1)) eqn:MS; [|discriminate]. simpl negb in R. cbv iota in R.
  destruct (fix_scaled_spec sc r W MS) as [C0 [V NZc]].
  set (c := fix_scaled sc r) in *.
  assert (Wc : rf_wf (RF (rs r) sc c)) by (unfold rf_wf; cbn [rc]; lia).
  rewrite shiftl1_pow by lia. rewrite bitmask_spec by lia.
  unfold is_zero in *.
  destruct (Z.eqb_spec (rc r) 0) as [Z0|Z0].
  { (* zero *)
    simpl andb in NZ. simpl negb. simpl andb. cbv iota.
    assert (Cz : c = 0) by (unfold c, fix_scaled; rewrite Z0; reflexivity).
    rewrite Cz. destruct (Z.gtb_spec 0 (2 ^ n - 1)); [lia|].
    destruct (fix_decode_layout 0 ltac:(lia)) as [y [D [Wy [Ey [My Zy]]]]].
    exists 0, y. split; [reflexivity|]. split; [lia|]. split; [exact D|]. split; [exact Wy|].
    assert (Yz : rc y = 0).
    { unfold rf_m in My. unfold twos_value in My. destruct (Z.ltb_spec 0 (2 ^ (n - 1))); [|lia].
      unfold rf_wf in Wy. destruct (x_signed f), (rs y); lia. }
    split; [rewrite (R2R_zero y Yz), (R2R_zero r Z0); reflexivity|].
    intros _. split; [exact NZ|apply Zy; exact Yz]. }
  specialize (NZc Z0). change (negb false) with true.
  destruct (rs r) eqn:S.
  - (* negative *)
    assert (L : rf_leb (g_neg (fix_mpbf f)) (RF true sc c) = true).
    { unfold rf_leb in *. destruct (rf_compare_ext r (RF true sc c) (g_neg (fix_mpbf f)) W Wc) as [_ E2].
      - unfold fix_mpbf. fold n sc. destruct (x_signed f); unfold rf_wf; cbn [g_neg rc]; [rewrite shiftl1_pow by lia|]; lia.
      - exact V.
      - rewrite <- E2. exact R. }
    destruct (x_signed f) eqn:Sg.
    + simpl andb. cbv iota.
      unfold fix_mpbf in L. fold n sc in L. rewrite Sg in L. cbn [g_neg] in L. rewrite shiftl1_pow in L by lia.
      unfold rf_leb in L. rewrite rf_compare_same_exp in L; [|unfold rf_wf; cbn [rc]; lia|exact Wc|reflexivity].
      unfold rf_m in L. cbn [rs rc] in L.
      assert (c <= 2 ^ (n - 1)) by (destruct (Z.compare_spec (- 2 ^ (n - 1)) (- c)); try discriminate; lia).
      destruct (Z.gtb_spec (2 ^ n - c) (2 ^ n - 1)); [lia|].
      destruct (fix_decode_layout (2 ^ n - c) ltac:(lia)) as [y [D [Wy [Ey [My Zy]]]]].
      exists (2 ^ n - c), y. split; [reflexivity|]. split; [lia|]. split; [exact D|]. split; [exact Wy|].
      split; [|intros; contradiction].
      rewrite V. rewrite Sg in My. unfold twos_value in My. destruct (Z.ltb_spec (2 ^ n - c) (2 ^ (n - 1))); [lia|].
      unfold R2R. rewrite Ey. cbn [rexp]. f_equal. f_equal. rewrite My. unfold rf_m. cbn [rs rc]. lia.
    + exfalso. unfold fix_mpbf in L. fold n sc in L. rewrite Sg in L. cbn [g_neg] in L.
      unfold rf_leb in L. rewrite compare_denote in L; [|unfold rf_wf; cbn [rc]; lia|exact Wc].
      rewrite (R2R_zero (RF false 0 0)) in L by reflexivity.
      assert (R2R (RF true sc c) < 0)%R by (apply R2R_sign_neg; [exact Wc|exact NZc|reflexivity]).
      rewrite Rcompare_Gt in L by assumption. discriminate.
  - (* positive *)
    rewrite !andb_false_r. cbv iota.
    assert (L : rf_leb (RF false sc c) (g_pos (fix_mpbf f)) = true).
    { unfold rf_leb in *. destruct (rf_compare_ext r (RF false sc c) (g_pos (fix_mpbf f)) W Wc) as [E1 _].
      - unfold fix_mpbf. fold n sc. destruct (x_signed f) eqn:Sg; unfold rf_wf; cbn [g_pos rc]; rewrite bitmask_spec; try lia.
      - exact V.
      - rewrite <- E1. exact R. }
    assert (PW : g_pos (fix_mpbf f) = RF false sc (if x_signed f then 2 ^ (n - 1) - 1 else 2 ^ n - 1)).
    { unfold fix_mpbf. fold n sc. destruct (x_signed f) eqn:Sg; cbn [g_pos]; rewrite bitmask_spec; try reflexivity; try lia. }
    rewrite PW in L. unfold rf_leb in L. rewrite rf_compare_same_exp in L; [|exact Wc|unfold rf_wf; cbn [rc]; destruct (x_signed f); lia|reflexivity].
    unfold rf_m in L. cbn [rs rc] in L.
    assert (c <= (if x_signed f then 2 ^ (n - 1) - 1 else 2 ^ n - 1)).
    { destruct (Z.compare_spec c (if x_signed f then 2 ^ (n - 1) - 1 else 2 ^ n - 1)); try discriminate; lia. }
    assert (c < 2 ^ n) by (destruct (x_signed f); lia).
    destruct (Z.gtb_spec c (2 ^ n - 1)); [lia|].
    destruct (fix_decode_layout c ltac:(lia)) as [y [D [Wy [Ey [My Zy]]]]].
    exists c, y. split; [reflexivity|]. split; [lia|]. split; [exact D|]. split; [exact Wy|].
    split; [|intros; contradiction].
    rewrite V. unfold R2R. rewrite Ey. cbn [rexp]. f_equal. f_equal. rewrite My. unfold rf_m. cbn [rs rc].
    destruct (x_signed f); [|reflexivity]. unfold twos_value. destruct (Z.ltb_spec c (2 ^ (n - 1))); lia.
Qed.

End Twos.

(* ================================================================ sign-magnitude *)
Section SignMagnitude.
Variable f : smfmt.
Hypothesis Hok : sm_ctor_ok f = true.
Let n := m_nbits f.
Let sc := m_scale f.

Lemma sm_n : 2 <= n.
Proof. unfold sm_ctor_ok in Hok. fold n in Hok. lia. Qed.

Lemma sm_fields b : 0 <= b < 2 ^ n ->
  negb (Z.land (Z.shiftr b (n - 1)) 1 =? 0) = (2 ^ (n - 1) <=? b) /\
  Z.land b (bitmask (n - 1)) = b mod 2 ^ (n - 1) /\
  b = (if 2 ^ (n - 1) <=? b then 1 else 0) * 2 ^ (n - 1) + b mod 2 ^ (n - 1).
Proof.
  intros Hb. pose proof sm_n as Hn. pose proof (pow2_pos (n - 1) ltac:(lia)) as P.
  assert (S : 2 ^ n = 2 * 2 ^ (n - 1)).
  { replace n with (1 + (n - 1)) at 1 by lia. rewrite Z.pow_add_r by lia. reflexivity. }
  rewrite shiftr_pow by lia. rewrite land_bitmask by lia.
  replace (Z.land (b / 2 ^ (n - 1)) 1) with ((b / 2 ^ (n - 1)) mod 2)
    by (symmetry; exact (Z.land_ones (b / 2 ^ (n - 1)) 1 ltac:(lia))).
  assert (0 <= b / 2 ^ (n - 1) < 2) by (split; [apply Z.div_pos; lia|apply Z.div_lt_upper_bound; lia]).
  pose proof (Z.div_mod b (2 ^ (n - 1)) ltac:(lia)) as DM.
  destruct (Z.leb_spec (2 ^ (n - 1)) b) as [L|L].
  - assert (1 <= b / 2 ^ (n - 1)) by (apply Z.div_le_lower_bound; lia).
    replace (b / 2 ^ (n - 1)) with 1 in * by lia. repeat split; try reflexivity. lia.
  - rewrite (Z.div_small b) in * by lia. repeat split; try reflexivity. lia.
Qed.

Theorem sm_decode_layout b : 0 <= b < 2 ^ n ->
  exists r, sm_decode f b = Ok (FFin r) /\ rf_wf r /\ rexp r = sc /\
    rs r = (2 ^ (n - 1) <=? b) /\ rc r = b mod 2 ^ (n - 1) /\ rf_m r = sm_value n b.
Proof.
  intros Hb. pose proof sm_n as Hn. destruct (sm_fields b Hb) as [F1 [F2 F3]].
  pose proof (pow2_pos (n - 1) ltac:(lia)) as P.
  pose proof (Z.mod_pos_bound b (2 ^ (n - 1)) P) as MB.
  unfold sm_decode. fold n sc. rewrite shiftl1_pow by lia.
  destruct (Z.ltb_spec b 0); [lia|]. destruct (Z.geb_spec b (2 ^ n)); [lia|]. simpl orb. cbv iota zeta.
  rewrite F1, F2. eexists. split; [reflexivity|]. unfold rf_wf, rf_m. cbn [rs rexp rc].
  repeat split; try lia. unfold sm_value.
  destruct (Z.leb_spec (2 ^ (n - 1)) b), (Z.ltb_spec b (2 ^ (n - 1))); lia.
Qed.

Lemma sm_repr_canonical s c : 0 <= c < 2 ^ (n - 1) ->
  mpbf_repr (sm_mpbf f) (FFin (RF s sc c)) = true.
Proof.
  intros Hc. pose proof sm_n as Hn.
  unfold mpbf_repr, mpf_repr, sm_mpbf, g_mpf, is_zero. fold n sc. cbn [rc rs rexp g_nmin g_nan g_inf g_negzero f_negzero f_nmin g_pos g_neg].
  simpl negb. rewrite andb_false_r.
  assert (MS : is_more_significant (RF s sc c) (sc - 1) = true).
  { unfold is_more_significant, is_zero. cbn [rc rexp]. destruct (c =? 0); [reflexivity|].
    destruct (Z.gtb_spec sc (sc - 1)); [reflexivity|lia]. }
  rewrite MS. simpl negb. cbv iota.
  destruct (Z.eqb_spec c 0); [reflexivity|].
  rewrite bitmask_spec by lia. unfold rf_leb.
  destruct s; (rewrite rf_compare_same_exp; [|unfold rf_wf; cbn [rc]; lia|unfold rf_wf; cbn [rc]; lia|reflexivity]);
    unfold rf_m; cbn [rs rc].
  - destruct (Z.compare_spec (- (2 ^ (n - 1) - 1)) (- c)); try reflexivity. lia.
  - destruct (Z.compare_spec c (2 ^ (n - 1) - 1)); try reflexivity. lia.
Qed.

Theorem sm_decode_encode b : 0 <= b < 2 ^ n ->
  exists x, sm_decode f b = Ok x /\ mpbf_repr (sm_mpbf f) x = true /\ sm_encode f x = Ok b.
Proof.
  intros Hb. pose proof sm_n as Hn. destruct (sm_fields b Hb) as [_ [_ F3]].
  pose proof (pow2_pos (n - 1) ltac:(lia)) as P.
  pose proof (Z.mod_pos_bound b (2 ^ (n - 1)) P) as MB.
  destruct (sm_decode_layout b Hb) as [r [D [W [E [S [C _]]]]]].
  exists (FFin r). split; [exact D|].
  destruct r as [s e c]. cbn [rs rexp rc] in *. subst e.
  assert (R : mpbf_repr (sm_mpbf f) (FFin (RF s sc c)) = true) by (apply sm_repr_canonical; lia).
  split; [exact R|]. unfold sm_encode. rewrite R. simpl negb. cbv iota zeta. fold n sc. cbn [rs].
  assert (FS : fix_scaled sc (RF s sc c) = c).
  { unfold fix_scaled. cbn [rc rexp]. rewrite Z.sub_diag. change (0 >=? 0) with true. cbv iota.
    rewrite Z.shiftl_0_r. destruct (Z.eqb_spec c 0); lia. }
  rewrite FS. rewrite lor_disjoint by lia. f_equal. rewrite S, C. destruct (2 ^ (n - 1) <=? b); lia.
Qed.

(* any representable encoding round-trips to the same number, the sign of a
   zero included *)
Theorem sm_encode_decode r : rf_wf r -> mpbf_repr (sm_mpbf f) (FFin r) = true ->
  exists b y, sm_encode f (FFin r) = Ok b /\ 0 <= b < 2 ^ n /\
    sm_decode f b = Ok (FFin y) /\ rf_wf y /\ R2R y = R2R r /\ rs y = rs r.
Proof.
  intros W R. pose proof sm_n as Hn.
  pose proof (pow2_pos (n - 1) ltac:(lia)) as P1. pose proof (pow2_pos n ltac:(lia)) as Pn.
  assert (S2 : 2 ^ n = 2 * 2 ^ (n - 1)).
  { replace n with (1 + (n - 1)) at 1 by lia. rewrite Z.pow_add_r by lia. reflexivity. }
  unfold sm_encode. rewrite R. simpl negb. cbv iota zeta. fold n sc.
  unfold mpbf_repr, mpf_repr, sm_mpbf, g_mpf in R. fold n sc in R.
  cbn [g_nmin g_nan g_inf g_negzero f_negzero f_nmin g_pos g_neg] in R. simpl negb in R. rewrite andb_false_r in R.
  destruct (is_more_significant r (sc - 1)) eqn:MS; [|discriminate]. simpl negb in R. cbv iota in R.
  destruct (fix_scaled_spec sc r W MS) as [C0 [V NZc]].
  set (c := fix_scaled sc r) in *.
  assert (Wc : rf_wf (RF (rs r) sc c)) by (unfold rf_wf; cbn [rc]; lia).
  rewrite bitmask_spec in R by lia.
  assert (Hc : c < 2 ^ (n - 1)).
  { unfold is_zero in R. destruct (Z.eqb_spec (rc r) 0) as [Z0|Z0].
    - unfold c, fix_scaled. rewrite Z0. simpl. lia.
    - destruct (rs r) eqn:S; unfold rf_leb in R.
      + destruct (rf_compare_ext r (RF true sc c) (RF true sc (2 ^ (n - 1) - 1)) W Wc) as [_ E2];
          [unfold rf_wf; cbn [rc]; lia|exact V|].
        rewrite E2 in R. rewrite rf_compare_same_exp in R; [|unfold rf_wf; cbn [rc]; lia|exact Wc|reflexivity].
        unfold rf_m in R. cbn [rs rc] in R.
        destruct (Z.compare_spec (- (2 ^ (n - 1) - 1)) (- c)); try discriminate; lia.
      + destruct (rf_compare_ext r (RF false sc c) (RF false sc (2 ^ (n - 1) - 1)) W Wc) as [E1 _];
          [unfold rf_wf; cbn [rc]; lia|exact V|].
        rewrite E1 in R. rewrite rf_compare_same_exp in R; [|exact Wc|unfold rf_wf; cbn [rc]; lia|reflexivity].
        unfold rf_m in R. cbn [rs rc] in R.
        destruct (Z.compare_spec c (2 ^ (n - 1) - 1)); try discriminate; lia. }
  rewrite lor_disjoint by lia.
  set (b := (if rs r then 1 else 0) * 2 ^ (n - 1) + c).
  assert (Hb : 0 <= b < 2 ^ n) by (unfold b; destruct (rs r); lia).
  destruct (sm_decode_layout b Hb) as [y [D [Wy [Ey [Sy [Cy _]]]]]].
  exists b, y. split; [reflexivity|]. split; [exact Hb|]. split; [exact D|]. split; [exact Wy|].
  assert (Sb : (2 ^ (n - 1) <=? b) = rs r).
  { unfold b. destruct (rs r); [destruct (Z.leb_spec (2 ^ (n - 1)) (1 * 2 ^ (n - 1) + c))|destruct (Z.leb_spec (2 ^ (n - 1)) (0 * 2 ^ (n - 1) + c))]; try reflexivity; lia. }
  assert (Cb : b mod 2 ^ (n - 1) = c).
  { unfold b. rewrite Z.add_comm. rewrite Z.mod_add by lia. apply Z.mod_small. lia. }
  rewrite Sb in Sy. rewrite Cb in Cy. split; [|exact Sy].
  rewrite V. destruct y as [ys ye yc]. cbn [rs rexp rc] in *. subst. reflexivity.
Qed.

End SignMagnitude.

(* ================================================================ exponential (2^k) format *)
Section Exponential.
Variable f : expfmt.
Hypothesis Hok : exp_ctor_ok f = true.
Let n := p_nbits f.
Let bias := 2 ^ (n - 1) - 1 - p_eoffset f.

Lemma exp_n : 1 <= n.
Proof. unfold exp_ctor_ok in Hok. fold n in Hok. lia. Qed.

Lemma exp_consts : exp_ebias f = bias /\ exp_emin f = - bias /\ exp_emax f = 2 ^ n - 2 - bias.
Proof.
  pose proof exp_n. unfold exp_ebias, exp_emin, exp_emax, bias. fold n. rewrite bitmask_spec by lia.
  assert (2 ^ n = 2 * 2 ^ (n - 1)).
  { replace n with (1 + (n - 1)) at 1 by lia. rewrite Z.pow_add_r by lia. reflexivity. }
  lia.
Qed.

(* decode: the all-ones pattern is NaN, every other pattern b is 2^(b - bias) *)
Theorem exp_decode_layout b : 0 <= b < 2 ^ n ->
  exp_decode f b = Ok (if b =? 2 ^ n - 1 then FNaN false else FFin (RF false (b - bias) 1)).
Proof.
  intros Hb. pose proof exp_n. destruct exp_consts as [B _].
  unfold exp_decode. fold n. rewrite shiftl1_pow by lia. rewrite bitmask_spec by lia. rewrite B.
  destruct (Z.ltb_spec b 0); [lia|]. destruct (Z.geb_spec b (2 ^ n)); [lia|]. simpl orb. cbv iota.
  destruct (b =? 2 ^ n - 1); reflexivity.
Qed.

Theorem exp_decode_encode b : 0 <= b < 2 ^ n ->
  exists x, exp_decode f b = Ok x /\ exp_repr f x = true /\ exp_encode f x = Ok b.
Proof.
  intros Hb. pose proof exp_n. destruct exp_consts as [B [Em Ex]].
  rewrite exp_decode_layout by exact Hb. eexists. split; [reflexivity|].
  destruct (Z.eqb_spec b (2 ^ n - 1)) as [->|N].
  - split; [reflexivity|]. unfold exp_encode. simpl. fold n. rewrite bitmask_spec by lia. reflexivity.
  - assert (R : exp_repr f (FFin (RF false (b - bias) 1)) = true).
    { unfold exp_repr, mp1_repr_rf, rf_is_positive, is_zero, rf_e, rf_p. cbn [rc rs rexp].
      change (bitlen 1) with 1. simpl. rewrite Em, Ex.
      destruct (Z.ltb_spec (b - bias + 1 - 1) (- bias)); [lia|].
      destruct (Z.gtb_spec (b - bias + 1 - 1) (2 ^ n - 2 - bias)); [lia|]. reflexivity. }
    split; [exact R|]. unfold exp_encode. rewrite R. simpl negb. cbv iota.
    unfold fl_e, rf_e, rf_p. cbn [rc rexp]. change (bitlen 1) with 1. rewrite B. f_equal. lia.
Qed.

Lemma pow2_of_mp1 r : rf_wf r -> rc r <> 0 -> mp1_repr_rf r = true ->
  rc r = 2 ^ (rf_p r - 1) /\ 1 <= rf_p r.
Proof.
  intros W NZ M. unfold rf_wf in W. unfold mp1_repr_rf, is_zero in M.
  destruct (Z.eqb_spec (rc r) 0); [contradiction|].
  pose proof (bitlen_pos (rc r) ltac:(lia)) as Pp. pose proof (bitlen_bounds (rc r) ltac:(lia)) as Bd.
  unfold rf_p in *. split; [|lia].
  destruct (Z.leb_spec (bitlen (rc r)) 1).
  - replace (bitlen (rc r)) with 1 in * by lia. simpl in *. lia.
  - rewrite land_bitmask in M by lia. apply Z.eqb_eq in M.
    pose proof (pow2_pos (bitlen (rc r) - 1) ltac:(lia)) as P.
    pose proof (Z.div_mod (rc r) (2 ^ (bitlen (rc r) - 1)) ltac:(lia)) as DM. rewrite M in DM.
    assert (S : 2 ^ bitlen (rc r) = 2 * 2 ^ (bitlen (rc r) - 1)).
    { replace (bitlen (rc r)) with (1 + (bitlen (rc r) - 1)) at 1 by lia. rewrite Z.pow_add_r by lia. reflexivity. }
    assert (rc r / 2 ^ (bitlen (rc r) - 1) = 1) by nia. lia.
Qed.

(* every representable value (any redundant encoding of a power of two in
   range, or NaN) is encoded to a pattern that decodes to the same number *)
Theorem exp_encode_decode x : fl_wf x -> exp_repr f x = true ->
  exists b y, exp_encode f x = Ok b /\ 0 <= b < 2 ^ n /\ exp_decode f b = Ok y /\
    match x, y with
    | FFin r, FFin r' => R2R r' = R2R r
    | FNaN _, FNaN _ => True
    | _, _ => False
    end.
Proof.
  intros W R. pose proof exp_n. destruct exp_consts as [B [Em Ex]].
  pose proof (pow2_pos n ltac:(lia)) as Pn.
  unfold exp_encode. rewrite R. simpl negb. cbv iota.
  destruct x as [r|s|s]; [|discriminate|].
  - unfold exp_repr in R. destruct (mp1_repr_rf r) eqn:M; [|discriminate]. simpl negb in R. cbv iota in R.
    unfold rf_is_positive in R. destruct (Z.eqb_spec (rc r) 0) as [Z0|Z0]; [discriminate|].
    destruct (rs r) eqn:S; [discriminate|]. simpl in R. rewrite Em, Ex in R.
    destruct (Z.ltb_spec (rf_e r) (- bias)); [discriminate|]. destruct (Z.gtb_spec (rf_e r) (2 ^ n - 2 - bias)); [discriminate|].
    destruct (pow2_of_mp1 r W Z0 M) as [C P1].
    set (b := rf_e r + bias). assert (Hb : 0 <= b < 2 ^ n) by (unfold b; lia).
    exists b. eexists. unfold fl_e. rewrite B. split; [reflexivity|]. split; [exact Hb|].
    rewrite exp_decode_layout by exact Hb. split; [reflexivity|].
    destruct (Z.eqb_spec b (2 ^ n - 1)); [unfold b in *; lia|].
    unfold R2R, rf_m. rewrite S. cbn [rs rexp rc]. rewrite C.
    replace (b - bias) with (rf_e r) by (unfold b; lia). unfold rf_e.
    rewrite <- (F2R_shift 1 (rexp r + rf_p r - 1) (rf_p r - 1)) by lia.
    f_equal. f_equal; lia.
  - exists (2 ^ n - 1). eexists. fold n. rewrite bitmask_spec by lia. split; [reflexivity|]. split; [lia|].
    rewrite exp_decode_layout by lia. split; [reflexivity|]. rewrite Z.eqb_refl. exact I.
Qed.

End Exponential.

(* ================================================================ fixed-point ordinals (MPFixedFormat / MPBFixedFormat) *)
Lemma shift_by_scaled sc r : rc r <> 0 -> shift_by (rc r) (rexp r - sc) = fix_scaled sc r.
Proof.
  intros NZ. unfold shift_by, fix_scaled. destruct (Z.eqb_spec (rc r) 0); [contradiction|].
  destruct (Z.gtb_spec (rexp r - sc) 0) as [G|G].
  - destruct (Z.geb_spec (rexp r - sc) 0); [reflexivity|lia].
  - destruct (Z.ltb_spec (rexp r - sc) 0) as [L|L].
    + destruct (Z.geb_spec (rexp r - sc) 0); [lia|reflexivity].
    + assert (E : rexp r - sc = 0) by lia. rewrite E. change (0 >=? 0) with true. cbv iota.
      rewrite Z.shiftl_0_r. reflexivity.
Qed.

Lemma Rcompare_scaled a b e : Rcompare (IZR a * bpow radix2 e) (IZR b * bpow radix2 e) = (a ?= b).
Proof. rewrite Rcompare_mult_r by apply bpow_gt_0. apply Rcompare_IZR. Qed.

Section MPFixedOrdinal.
Variable f : mpffmt.
Let em := f_expmin f.

(* the ordinal is the value in units of 2^expmin *)
Theorem mpf_ord_value r : rf_wf r -> mpf_repr f (FFin r) = true ->
  R2R r = (IZR (mpf_to_ord_rf f r) * bpow radix2 em)%R.
Proof.
  intros W R. unfold mpf_to_ord_rf, is_zero.
  destruct (Z.eqb_spec (rc r) 0) as [Z0|Z0].
  { rewrite R2R_zero by exact Z0. simpl. ring. }
  unfold mpf_repr, is_zero in R. destruct (Z.eqb_spec (rc r) 0); [contradiction|]. simpl andb in R. cbv iota in R.
  fold em. rewrite shift_by_scaled by exact Z0.
  replace (f_nmin f) with (em - 1) in R by (unfold em, f_expmin; lia).
  destruct (fix_scaled_spec em r W R) as [C0 [V _]]. rewrite V.
  unfold R2R, rf_m, F2R. cbn [rs rexp rc Fnum Fexp]. destruct (rs r); reflexivity.
Qed.

(* ... hence order-preserving and injective on values *)
Theorem mpf_ord_compare x y : rf_wf x -> rf_wf y ->
  mpf_repr f (FFin x) = true -> mpf_repr f (FFin y) = true ->
  rf_compare x y = (mpf_to_ord_rf f x ?= mpf_to_ord_rf f y).
Proof.
  intros Wx Wy Rx Ry. rewrite compare_denote by assumption.
  rewrite (mpf_ord_value x Wx Rx), (mpf_ord_value y Wy Ry). apply Rcompare_scaled.
Qed.

(* from_ordinal is a right inverse: onto all of Z *)
Theorem mpf_to_from o :
  let y := mpf_from_ord_rf f o in
  rf_wf y /\ mpf_repr f (FFin y) = true /\ mpf_to_ord_rf f y = o.
Proof.
  unfold mpf_from_ord_rf. destruct (Z.eqb_spec o 0) as [->|NZ].
  { repeat split; try reflexivity. unfold rf_wf; simpl; lia. }
  cbv zeta. unfold rf_wf, mpf_repr, mpf_to_ord_rf, is_zero. cbn [rc rs rexp].
  destruct (Z.eqb_spec (Z.abs o) 0); [lia|]. simpl andb. cbv iota.
  repeat split; [lia| |].
  - unfold is_more_significant, is_zero. cbn [rc rexp]. destruct (Z.eqb_spec (Z.abs o) 0); [lia|].
    unfold f_expmin. destruct (Z.gtb_spec (f_nmin f + 1) (f_nmin f)); [reflexivity|lia].
  - rewrite Z.sub_diag. unfold shift_by. simpl. destruct (Z.ltb_spec o 0); lia.
Qed.

(* ... and a left inverse up to the choice of encoding (zeros identified) *)
Theorem mpf_from_to r : rf_wf r -> mpf_repr f (FFin r) = true ->
  R2R (mpf_from_ord_rf f (mpf_to_ord_rf f r)) = R2R r.
Proof.
  intros W R. destruct (mpf_to_from (mpf_to_ord_rf f r)) as [Wy [Ry Oy]]. cbv zeta in *.
  rewrite (mpf_ord_value _ Wy Ry), Oy. symmetry. apply mpf_ord_value; assumption.
Qed.

End MPFixedOrdinal.

(* sign of the ordinal *)
Lemma mpf_ord_sign f r : rf_wf r -> mpf_repr f (FFin r) = true ->
  (rc r = 0 -> mpf_to_ord_rf f r = 0) /\
  (rc r <> 0 -> if rs r then mpf_to_ord_rf f r < 0 else 0 < mpf_to_ord_rf f r).
Proof.
  intros W R. unfold mpf_to_ord_rf, is_zero. split.
  - intros ->. reflexivity.
  - intros NZ. destruct (Z.eqb_spec (rc r) 0); [contradiction|].
    unfold mpf_repr, is_zero in R. destruct (Z.eqb_spec (rc r) 0); [contradiction|]. simpl andb in R. cbv iota in R.
    rewrite shift_by_scaled by exact NZ.
    replace (f_nmin f) with (f_expmin f - 1) in R by (unfold f_expmin; lia).
    destruct (fix_scaled_spec (f_expmin f) r W R) as [C0 [_ C1]]. specialize (C1 NZ).
    destruct (rs r); lia.
Qed.

(* MPBFixedFormat: the representable finite values are exactly those whose
   ordinal lies in the contiguous range [ord(neg_maxval), ord(pos_maxval)] *)
Theorem mpbf_repr_iff_ord_range g r :
  rf_wf (g_pos g) -> rf_wf (g_neg g) -> rf_wf r ->
  mpf_repr (g_mpf g) (FFin (g_pos g)) = true -> mpf_repr (g_mpf g) (FFin (g_neg g)) = true ->
  rs (g_pos g) = false -> (rc (g_neg g) <> 0 -> rs (g_neg g) = true) ->
  g_neg_ord g <= 0 <= g_pos_ord g /\
  (mpbf_repr g (FFin r) = true <->
   mpf_repr (g_mpf g) (FFin r) = true /\ g_neg_ord g <= mpf_to_ord_rf (g_mpf g) r <= g_pos_ord g).
Proof.
  intros Wp Wn W Rp Rn Sp Sn.
  destruct (mpf_ord_sign _ _ Wp Rp) as [Pz Pnz]. destruct (mpf_ord_sign _ _ Wn Rn) as [Nz Nnz].
  fold (g_pos_ord g) in Pz, Pnz. fold (g_neg_ord g) in Nz, Nnz.
  assert (P0 : 0 <= g_pos_ord g).
  { destruct (Z.eq_dec (rc (g_pos g)) 0) as [Z0|Z0]; [rewrite Pz by exact Z0; lia|].
    specialize (Pnz Z0). rewrite Sp in Pnz. lia. }
  assert (N0 : g_neg_ord g <= 0).
  { destruct (Z.eq_dec (rc (g_neg g)) 0) as [Z0|Z0]; [rewrite Nz by exact Z0; lia|].
    specialize (Nnz Z0). rewrite (Sn Z0) in Nnz. lia. }
  split; [lia|].
  unfold mpbf_repr. destruct (mpf_repr (g_mpf g) (FFin r)) eqn:R; simpl negb; cbv iota; [|split; [discriminate|intros [? _]; discriminate]].
  destruct (mpf_ord_sign _ _ W R) as [Oz Onz]. unfold is_zero.
  destruct (Z.eqb_spec (rc r) 0) as [Z0|Z0].
  { rewrite (Oz Z0). split; [intros _; split; [reflexivity|lia]|reflexivity]. }
  specialize (Onz Z0). unfold rf_leb.
  destruct (rs r) eqn:S.
  - rewrite (mpf_ord_compare (g_mpf g) (g_neg g) r Wn W Rn R). fold (g_neg_ord g).
    destruct (Z.compare_spec (g_neg_ord g) (mpf_to_ord_rf (g_mpf g) r)); split; try reflexivity; try discriminate; try (intros _; split; [reflexivity|lia]).
    intros [_ ?]. lia.
  - rewrite (mpf_ord_compare (g_mpf g) r (g_pos g) W Wp R Rp). fold (g_pos_ord g).
    destruct (Z.compare_spec (mpf_to_ord_rf (g_mpf g) r) (g_pos_ord g)); split; try reflexivity; try discriminate; try (intros _; split; [reflexivity|lia]).
    intros [_ ?]. lia.
Qed.

(* ================================================================ stepping = ordinal +- 1 (format.py::OrdinalFormat) *)
Theorem ord_next_spec F r allow o :
  oo_repr F (FFin r) = true -> oo_to_ord F (FFin r) false = Ok o ->
  ord_next_up F (FFin r) allow = oo_from_ord F (o + 1) allow /\
  ord_next_down F (FFin r) allow = oo_from_ord F (o + -1) allow.
Proof.
  intros R O. unfold ord_next_up, ord_next_down, ord_guard, ord_step. rewrite R, O. simpl.
  rewrite andb_false_r. simpl. auto.
Qed.

(* ================================================================ MPFixedFormat.normalize *)
(* as coded the significand is shifted the wrong way *)
Theorem mpf_normalize_refuted :
  exists f r, rf_wf r /\ mpf_repr f (FFin r) = true /\
    rf_eqb (mpf_normalize_rf as_coded f r) r = false.
Proof.
  exists (MPFF (-1) false false false), (RF false 2 1). unfold rf_wf. vm_compute.
  repeat split; intro; discriminate.
Qed.

(* with fixes/C16-mpfixed-normalize.diff it keeps the value and the sign and
   lands on the format's exponent *)
Theorem mpf_normalize_fixed_spec f r : rf_wf r -> mpf_repr f (FFin r) = true ->
  let y := mpf_normalize_rf all_fixed f r in
  R2R y = R2R r /\ rs y = rs r /\ rexp y = f_expmin f /\ rf_wf y.
Proof.
  intros W R. unfold mpf_normalize_rf. cbn [fx_norm all_fixed]. cbv iota.
  set (em := f_expmin f). unfold rf_wf in *.
  destruct (Z.eqb_spec (rc r) 0) as [Z0|Z0].
  { destruct (Z.gtb_spec (rexp r - em) 0); [|destruct (Z.ltb_spec (rexp r - em) 0)]; cbv zeta; cbn [rs rexp rc];
      rewrite ?Z0, ?Z.shiftl_0_l, ?Z.shiftr_0_l; repeat split; try lia;
      try (rewrite (R2R_zero r Z0); apply R2R_zero; reflexivity). }
  unfold mpf_repr, is_zero in R. destruct (Z.eqb_spec (rc r) 0); [contradiction|]. simpl andb in R. cbv iota in R.
  replace (f_nmin f) with (em - 1) in R by (unfold em, f_expmin; lia).
  destruct (fix_scaled_spec em r W R) as [C0 [V _]].
  unfold fix_scaled in V, C0. destruct (Z.eqb_spec (rc r) 0); [contradiction|].
  destruct (Z.gtb_spec (rexp r - em) 0) as [G|G]; cbv zeta.
  - destruct (Z.geb_spec (rexp r - em) 0); [|lia]. cbn [rs rexp rc]. repeat split; try lia.
    rewrite V. f_equal. f_equal. lia.
  - destruct (Z.ltb_spec (rexp r - em) 0) as [L|L].
    + destruct (Z.geb_spec (rexp r - em) 0); [lia|]. cbn [rs rexp rc]. repeat split; try lia.
      rewrite V. f_equal. f_equal. lia.
    + repeat split; lia.
Qed.
