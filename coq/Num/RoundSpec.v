(* The independent definition of the eight rounding modes: Flocq's integer
   rounding functions, and the integer "choice" function that decides the
   increment from (sign, parity, location).  N1 of DESIGN.md is proved in
   Num/RoundProofs.v on top of this file. *)
From Coq Require Import ZArith Bool Lia Reals Psatz.
From Flocq Require Import Core.Zaux Core.Raux Core.Defs Core.Digits Core.Float_prop
  Core.Generic_fmt Core.Round_NE Calc.Bracket Calc.Round.
From Flocq Require Import Round_odd.
From FpyV Require Import Num.RealFloat.
Open Scope Z_scope.

(* ---------------------------------------------------------------- round to even (dual of Flocq's Zrnd_odd) *)
Definition Zrnd_even (x : R) : Z :=
  match Req_EM_T x (IZR (Zfloor x)) with
  | left _ => Zfloor x
  | right _ => if Z.even (Zfloor x) then Zfloor x else Zceil x
  end.

Global Instance valid_rnd_even : Valid_rnd Zrnd_even.
Proof.
  split.
  - intros x y Hxy.
    assert (Hlo : forall z, Zfloor z <= Zrnd_even z).
    { intros z. unfold Zrnd_even. destruct (Req_EM_T z (IZR (Zfloor z))); [lia|].
      destruct (Z.even (Zfloor z)); [lia|]. apply le_IZR.
      apply Rle_trans with z; [apply Zfloor_lb|apply Zceil_ub]. }
    assert (Hhi : forall z, Zrnd_even z <= Zceil z).
    { intros z. unfold Zrnd_even. destruct (Req_EM_T z (IZR (Zfloor z))) as [E|E].
      - apply le_IZR. apply Rle_trans with z; [apply Zfloor_lb|apply Zceil_ub].
      - destruct (Z.even (Zfloor z)); [|lia]. apply le_IZR.
        apply Rle_trans with z; [apply Zfloor_lb|apply Zceil_ub]. }
    assert (H0 : Zfloor x <= Zfloor y) by (apply Zfloor_le; assumption).
    destruct (Zle_lt_or_eq _ _ H0) as [H1|H1].
    + (* floor x < floor y: rnd x <= ceil x <= floor y <= rnd y *)
      apply Z.le_trans with (Zceil x); [apply Hhi|].
      apply Z.le_trans with (Zfloor y); [|apply Hlo].
      destruct (Req_EM_T x (IZR (Zfloor x))) as [E|E].
      * rewrite E at 1. rewrite Zceil_IZR. lia.
      * rewrite Zceil_floor_neq by (intro; apply E; symmetry; assumption). lia.
    + unfold Zrnd_even at 1.
      destruct (Req_EM_T x (IZR (Zfloor x))) as [Ex|Ex]; [apply Z.le_trans with (Zfloor y); [lia|apply Hlo]|].
      (* x not an integer, same floor: y is not an integer either *)
      assert (Ey : y <> IZR (Zfloor y)).
      { intro Ey. apply Ex. apply Rle_antisym.
        - rewrite H1, <- Ey. assumption.
        - apply Zfloor_lb. }
      unfold Zrnd_even. destruct (Req_EM_T y (IZR (Zfloor y))); [contradiction|].
      rewrite <- H1. destruct (Z.even (Zfloor x)); [lia|].
      apply Zceil_le. assumption.
  - intros n. unfold Zrnd_even. rewrite Zfloor_IZR.
    destruct (Req_EM_T (IZR n) (IZR n)); [reflexivity|]. destruct (Z.even n); [reflexivity|apply Zceil_IZR].
Qed.

(* ---------------------------------------------------------------- modes as Flocq integer roundings *)
Definition rnd_of (rm : rmode) : R -> Z :=
  match rm with
  | RNE => ZnearestE
  | RNA => ZnearestA
  | RTP => Zceil
  | RTN => Zfloor
  | RTZ => Ztrunc
  | RAZ => Zaway
  | RTO => Zrnd_odd
  | RTE => Zrnd_even
  end.

Global Instance valid_rnd_of rm : Valid_rnd (rnd_of rm).
Proof. destruct rm; simpl; typeclasses eauto. Qed.

(* ---------------------------------------------------------------- the integer decision *)
(* should the truncated significand m (of parity `ev`) of a value of sign s be
   incremented, given the location of the exact value in ]m, m+1[ ? *)
Definition incr_b (rm : rmode) (s ev : bool) (l : location) : bool :=
  match l with
  | loc_Exact => false
  | loc_Inexact c =>
      match rm with
      | RNE => match c with Gt => true | Eq => negb ev | Lt => false end
      | RNA => match c with Gt | Eq => true | Lt => false end
      | RTP => negb s
      | RTN => s
      | RTZ => false
      | RAZ => true
      | RTO => ev
      | RTE => negb ev
      end
  end.

Definition mode_choice (rm : rmode) (s : bool) (m : Z) (l : location) : Z :=
  cond_incr (incr_b rm s (Z.even m) l) m.

(* ---------------------------------------------------------------- floor/ceil of a located value *)
Lemma inb_cases x m l : inbetween_int m (Rabs x) l ->
  (l = loc_Exact /\ x = IZR (cond_Zopp (Rlt_bool x 0) m)) \/
  (exists c, l = loc_Inexact c /\ x <> IZR (Zfloor x) /\
     if Rlt_bool x 0 then Zfloor x = - (m + 1) /\ Zceil x = - m
     else Zfloor x = m /\ Zceil x = m + 1).
Proof.
  intros H. destruct l as [|c].
  - inversion H as [Hx|]. left. split; [reflexivity|].
    destruct (Rlt_bool_spec x 0) as [Zx|Zx]; simpl.
    + rewrite opp_IZR, <- Hx. rewrite Rabs_left by assumption. ring.
    + rewrite <- Hx. rewrite Rabs_pos_eq by assumption. reflexivity.
  - inversion H as [|c' Hx Hc]. right. exists c. split; [reflexivity|].
    destruct (Rlt_bool_spec x 0) as [Zx|Zx].
    + rewrite Rabs_left in Hx by assumption.
      assert (Hf : Zfloor x = - (m + 1)).
      { apply Zfloor_imp. rewrite opp_IZR. replace (- (m + 1) + 1) with (- m) by lia.
        rewrite opp_IZR. lra. }
      split; [|split; [exact Hf|]].
      * rewrite Hf, opp_IZR. lra.
      * unfold Zceil. assert (Zfloor (- x) = m) by (apply Zfloor_imp; lra). lia.
    + rewrite Rabs_pos_eq in Hx by assumption.
      assert (Hf : Zfloor x = m) by (apply Zfloor_imp; lra).
      split; [|split; [exact Hf|]].
      * rewrite Hf. lra.
      * rewrite Zceil_floor_neq; [lia|]. rewrite Hf. lra.
Qed.

Lemma even_opp_succ m : Z.even (- (m + 1)) = negb (Z.even m).
Proof. rewrite Z.even_opp, Z.even_add. simpl. destruct (Z.even m); reflexivity. Qed.

Lemma inbetween_int_AW_sign x m l : inbetween_int m (Rabs x) l ->
  Zaway x = cond_Zopp (Rlt_bool x 0) (mode_choice RAZ (Rlt_bool x 0) m l).
Proof.
  intros H. destruct (inb_cases x m l H) as [[-> Hx]|[c [-> [Hn Hfc]]]].
  - unfold mode_choice; simpl. rewrite Hx at 1. apply (Zrnd_IZR Zaway).
  - unfold mode_choice; simpl. unfold Zaway.
    destruct (Rlt_bool_spec x 0) as [Zx|Zx]; destruct Hfc as [Hf Hc]; simpl.
    + rewrite Hf. lia.
    + rewrite Hc. reflexivity.
Qed.

Lemma inbetween_int_odd_sign x m l : inbetween_int m (Rabs x) l ->
  Zrnd_odd x = cond_Zopp (Rlt_bool x 0) (mode_choice RTO (Rlt_bool x 0) m l).
Proof.
  intros H. destruct (inb_cases x m l H) as [[-> Hx]|[c [-> [Hn Hfc]]]].
  - unfold mode_choice; simpl. rewrite Hx at 1. apply (Zrnd_IZR Zrnd_odd).
  - unfold mode_choice; simpl. unfold Zrnd_odd.
    destruct (Req_EM_T x (IZR (Zfloor x))); [contradiction|].
    destruct (Rlt_bool x 0); destruct Hfc as [Hf Hc]; rewrite Hf, Hc; simpl.
    + rewrite even_opp_succ. destruct (Z.even m); simpl; lia.
    + destruct (Z.even m); simpl; lia.
Qed.

Lemma inbetween_int_even_sign x m l : inbetween_int m (Rabs x) l ->
  Zrnd_even x = cond_Zopp (Rlt_bool x 0) (mode_choice RTE (Rlt_bool x 0) m l).
Proof.
  intros H. destruct (inb_cases x m l H) as [[-> Hx]|[c [-> [Hn Hfc]]]].
  - unfold mode_choice; simpl. rewrite Hx at 1. apply (Zrnd_IZR Zrnd_even).
  - unfold mode_choice; simpl. unfold Zrnd_even.
    destruct (Req_EM_T x (IZR (Zfloor x))); [contradiction|].
    destruct (Rlt_bool x 0); destruct Hfc as [Hf Hc]; rewrite Hf, Hc; simpl.
    + rewrite even_opp_succ. destruct (Z.even m); simpl; lia.
    + destruct (Z.even m); simpl; lia.
Qed.

(* every mode: the Flocq integer rounding is the sign-magnitude choice *)
Theorem mode_choice_valid rm x m l : inbetween_int m (Rabs x) l ->
  rnd_of rm x = cond_Zopp (Rlt_bool x 0) (mode_choice rm (Rlt_bool x 0) m l).
Proof.
  intros H. destruct rm; simpl.
  - rewrite (inbetween_int_NE_sign x m l H). unfold mode_choice.
    destruct l as [|[| |]]; reflexivity.
  - rewrite (inbetween_int_NA_sign x m l H). unfold mode_choice.
    destruct l as [|[| |]]; reflexivity.
  - rewrite (inbetween_int_UP_sign x m l H). unfold mode_choice.
    destruct l; reflexivity.
  - rewrite (inbetween_int_DN_sign x m l H). unfold mode_choice.
    destruct l; reflexivity.
  - rewrite (inbetween_int_ZR_sign x m l H). unfold mode_choice.
    destruct l; reflexivity.
  - apply inbetween_int_AW_sign. assumption.
  - apply inbetween_int_odd_sign. assumption.
  - apply inbetween_int_even_sign. assumption.
Qed.
