(* Specification side of property C16 (definitions only): the published layout
   of the encodable formats written with div / mod / powers (no shifts, masks
   or code paths of fpy2), value equivalence, integer ranges and the finite
   domains of the bounded theorems. *)
From Coq Require Import ZArith List Bool.
From FpyV Require Import Num.RealFloat Num.Float Num.Formats.
Import ListNotations.
Open Scope Z_scope.

Definition Zseq (lo : Z) (n : nat) : list Z := map (fun i => lo + Z.of_nat i) (seq 0 n).
Definition Zrange (lo hi : Z) : list Z := Zseq lo (Z.to_nat (hi - lo)).   (* lo <= i < hi *)

(* same number: same class, infinities of the same sign, finite values equal
   as real numbers and zeros of the same sign; NaNs are identified (payload,
   sign of NaN) *)
Definition fl_equiv (x y : fl) : bool :=
  match x, y with
  | FNaN _, FNaN _ => true
  | FInf a, FInf b => eqb a b
  | FFin a, FFin b => rf_eqb a b && (negb (is_zero a) || eqb (rs a) (rs b))
  | _, _ => false
  end.

(* ---------------------------------------------------------------- extended floats *)
(* sign | exponent (es bits) | trailing significand (M = nbits - 1 - es bits);
   bias 2^(es-1) - 1 shifted by the exponent offset; subnormals for E = 0;
   special codes by NaN kind (https://uwplse.org/2025/02/17/Small-Floats.html):
     IEEE_754  E all ones: T = 0 is +-inf when infinities are enabled, otherwise NaN
     MAX_VAL   magnitude all ones is NaN; the code below it is +-inf when enabled
     NEG_ZERO  the pattern of -0 is NaN; magnitude all ones is +-inf when enabled
     NONE      no NaN; magnitude all ones is +-inf when enabled *)
Definition layout_value (f : efmt) (b : Z) : fl :=
  let nbits := e_nbits f in
  let es := e_es f in
  let M := nbits - 1 - es in
  let s := b / 2 ^ (nbits - 1) =? 1 in
  let E := (b / 2 ^ M) mod 2 ^ es in
  let T := b mod 2 ^ M in
  let mag := b mod 2 ^ (nbits - 1) in
  let bias := (if es =? 0 then 0 else 2 ^ (es - 1) - 1) - e_eoffset f in
  let top := 2 ^ (nbits - 1) - 1 in
  let finite :=
    if E =? 0 then FFin (RF s (1 - bias - M) T)
    else FFin (RF s (E - bias - M) (2 ^ M + T)) in
  match e_kind f with
  | NK_IEEE => if E =? 2 ^ es - 1 then (if e_inf f && (T =? 0) then FInf s else FNaN s) else finite
  | NK_MAXVAL => if mag =? top then FNaN s else if e_inf f && (mag =? top - 1) then FInf s else finite
  | NK_NEGZERO => if e_inf f && (mag =? top) then FInf s else if s && (mag =? 0) then FNaN s else finite
  | NK_NONE => if e_inf f && (mag =? top) then FInf s else finite
  end.

(* two's complement and sign-magnitude *)
Definition twos_value (nbits b : Z) : Z := if b <? 2 ^ (nbits - 1) then b else b - 2 ^ nbits.
Definition sm_value (nbits b : Z) : Z := if b <? 2 ^ (nbits - 1) then b else - (b - 2 ^ (nbits - 1)).

(* ---------------------------------------------------------------- finite domains of the bounded theorems *)
Definition all_kinds := [NK_IEEE; NK_MAXVAL; NK_NEGZERO; NK_NONE].

(* every valid extended format with nmin <= nbits <= nmax and |eoffset| <= eo *)
Definition ef_formats (nmin nmax eo : Z) : list efmt :=
  filter ef_valid
    (flat_map (fun nbits =>
       flat_map (fun es =>
         flat_map (fun inf =>
           flat_map (fun k => map (fun o => EF es nbits inf k o) (Zrange (- eo) (eo + 1))) all_kinds)
         [false; true]) (Zrange 0 nbits)) (Zrange nmin (nmax + 1))).

Definition ef_patterns (f : efmt) : list Z := Zrange 0 (2 ^ e_nbits f).

(* candidate values of a format: every encoding (s, exp, c) with up to `red`
   redundant significand bits and exponents from two below the least to two
   above the greatest exponent of the format, and the four special values *)
Definition ef_candidates (f : efmt) (red : Z) : list fl :=
  flat_map (fun s =>
    flat_map (fun e => map (fun c => FFin (RF s e c)) (Zrange 0 (2 ^ (ef_pmax f + red))))
             (Zrange (ef_expmin f - 2) (ef_emax f + 3)))
    [false; true]
  ++ [FInf false; FInf true; FNaN false; FNaN true].

Definition decoded (f : efmt) : list fl :=
  flat_map (fun b => match ef_decode f b with Ok x => [x] | Err _ => [] end) (ef_patterns f).
Definition in_decoded_set (f : efmt) (x : fl) : bool := existsb (fun d => fl_equiv d x) (decoded f).

Definition is_ok {A} (r : result A) : bool := match r with Ok _ => true | Err _ => false end.
Definition res_eqb {A} (eq : A -> A -> bool) (r : result A) (a : A) : bool :=
  match r with Ok b => eq b a | Err _ => false end.

(* x lies on the candidate grid of f (Prop form of membership in ef_candidates) *)
Definition in_cand_range (f : efmt) (red : Z) (x : fl) : Prop :=
  match x with
  | FFin r => ef_expmin f - 2 <= rexp r <= ef_emax f + 2 /\ 0 <= rc r < 2 ^ (ef_pmax f + red)
  | _ => True
  end.

(* the bounded domains *)
Definition dom8 (f : efmt) : Prop := ef_valid f = true /\ 1 <= e_nbits f <= 8 /\ -3 <= e_eoffset f <= 3.
Definition dom6 (f : efmt) : Prop := ef_valid f = true /\ 1 <= e_nbits f <= 6 /\ -3 <= e_eoffset f <= 3.
Definition is_pattern (f : efmt) (b : Z) : Prop := 0 <= b < 2 ^ e_nbits f.
