(* Property C16, bounded theorems (nbits <= 6, |eoffset| <= 3): representable_in, encode and normalize on every candidate value (redundant and unrepresentable encodings included). *)
From Coq Require Import ZArith List Bool Lia.
From FpyV Require Import Num.RealFloat Num.Float Num.Out Num.Formats Num.Layout Num.FormatsBoundedLibProofs.
Import ListNotations.
Open Scope Z_scope.

(* ---------------------------------------------------------------- candidate values (redundant and unrepresentable encodings) *)
Definition cand_ok (fx : fixes) (f : efmt) (ds : list fl) (x : fl) : bool :=
  let r := ef_repr fx f x in
  (exc_repr fx f x || eqb r (existsb (fun d => fl_equiv d x) ds)) &&
  (negb r || exc_enc_inf fx f x || exc_enc_nan fx f x ||
   match ef_encode fx f x with
   | Ok b => (0 <=? b) && (b <? 2 ^ e_nbits f) &&
             match ef_decode f b with Ok y => fl_equiv y x | Err _ => false end
   | Err _ => false
   end) &&
  (negb r ||
   match ef_normalize fx f x with
   | Ok y => fl_equiv y x && res_eqb eqb (ef_canonical fx f y) true &&
             (fl_is_nar y || existsb (fun d => fl_identical d y) ds)
   | Err _ => false
   end).

Definition fmt_cands (fx : fixes) (f : efmt) : bool :=
  let ds := decoded f in forallb (cand_ok fx f ds) (ef_candidates f 1).

Lemma all_fmt_cands_fixed : forall_fmt (fmt_cands all_fixed) 1 6 3 = true.
Proof. vm_compute. reflexivity. Qed.
Lemma all_fmt_cands_coded : forall_fmt (fmt_cands as_coded) 1 6 3 = true.
Proof. vm_compute. reflexivity. Qed.

Lemma cand_ok_at fx f x : fx = as_coded \/ fx = all_fixed -> dom6 f -> in_cand_range f 1 x ->
  cand_ok fx f (decoded f) x = true.
Proof.
  intros Hfx [V [Hn He]] Hx.
  assert (H : fmt_cands fx f = true).
  { destruct Hfx as [-> | ->].
    - apply (forall_fmt_spec _ _ _ _ all_fmt_cands_coded f V Hn). lia.
    - apply (forall_fmt_spec _ _ _ _ all_fmt_cands_fixed f V Hn). lia. }
  unfold fmt_cands in H. rewrite forallb_forall in H. apply H. apply in_candidates. exact Hx.
Qed.

Lemma candidates_gen fx f x : fx = as_coded \/ fx = all_fixed -> dom6 f -> in_cand_range f 1 x ->
  (exc_repr fx f x = false -> ef_repr fx f x = in_decoded_set f x) /\
  (ef_repr fx f x = true -> exc_enc_inf fx f x = false -> exc_enc_nan fx f x = false ->
     exists b y, ef_encode fx f x = Ok b /\ is_pattern f b /\ ef_decode f b = Ok y /\ fl_equiv y x = true) /\
  (ef_repr fx f x = true ->
     exists y, ef_normalize fx f x = Ok y /\ fl_equiv y x = true /\ ef_canonical fx f y = Ok true /\
       (fl_is_nar y = false -> exists b, is_pattern f b /\ ef_decode f b = Ok y)).
Proof.
  intros Hfx D Hx. pose proof (cand_ok_at fx f x Hfx D Hx) as H. unfold cand_ok in H.
  apply andb_prop in H. destruct H as [H N]. apply andb_prop in H. destruct H as [R E].
  split; [|split].
  - intros X. rewrite X in R. simpl in R. apply eqb_prop in R. exact R.
  - intros Rx X1 X2. rewrite Rx, X1, X2 in E. simpl in E.
    destruct (ef_encode fx f x) as [b|]; [|discriminate].
    apply andb_prop in E. destruct E as [E Dy]. apply andb_prop in E. destruct E as [B1 B2].
    destruct (ef_decode f b) as [y|] eqn:Db; [|discriminate].
    exists b, y. unfold is_pattern. repeat split; auto; lia.
  - intros Rx. rewrite Rx in N. simpl in N.
    destruct (ef_normalize fx f x) as [y|]; [|discriminate].
    apply andb_prop in N. destruct N as [N M]. apply andb_prop in N. destruct N as [Q C].
    exists y. repeat split; auto.
    + unfold res_eqb in C. destruct (ef_canonical fx f y) as [c|]; [|discriminate].
      apply eqb_prop in C. subst c. reflexivity.
    + intros Fy. rewrite Fy in M. simpl in M. apply existsb_exists in M. destruct M as [d [Hd I]].
      apply in_decoded in Hd. destruct Hd as [b [Hb Db]]. exists b. split; [apply In_Zrange_inv in Hb; exact Hb|].
      rewrite Db. f_equal.
      destruct d as [d|sd|sd], y as [y|sy|sy]; simpl in I; try discriminate.
      unfold rf_identical in I. apply andb_prop in I. destruct I as [I I3]. apply andb_prop in I. destruct I as [I1 I2].
      apply eqb_prop in I1. apply Z.eqb_eq in I2, I3. destruct d, y; simpl in *; subst; reflexivity.
Qed.

Theorem efloat_representable_iff_decoded_le6_fixed f x :
  dom6 f -> in_cand_range f 1 x -> ef_repr all_fixed f x = in_decoded_set f x.
Proof. intros D Hx. apply (candidates_gen all_fixed f x (or_intror eq_refl) D Hx). reflexivity. Qed.

Theorem efloat_representable_iff_decoded_le6_partial f x :
  dom6 f -> in_cand_range f 1 x -> ef_has_nonzero f = true \/ fl_is_nar x = false ->
  ef_repr as_coded f x = in_decoded_set f x.
Proof.
  intros D Hx Hc. apply (candidates_gen as_coded f x (or_introl eq_refl) D Hx).
  unfold exc_repr. simpl. destruct Hc as [-> | ->]; [reflexivity|apply andb_false_r].
Qed.

Theorem efloat_encode_decode_le6_fixed f x :
  dom6 f -> in_cand_range f 1 x -> ef_repr all_fixed f x = true ->
  exists b y, ef_encode all_fixed f x = Ok b /\ is_pattern f b /\ ef_decode f b = Ok y /\ fl_equiv y x = true.
Proof. intros D Hx R. apply (candidates_gen all_fixed f x (or_intror eq_refl) D Hx); auto. Qed.

Theorem efloat_encode_decode_le6_partial f x :
  dom6 f -> in_cand_range f 1 x -> ef_repr as_coded f x = true ->
  ~ (e_kind f = NK_MAXVAL /\ e_nbits f - e_es f = 1 /\ fl_isinf x = true) ->
  ~ (e_kind f = NK_NEGZERO /\ x = FNaN false) ->
  exists b y, ef_encode as_coded f x = Ok b /\ is_pattern f b /\ ef_decode f b = Ok y /\ fl_equiv y x = true.
Proof.
  intros D Hx R N1 N2. apply (candidates_gen as_coded f x (or_introl eq_refl) D Hx); auto.
  - unfold exc_enc_inf. simpl. destruct (e_kind f) eqn:K; try reflexivity. simpl.
    destruct (Z.eqb_spec (e_nbits f - e_es f) 1) as [P1|P1]; [|reflexivity]. simpl.
    destruct (fl_isinf x) eqn:I; [|reflexivity]. exfalso. apply N1. auto.
  - unfold exc_enc_nan. simpl. destruct (e_kind f) eqn:K; try reflexivity. simpl.
    destruct x as [r|s|s]; try reflexivity. simpl. destruct s; [reflexivity|]. exfalso. apply N2. auto.
Qed.

Theorem efloat_encode_nan_refuted :
  exists f b y, dom6 f /\ ef_repr as_coded f (FNaN false) = true /\
    ef_encode as_coded f (FNaN false) = Ok b /\ ef_decode f b = Ok y /\ fl_equiv y (FNaN false) = false.
Proof.
  exists (EF 2 4 false NK_NEGZERO 0), 0, (FFin (RF false (-1) 0)).
  unfold dom6. vm_compute. repeat split; intro; discriminate.
Qed.

Theorem efloat_normalize_le6 fx f x :
  fx = as_coded \/ fx = all_fixed -> dom6 f -> in_cand_range f 1 x -> ef_repr fx f x = true ->
  exists y, ef_normalize fx f x = Ok y /\ fl_equiv y x = true /\ ef_canonical fx f y = Ok true /\
    (fl_is_nar y = false -> exists b, is_pattern f b /\ ef_decode f b = Ok y).
Proof. intros Hfx D Hx R. apply (candidates_gen fx f x Hfx D Hx). exact R. Qed.
