(* Property C16, bounded theorems: enumeration of the finite domains (all valid extended-float formats with bounded width, all patterns, all candidate values) and the lifting lemmas from a boolean check evaluated by vm_compute to the quantified statement. *)
From Coq Require Import ZArith List Bool Lia.
From FpyV Require Import Num.RealFloat Num.Float Num.Out Num.Formats Num.Layout.
Import ListNotations.
Open Scope Z_scope.

(* ---------------------------------------------------------------- ranges and enumeration *)
Lemma In_Zseq lo n z : lo <= z < lo + Z.of_nat n -> In z (Zseq lo n).
Proof.
  intros H. unfold Zseq. apply in_map_iff. exists (Z.to_nat (z - lo)). split; [lia|].
  apply in_seq. lia.
Qed.

Lemma In_Zrange lo hi z : lo <= z < hi -> In z (Zrange lo hi).
Proof. intros H. unfold Zrange. apply In_Zseq. lia. Qed.

Lemma all_kinds_complete k : In k all_kinds.
Proof. destruct k; simpl; auto. Qed.

Lemma ef_valid_bounds f : ef_valid f = true -> 1 <= e_nbits f /\ 0 <= e_es f < e_nbits f.
Proof.
  unfold ef_valid, ef_ctor.
  destruct (format_is_valid (e_es f) (e_nbits f) (e_inf f) (e_kind f)) eqn:H; simpl; [|discriminate].
  intros _. unfold format_is_valid in H.
  destruct (Z.ltb_spec (e_nbits f) 1); [discriminate|].
  destruct (Z.ltb_spec (e_es f) 0); [discriminate|].
  destruct (Z.geb_spec (e_es f) (e_nbits f)); [discriminate|]. lia.
Qed.

Lemma ef_formats_complete nmin nmax eo f :
  ef_valid f = true -> nmin <= e_nbits f <= nmax -> - eo <= e_eoffset f <= eo ->
  In f (ef_formats nmin nmax eo).
Proof.
  intros V Hn He. destruct (ef_valid_bounds f V) as [_ Hes].
  unfold ef_formats. apply filter_In. split; [|exact V].
  apply in_flat_map. exists (e_nbits f). split; [apply In_Zrange; lia|].
  apply in_flat_map. exists (e_es f). split; [apply In_Zrange; lia|].
  apply in_flat_map. exists (e_inf f). split; [destruct (e_inf f); simpl; auto|].
  apply in_flat_map. exists (e_kind f). split; [apply all_kinds_complete|].
  apply in_map_iff. exists (e_eoffset f). split; [destruct f; reflexivity|apply In_Zrange; lia].
Qed.

Definition forall_fmt (P : efmt -> bool) (nmin nmax eo : Z) : bool := forallb P (ef_formats nmin nmax eo).

Lemma forall_fmt_spec P nmin nmax eo : forall_fmt P nmin nmax eo = true ->
  forall f, ef_valid f = true -> nmin <= e_nbits f <= nmax -> - eo <= e_eoffset f <= eo -> P f = true.
Proof.
  intros H f V Hn He. unfold forall_fmt in H. rewrite forallb_forall in H.
  apply H. apply ef_formats_complete; assumption.
Qed.

Lemma forallb_patterns P f : forallb P (ef_patterns f) = true -> forall b, is_pattern f b -> P b = true.
Proof. intros H b Hb. rewrite forallb_forall in H. apply H. apply In_Zrange. exact Hb. Qed.

Lemma in_candidates f red x : in_cand_range f red x -> In x (ef_candidates f red).
Proof.
  intros H. unfold ef_candidates. apply in_or_app.
  destruct x as [r|s|s]; [left|right; destruct s; simpl; auto|right; destruct s; simpl; auto].
  simpl in H. destruct H as [He Hc].
  apply in_flat_map. exists (rs r). split; [destruct (rs r); simpl; auto|].
  apply in_flat_map. exists (rexp r). split; [apply In_Zrange; lia|].
  apply in_map_iff. exists (rc r). split; [destruct r; reflexivity|apply In_Zrange; lia].
Qed.

Lemma dom8_bounds f : dom8 f -> ef_valid f = true /\ 1 <= e_nbits f <= 8 /\ - 3 <= e_eoffset f <= 3.
Proof. intros H; exact H. Qed.

(* decoded values: membership in Prop form *)
Lemma in_decoded f x : In x (decoded f) <-> exists b, In b (ef_patterns f) /\ ef_decode f b = Ok x.
Proof.
  unfold decoded. rewrite in_flat_map. split.
  - intros [b [Hb Hx]]. exists b. split; [exact Hb|].
    destruct (ef_decode f b); simpl in Hx; [destruct Hx as [->|[]]; reflexivity|destruct Hx].
  - intros [b [Hb Hx]]. exists b. split; [exact Hb|]. rewrite Hx. simpl. auto.
Qed.

Lemma In_Zrange_inv lo hi z : In z (Zrange lo hi) -> lo <= z < hi.
Proof.
  unfold Zrange, Zseq. rewrite in_map_iff. intros [i [<- Hi]]. apply in_seq in Hi. lia.
Qed.

Lemma in_decoded_set_spec f x : in_decoded_set f x = true <->
  exists b y, is_pattern f b /\ ef_decode f b = Ok y /\ fl_equiv y x = true.
Proof.
  unfold in_decoded_set. rewrite existsb_exists. split.
  - intros [y [Hy E]]. apply in_decoded in Hy. destruct Hy as [b [Hb D]].
    exists b, y. split; [apply In_Zrange_inv in Hb; exact Hb|]. auto.
  - intros [b [y [Hb [D E]]]]. exists y. split; [|exact E].
    apply in_decoded. exists b. split; [apply In_Zrange; exact Hb|exact D].
Qed.

(* the finite-value part of representable_in does not depend on the repairs *)
Lemma ef_repr_finite fx f r : ef_repr fx f (FFin r) = ef_repr as_coded f (FFin r).
Proof. unfold ef_repr. simpl. rewrite andb_false_r. reflexivity. Qed.

(* ---------------------------------------------------------------- exceptions = the recorded defects *)
Definition exc_repr (fx : fixes) (f : efmt) (x : fl) : bool :=
  negb (fx_repr fx) && negb (ef_has_nonzero f) && fl_is_nar x.
Definition exc_enc_inf (fx : fixes) (f : efmt) (x : fl) : bool :=
  negb (fx_enc_inf fx) && nan_kind_eqb (e_kind f) NK_MAXVAL && (e_nbits f - e_es f =? 1) && fl_isinf x.
Definition exc_enc_nan (fx : fixes) (f : efmt) (x : fl) : bool :=
  negb (fx_enc_nan fx) && nan_kind_eqb (e_kind f) NK_NEGZERO && fl_isnan x && negb (fl_s x).

Lemma forallb_decoded P f : forallb P (decoded f) = true ->
  forall b x, is_pattern f b -> ef_decode f b = Ok x -> P x = true.
Proof.
  intros H b x Hb D. rewrite forallb_forall in H. apply H. apply in_decoded.
  exists b. split; [apply In_Zrange; exact Hb|exact D].
Qed.
