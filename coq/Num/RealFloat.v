(* Model of fpy2/number/number/reals.py (RealFloat) and fpy2/number/round.py.
   Definitions only: this file must keep running (vm_compute / extraction)
   when a proof elsewhere is broken.  Each definition names the Python
   function it transcribes. *)
From Coq Require Import ZArith List Bool.
Import ListNotations.
Open Scope Z_scope.

(* ---------------------------------------------------------------- errors *)
Inductive err := ValueErr | OverflowErr | TypeErr | IndexErr | AssertErr | NameErr | OtherErr.
Inductive result (A : Type) := Ok (a : A) | Err (e : err).
Arguments Ok {A} a.
Arguments Err {A} e.

Definition bind {A B} (r : result A) (f : A -> result B) : result B :=
  match r with Ok a => f a | Err e => Err e end.

(* ---------------------------------------------------------------- ints *)
(* int.bit_length for c >= 0 *)
Definition bitlen (c : Z) : Z := if c =? 0 then 0 else Z.log2 c + 1.
(* utils.bitmask: (1 << k) - 1 *)
Definition bitmask (k : Z) : Z := Z.shiftl 1 k - 1.

(* ---------------------------------------------------------------- RealFloat *)
Record rf := RF { rs : bool; rexp : Z; rc : Z }.

Definition rf_wf (x : rf) : Prop := 0 <= rc x.

Definition rf_p (x : rf) : Z := bitlen (rc x).
Definition rf_e (x : rf) : Z := rexp x + rf_p x - 1.
Definition rf_n (x : rf) : Z := rexp x - 1.
Definition rf_m (x : rf) : Z := if rs x then - rc x else rc x.
Definition is_zero (x : rf) : bool := rc x =? 0.

Definition rf_neg (x : rf) : rf := RF (negb (rs x)) (rexp x) (rc x).
Definition rf_pos (x : rf) : rf := x.
Definition rf_abs (x : rf) : rf := RF false (rexp x) (rc x).

(* RealFloat.__add__ (RealFloat arm) *)
Definition rf_add (x y : rf) : rf :=
  if rc x =? 0 then
    if rc y =? 0 then RF (rs x && rs y) (Z.min (rexp x) (rexp y)) 0
    else y
  else if rc y =? 0 then x
  else
    let exp := Z.min (rexp x) (rexp y) in
    let c1 := Z.shiftl (rc x) (rexp x - exp) in
    let c2 := Z.shiftl (rc y) (rexp y - exp) in
    let m1 := if rs x then - c1 else c1 in
    let m2 := if rs y then - c2 else c2 in
    let m := m1 + m2 in
    let s := m <? 0 in
    RF s exp (if s then - m else m).

Definition rf_sub (x y : rf) : rf := rf_add x (rf_neg y).

(* RealFloat.__mul__ *)
Definition rf_mul (x y : rf) : rf :=
  let s := xorb (rs x) (rs y) in
  if (rc x =? 0) || (rc y =? 0) then RF s 0 0
  else RF s (rexp x + rexp y) (rc x * rc y).

(* RealFloat.__pow__, exponent >= 0 (negative: ValueError) *)
Definition rf_pow (x : rf) (k : Z) : result rf :=
  if k <? 0 then Err ValueErr
  else if k =? 0 then Ok (RF false 0 1)
  else Ok (RF (rs x && (k mod 2 =? 1)) (rexp x * k) (rc x ^ k)).

(* RealFloat.is_more_significant *)
Definition is_more_significant (x : rf) (n : Z) : bool :=
  if is_zero x then true
  else if rexp x >? n then true
  else if rf_e x <=? n then false
  else Z.land (rc x) (bitmask (n - rexp x + 1)) =? 0.

Definition is_integer (x : rf) : bool := is_more_significant x (-1).

(* RealFloat.bit *)
Definition rf_bit (x : rf) (n : Z) : bool :=
  let offset := n - rexp x in
  if (offset <? 0) || (offset >=? rf_p x) then false
  else negb (Z.land (rc x) (Z.shiftl 1 offset) =? 0).

(* RealFloat.__int__ *)
Definition rf_to_int (x : rf) : result Z :=
  if negb (is_integer x) then Err ValueErr
  else if rc x =? 0 then Ok 0
  else
    let c := if rexp x >=? 0 then Z.shiftl (rc x) (rexp x) else Z.shiftr (rc x) (- rexp x) in
    Ok ((if rs x then -1 else 1) * c).

(* RealFloat.normalize *)
Definition normalize (x : rf) (p n : option Z) : result rf :=
  let go (shift exp : Z) : result rf :=
    if shift =? 0 then Ok (RF (rs x) exp (rc x))
    else if shift >? 0 then Ok (RF (rs x) exp (Z.shiftl (rc x) shift))
    else
      let sh := - shift in
      if negb (Z.land (rc x) (bitmask sh) =? 0) then Err ValueErr
      else Ok (RF (rs x) exp (Z.shiftr (rc x) sh)) in
  match p, n with
  | None, None => Ok (RF (rs x) (rexp x) (rc x))
  | Some p, None =>
      if p <? 0 then Err ValueErr
      else let shift := p - rf_p x in go shift (rexp x - shift)
  | None, Some n =>
      let exp := n + 1 in go (rexp x - exp) exp
  | Some p, Some n =>
      if p <? 0 then Err ValueErr
      else
        let shift := p - rf_p x in
        let exp := rexp x - shift in
        if exp <=? n then
          let adjust := (n + 1) - exp in
          go (shift - adjust) (exp + adjust)
        else go shift exp
  end.

(* RealFloat.split *)
Definition split (x : rf) (n : Z) : rf * rf :=
  if is_zero x then (RF (rs x) (n + 1) 0, RF (rs x) n 0)
  else if n >=? rf_e x then (RF (rs x) (n + 1) 0, RF (rs x) (rexp x) (rc x))
  else if n <? rexp x then (RF (rs x) (rexp x) (rc x), RF (rs x) n 0)
  else
    let p_lo := (n + 1) - rexp x in
    (RF (rs x) (rexp x + p_lo) (Z.shiftr (rc x) p_lo),
     RF (rs x) (rexp x) (Z.land (rc x) (bitmask p_lo))).

(* Ordering / RealFloat.compare (RealFloat arm) *)
Definition cmp_rev (c : comparison) : comparison := CompOpp c.

Definition rf_compare (x y : rf) : comparison :=
  if rc x =? 0 then
    if rc y =? 0 then Eq else if rs y then Gt else Lt
  else if rc y =? 0 then (if rs x then Lt else Gt)
  else if negb (eqb (rs x) (rs y)) then (if rs x then Lt else Gt)
  else
    let cmp :=
      match rf_e x ?= rf_e y with
      | Gt => Gt
      | Lt => Lt
      | Eq =>
          let exp := Z.min (rexp x) (rexp y) in
          Z.shiftl (rc x) (rexp x - exp) ?= Z.shiftl (rc y) (rexp y - exp)
      end in
    if rs x then cmp_rev cmp else cmp.

Definition rf_eqb (x y : rf) : bool := match rf_compare x y with Eq => true | _ => false end.
Definition rf_leb (x y : rf) : bool := match rf_compare x y with Gt => false | _ => true end.
Definition rf_geb (x y : rf) : bool := match rf_compare x y with Lt => false | _ => true end.

(* ---------------------------------------------------------------- rounding modes *)
Inductive rmode := RNE | RNA | RTP | RTN | RTZ | RAZ | RTO | RTE.
Inductive rdir := DTZ | DAZ | DTE | DTO.

(* RoundingMode.to_direction *)
Definition to_direction (rm : rmode) (s : bool) : bool * rdir :=
  match rm, s with
  | RNE, _ => (true, DTE)
  | RNA, _ => (true, DAZ)
  | RTP, true => (false, DTZ)
  | RTP, false => (false, DAZ)
  | RTN, true => (false, DAZ)
  | RTN, false => (false, DTZ)
  | RTZ, _ => (false, DTZ)
  | RAZ, _ => (false, DAZ)
  | RTO, _ => (false, DTO)
  | RTE, _ => (false, DTE)
  end.

(* ---------------------------------------------------------------- flags *)
Record flags := FL {
  f_invalid : bool; f_divzero : bool; f_overflow : bool;
  f_tiny_pre : bool; f_tiny_post : bool; f_inexact : bool; f_carry : bool }.
Definition no_flags := FL false false false false false false false.

(* ---------------------------------------------------------------- rounding *)
(* RealFloat._round_params *)
Definition round_params (x : rf) (max_p min_n : option Z) : result (option Z * Z) :=
  match max_p, min_n with
  | None, None => Err ValueErr
  | None, Some n => Ok (None, n)
  | Some p, None => Ok (Some p, rf_e x - p)
  | Some p, Some n => Ok (Some p, Z.max n (rf_e x - p))
  end.

(* RealFloat._round_increment_direction *)
Definition round_incr_dir (kept : rf) (d : rdir) : bool :=
  match d with
  | DTZ => false
  | DAZ => true
  | DTE => negb (Z.land (rc kept) 1 =? 0)
  | DTO => Z.land (rc kept) 1 =? 0
  end.

(* RealFloat._round_increment *)
Definition round_incr (kept lost : rf) (n : Z) (rm : rmode) : bool :=
  let '(nearest, d) := to_direction rm (rs kept) in
  if nearest then
    let '(half_bit, lower_bits) :=
      if rf_e lost =? n then
        (negb (Z.shiftr (rc lost) (rf_p lost - 1) =? 0),
         negb (Z.land (rc lost) (bitmask (rf_p lost - 1)) =? 0))
      else (false, true) in
    if half_bit then
      if lower_bits then true else round_incr_dir kept d
    else false
  else round_incr_dir kept d.

(* RealFloat._tiny_pre *)
Definition tiny_pre (x : rf) (emin : Z) : bool := is_zero x || (rf_e x <? emin).

(* RealFloat._tiny_post *)
Definition tiny_post (x kept : rf) (emin n : Z) (rm : rmode) : bool :=
  if rf_e kept <? emin - 1 then true
  else
    let p := emin - n in
    let cutoff := RF (rs x) n (bitmask p) in
    if (if rs x then rf_geb x cutoff else rf_leb x cutoff) then true
    else
      let '(kept2, lost2) := split x (n - 1) in
      negb (round_incr kept2 lost2 (n - 1) rm).

(* RealFloat._round_at; `exact=True` raising ValueError is Err ValueErr *)
Definition round_at (x : rf) (p : option Z) (n : Z) (emin : option Z) (rm : rmode) (exact : bool)
  : result (rf * flags) :=
  let tp := match emin with Some em => tiny_pre x em | None => false end in
  let fits := match p with None => true | Some p => rf_p x <=? p end in
  if (rexp x >? n) && fits then
    Ok (RF (rs x) (rexp x) (rc x), FL false false false tp tp false false)
  else
    let '(kept, lost) := split x n in
    if is_zero lost then
      Ok (kept, FL false false false tp tp false false)
    else if exact then Err ValueErr
    else
      let increment := round_incr kept lost n rm in
      let '(kept', carry) :=
        if increment then
          let c1 := rc kept + 1 in
          match p with
          | Some p =>
              if bitlen c1 >? p then (RF (rs kept) (rexp kept + 1) (Z.shiftr c1 1), true)
              else (RF (rs kept) (rexp kept) c1, false)
          | None => (RF (rs kept) (rexp kept) c1, false)
          end
        else (kept, false) in
      let tpost :=
        if tp then match emin with Some em => tiny_post x kept' em n rm | None => tp end else tp in
      Ok (kept', FL false false false tp tpost true carry).

(* RealFloat.round (num_randbits = 0) *)
Definition rf_round (x : rf) (max_p min_n : option Z) (rm : rmode) (exact : bool) : result (rf * flags) :=
  bind (round_params x max_p min_n) (fun pn =>
    let '(p, n) := pn in
    let emin := match max_p, min_n with Some p, Some n => Some (p + n) | _, _ => None end in
    round_at x p n emin rm exact).

(* RealFloat.round_at (num_randbits = 0) *)
Definition rf_round_at (x : rf) (n : Z) (p : option Z) (rm : rmode) (exact : bool) : result (rf * flags) :=
  let emin := match p with Some p => Some (p + n) | None => None end in
  round_at x p n emin rm exact.

(* RealFloat._round_at_stochastic with the drawn integer `randbits` explicit.
   num_randbits = None means "all bits": max 0 ((n+1) - exp). *)
Definition stoch_numbits (x : rf) (n : Z) (k : option Z) : Z :=
  match k with Some k => k | None => Z.max 0 ((n + 1) - rexp x) end.

Definition round_at_stoch (x : rf) (p : option Z) (n : Z) (emin : option Z) (rm : rmode)
    (num_randbits : option Z) (randbits : Z) (exact : bool) : result (rf * flags) :=
  let k := stoch_numbits x n num_randbits in
  let n_rand := n - k in
  bind (round_at x None n_rand None rm exact) (fun xrf =>
    let xr := fst xrf in
    let lost := snd (split xr n) in
    let rand_rm :=
      if is_zero lost then
        (* the extended value has no digit below n: either x itself is
           representable, or the pre-rounding moved onto a neighbour *)
        match rf_compare (rf_abs xr) (rf_abs x) with Gt => RAZ | _ => RTZ end
      else
        let offset := rexp lost - (n_rand + 1) in
        let lost_c :=
          if offset >? 0 then Z.shiftl (rc lost) offset
          else if offset <? 0 then Z.shiftr (rc lost) (- offset)
          else rc lost in
        if randbits + lost_c >=? Z.shiftl 1 k then RAZ else RTZ in
    round_at x p n emin rand_rm exact).

(* RealFloat._next_away / _next_towards after _extract_and_normalize *)
Definition extract_and_normalize (x : rf) (n : Z) (p : option Z) : result (Z * Z) :=
  let needs := negb (rexp x =? n + 1) || match p with Some p => rf_p x >? p | None => false end in
  if needs then
    bind (normalize x p (Some n)) (fun y => Ok (rc y, rexp y))
  else Ok (rc x, rexp x).

Definition next_away (x : rf) (n : Z) (p : option Z) : result rf :=
  bind (extract_and_normalize x n p) (fun ce =>
    let '(c, exp) := ce in
    let c := c + 1 in
    match p with
    | Some p => if bitlen c >? p then Ok (RF (rs x) (exp + 1) (Z.shiftr c 1)) else Ok (RF (rs x) exp c)
    | None => Ok (RF (rs x) exp c)
    end).

Definition next_towards (x : rf) (n : Z) (p : option Z) : result rf :=
  bind (extract_and_normalize x n p) (fun ce =>
    let '(c, exp) := ce in
    let c := c - 1 in
    if c <? 0 then Err ValueErr else
    match p with
    | Some p =>
        if (exp >? n + 1) && (bitlen c <? p) then Ok (RF (rs x) (exp - 1) (Z.lor (Z.shiftl c 1) 1))
        else Ok (RF (rs x) exp c)
    | None => Ok (RF (rs x) exp c)
    end).
