(* Property C16: the hypotheses of the theorems are satisfiable (no vacuous statement). *)
From Coq Require Import ZArith List Bool Lia.
From FpyV Require Import Num.RealFloat Num.Float Num.Formats Num.Layout.
Open Scope Z_scope.

Example domains_inhabited :
  dom8 (EF 4 8 false NK_NEGZERO 0) /\ dom6 (EF 2 6 true NK_MAXVAL (-3)) /\
  dom8 (EF 5 8 true NK_IEEE 3) /\ dom8 (EF 0 1 false NK_NONE 0) /\
  is_pattern (EF 4 8 false NK_NEGZERO 0) 200 /\
  in_cand_range (EF 2 6 true NK_MAXVAL (-3)) 1 (FFin (RF true (-3) 30)) /\
  ef_valid (EF 8 32 true NK_IEEE 0) = true /\ ef_valid (EF 11 64 true NK_IEEE 0) = true /\
  fix_ctor_ok (FIXF true (-8) 32) = true /\ sm_ctor_ok (SMF 3 16) = true /\ exp_ctor_ok (EXPF 8 0) = true /\
  mpbf_repr (fix_mpbf (FIXF true (-8) 32)) (FFin (RF true (-10) 1028)) = true /\
  mpbf_repr (sm_mpbf (SMF 3 16)) (FFin (RF true 5 0)) = true /\
  exp_repr (EXPF 8 0) (FFin (RF false 3 4)) = true /\
  mpf_repr (MPFF (-5) false false true) (FFin (RF true (-6) 12)) = true.
Proof. unfold dom8, dom6, is_pattern, in_cand_range. vm_compute. repeat split; try reflexivity; try (intro; discriminate). Qed.
