(* Bridge between the two transcriptions of efloat._ext_to_mpb_fmt: the one the
   rounding model of C01 uses (Num/Ctx.v) and the one the encoding model of C16
   uses (Num/Formats.v).  With it, C16's theorem that the derived maxval is the
   largest finite value of the published layout applies to the context model. *)
From Coq Require Import ZArith List Bool Lia.
From FpyV Require Import Num.RealFloat Num.Float Num.CtxDef Num.Ctx Num.Formats.
Open Scope Z_scope.

Definition nk_conv (k : CtxDef.nankind) : Formats.nan_kind :=
  match k with
  | CtxDef.NK_IEEE => Formats.NK_IEEE
  | CtxDef.NK_MAXVAL => Formats.NK_MAXVAL
  | CtxDef.NK_NEGZERO => Formats.NK_NEGZERO
  | CtxDef.NK_NONE => Formats.NK_NONE
  end.

Lemma ntz_agree x p n : Ctx.ntz x p n = Formats.next_towards_zero x p n.
Proof. reflexivity. Qed.

Lemma binade_max_agree p emin e : Ctx.binade_max p emin e = Formats.binade_max p emin e.
Proof. reflexivity. Qed.

Lemma bind_assoc {A B C} (r : result A) (f : A -> result B) (g : B -> result C) :
  bind (bind r f) g = bind r (fun x => bind (f x) g).
Proof. destruct r; reflexivity. Qed.

Theorem ext_to_mpb_agree es nbits einf nk eo :
  Ctx.ext_to_mpb es nbits einf nk eo =
  bind (Formats.ext_to_mpb (EF es nbits einf (nk_conv nk) eo))
       (fun m => Ok (b_pmax m, b_emin m, b_pos m)).
Proof.
  unfold Ctx.ext_to_mpb, Formats.ext_to_mpb. cbn [e_es e_nbits e_inf e_kind e_eoffset].
  rewrite bind_assoc. cbv zeta.
  match goal with |- bind ?L _ = bind ?R _ => assert (HLR : L = R) end.
  { destruct nk; cbn [nk_conv]; try reflexivity;
      destruct (nbits - es =? 1); try (destruct einf; reflexivity);
      try (destruct ((nbits - es =? 2) && einf); try reflexivity);
      destruct einf; reflexivity. }
  rewrite HLR.
  match goal with |- bind ?R _ = _ => destruct R as [mv|e]; cbn [bind]; [|reflexivity] end.
  unfold is_zero. destruct (rc mv =? 0); reflexivity.
Qed.

Theorem efloat_valid_agree es nbits einf nk :
  Ctx.efloat_valid es nbits einf nk = Formats.format_is_valid es nbits einf (nk_conv nk).
Proof.
  unfold Ctx.efloat_valid, Formats.format_is_valid.
  destruct (nbits <? 1); [reflexivity|].
  destruct ((es <? 0) || (es >=? nbits)); [reflexivity|].
  destruct nk; cbn [nk_conv];
    repeat match goal with |- context [if ?b then _ else _] => destruct b eqn:? end;
    cbn [negb andb orb] in *; try reflexivity; try congruence;
    repeat match goal with H : _ && _ = _ |- _ => revert H end;
    repeat match goal with H : _ || _ = _ |- _ => revert H end;
    repeat match goal with |- context [?a =? ?b] => destruct (a =? b) end;
    destruct einf; cbn; congruence.
Qed.
