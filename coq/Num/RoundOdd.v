(* N2 of DESIGN.md: rounding a round-to-odd intermediate that keeps at least
   two more digits equals rounding the exact value, for EVERY one of the eight
   modes (Flocq's round_N_odd covers the two nearest modes only). *)
From Coq Require Import ZArith Bool Lia Reals Psatz.
From Flocq Require Import Core.Zaux Core.Raux Core.Defs Core.Digits Core.Float_prop
  Core.Generic_fmt Core.Round_pred Core.Round_NE Core.FLX Core.FLT Core.FIX.
From Flocq Require Import Round_odd.
From FpyV Require Import Num.RealFloat Num.RoundSpec.
Open Scope R_scope.

Section N2.

Variable fexp fexpe : Z -> Z.
Context { valid_exp : Valid_exp fexp }.
Context { exists_NE_ : Exists_NE radix2 fexp }.
Context { valid_expe : Valid_exp fexpe }.
Context { exists_NE_e : Exists_NE radix2 fexpe }.
Hypothesis fexpe_fexp : forall e, (fexpe e <= fexp e - 2)%Z.

Notation Fc := (generic_format radix2 fexp).
Notation Fe := (generic_format radix2 fexpe).
Notation rc_ rnd := (round radix2 fexp rnd).
Notation odd_e := (round radix2 fexpe Zrnd_odd).

Lemma Fc_in_Fe x : Fc x -> Fe x.
Proof.
  intros Hx. apply generic_inclusion_mag with fexp; trivial. intros _.
  generalize (fexpe_fexp (mag radix2 x)). lia.
Qed.

(* a coarse-format number has an even canonical significand in the fine format *)
Lemma Fc_even x : Fc x -> exists f : float radix2, F2R f = x /\ canonical radix2 fexpe f /\ Z.even (Fnum f) = true.
Proof.
  intros Hx.
  apply (exists_even_fexp_lt radix2 (eq_refl true) fexpe x).
  exists (Float radix2 (Ztrunc (scaled_mantissa radix2 fexp x)) (cexp radix2 fexp x)).
  split.
  - symmetry. exact Hx.
  - simpl. unfold cexp. generalize (fexpe_fexp (mag radix2 x)). lia.
Qed.

(* the round-to-odd image of a number outside the fine format is outside the coarse format *)
Lemma odd_not_Fc x : ~ Fe x -> ~ Fc (odd_e x).
Proof.
  intros Hx Hy.
  destruct (round_odd_pt radix2 fexpe x) as [_ [Heq|[_ [g [Hg [Cg Og]]]]]].
  - apply Hx. rewrite <- Heq. apply generic_format_round; typeclasses eauto.
  - destruct (Fc_even _ Hy) as [f [Hf [Cf Ef]]].
    assert (f = g) by (apply (canonical_unique radix2 fexpe); [assumption|assumption|congruence]).
    subst f. congruence.
Qed.

Lemma odd_e_generic x : Fe x -> odd_e x = x.
Proof. intros. apply round_generic; [typeclasses eauto|assumption]. Qed.

(* no coarse point lies strictly between DN(x) and UP(x) *)
Lemma DN_same x : rc_ Zfloor (odd_e x) = rc_ Zfloor x.
Proof.
  destruct (generic_format_EM radix2 fexpe x) as [Hx|Hx].
  { rewrite odd_e_generic by assumption. reflexivity. }
  set (y := odd_e x). set (d := rc_ Zfloor x). set (u := rc_ Zceil x).
  assert (Fd : Fc d) by (apply generic_format_round; typeclasses eauto).
  assert (Fu : Fc u) by (apply generic_format_round; typeclasses eauto).
  destruct (round_DN_pt radix2 fexp x) as (_ & Hdx & Hdmax). fold d in Hdx, Hdmax.
  destruct (round_UP_pt radix2 fexp x) as (_ & Hux & Humin). fold u in Hux, Humin.
  assert (Hdy : d <= y).
  { unfold y. rewrite <- (odd_e_generic d) by (apply Fc_in_Fe; assumption).
    apply round_le; [typeclasses eauto|typeclasses eauto|assumption]. }
  assert (Hyu : y < u).
  { assert (y <= u).
    { unfold y. rewrite <- (odd_e_generic u) by (apply Fc_in_Fe; assumption).
      apply round_le; [typeclasses eauto|typeclasses eauto|assumption]. }
    destruct (Req_dec y u) as [E|E]; [|lra].
    exfalso. apply (odd_not_Fc x Hx). fold y. rewrite E. exact Fu. }
  (* DN(y) is a coarse point in [d, u[ *)
  set (dy := rc_ Zfloor y).
  assert (Fdy : Fc dy) by (apply generic_format_round; typeclasses eauto).
  destruct (round_DN_pt radix2 fexp y) as (_ & Hdyy & Hdymax). fold dy in Hdyy, Hdymax.
  assert (H1 : d <= dy) by (apply Hdymax; assumption).
  destruct (Rle_or_lt dy x) as [Hle|Hgt].
  - apply Rle_antisym; [apply Hdmax; assumption|exact H1].
  - exfalso. assert (u <= dy) by (apply Humin; [assumption|lra]). lra.
Qed.

Lemma UP_same x : rc_ Zceil (odd_e x) = rc_ Zceil x.
Proof.
  destruct (generic_format_EM radix2 fexpe x) as [Hx|Hx].
  { rewrite odd_e_generic by assumption. reflexivity. }
  set (y := odd_e x). set (d := rc_ Zfloor x). set (u := rc_ Zceil x).
  assert (Fd : Fc d) by (apply generic_format_round; typeclasses eauto).
  assert (Fu : Fc u) by (apply generic_format_round; typeclasses eauto).
  destruct (round_DN_pt radix2 fexp x) as (_ & Hdx & Hdmax). fold d in Hdx, Hdmax.
  destruct (round_UP_pt radix2 fexp x) as (_ & Hux & Humin). fold u in Hux, Humin.
  assert (Hyu : y <= u).
  { unfold y. rewrite <- (odd_e_generic u) by (apply Fc_in_Fe; assumption).
    apply round_le; [typeclasses eauto|typeclasses eauto|assumption]. }
  assert (Hdy : d < y).
  { assert (d <= y).
    { unfold y. rewrite <- (odd_e_generic d) by (apply Fc_in_Fe; assumption).
      apply round_le; [typeclasses eauto|typeclasses eauto|assumption]. }
    destruct (Req_dec d y) as [E|E]; [|lra].
    exfalso. apply (odd_not_Fc x Hx). fold y. rewrite <- E. exact Fd. }
  set (uy := rc_ Zceil y).
  assert (Fuy : Fc uy) by (apply generic_format_round; typeclasses eauto).
  destruct (round_UP_pt radix2 fexp y) as (_ & Huyy & Huymin). fold uy in Huyy, Huymin.
  assert (H1 : uy <= u) by (apply Huymin; assumption).
  destruct (Rle_or_lt x uy) as [Hle|Hgt].
  - apply Rle_antisym; [exact H1|apply Humin; assumption].
  - exfalso. assert (uy <= d) by (apply Hdmax; [assumption|lra]). lra.
Qed.

Lemma odd_e_sign_pos x : 0 <= x -> 0 <= odd_e x.
Proof. intros. apply round_ge_generic; [typeclasses eauto|typeclasses eauto|apply generic_format_0|assumption]. Qed.

Lemma odd_e_sign_neg x : x <= 0 -> odd_e x <= 0.
Proof. intros. apply round_le_generic; [typeclasses eauto|typeclasses eauto|apply generic_format_0|assumption]. Qed.

Lemma ZR_same x : rc_ Ztrunc (odd_e x) = rc_ Ztrunc x.
Proof.
  destruct (Rle_or_lt 0 x) as [Hx|Hx].
  - rewrite !round_ZR_DN by (try apply odd_e_sign_pos; assumption). apply DN_same.
  - rewrite !round_ZR_UP by (try apply odd_e_sign_neg; lra). apply UP_same.
Qed.

Lemma AW_same x : rc_ Zaway (odd_e x) = rc_ Zaway x.
Proof.
  destruct (Rle_or_lt 0 x) as [Hx|Hx].
  - rewrite !round_AW_UP by (try apply odd_e_sign_pos; assumption). apply UP_same.
  - rewrite !round_AW_DN by (try apply odd_e_sign_neg; lra). apply DN_same.
Qed.

Lemma odd_same x : rc_ Zrnd_odd (odd_e x) = rc_ Zrnd_odd x.
Proof.
  destruct (generic_format_EM radix2 fexpe x) as [Hx|Hx].
  { rewrite odd_e_generic by assumption. reflexivity. }
  set (y := odd_e x). set (r := rc_ Zrnd_odd y).
  apply (Rnd_odd_pt_unique radix2 fexp x); [|apply round_odd_pt].
  destruct (round_odd_pt radix2 fexp y) as [Fr [Heq|[Hdu Hodd]]]; fold r in Fr |- *.
  - exfalso. apply (odd_not_Fc x Hx). fold y. fold r in Heq. rewrite <- Heq. exact Fr.
  - fold r in Hdu, Hodd. split; [exact Fr|]. right. split; [|exact Hodd].
    destruct Hdu as [Hd|Hu].
    + left. assert (r = rc_ Zfloor y).
      { apply (Rnd_DN_pt_unique Fc y); [exact Hd|apply round_DN_pt; typeclasses eauto]. }
      rewrite H. unfold y. rewrite DN_same. apply round_DN_pt. typeclasses eauto.
    + right. assert (r = rc_ Zceil y).
      { apply (Rnd_UP_pt_unique Fc y); [exact Hu|apply round_UP_pt; typeclasses eauto]. }
      rewrite H. unfold y. rewrite UP_same. apply round_UP_pt. typeclasses eauto.
  - exact valid_exp.
  - exact exists_NE_.
Qed.

(* round-to-even is DN + UP - round-to-odd *)
Lemma Zeven_from_odd z : Zrnd_even z = (Zfloor z + Zceil z - Zrnd_odd z)%Z.
Proof.
  unfold Zrnd_even, Zrnd_odd. destruct (Req_EM_T z (IZR (Zfloor z))) as [E|E].
  - assert (Hc : Zceil z = Zfloor z) by (rewrite E at 1; apply Zceil_IZR). lia.
  - destruct (Z.even (Zfloor z)); lia.
Qed.

Lemma round_even_decomp z : rc_ Zrnd_even z = rc_ Zfloor z + rc_ Zceil z - rc_ Zrnd_odd z.
Proof.
  unfold round, F2R; simpl. rewrite Zeven_from_odd, minus_IZR, plus_IZR. ring.
Qed.

Lemma even_same x : rc_ Zrnd_even (odd_e x) = rc_ Zrnd_even x.
Proof. rewrite !round_even_decomp, DN_same, UP_same, odd_same. reflexivity. Qed.

(* N2 *)
Theorem round_odd_then_round rm x :
  round radix2 fexp (rnd_of rm) (round radix2 fexpe Zrnd_odd x) = round radix2 fexp (rnd_of rm) x.
Proof.
  destruct rm; simpl.
  - apply round_N_odd; auto with typeclass_instances.
  - apply round_N_odd; auto with typeclass_instances.
  - apply UP_same.
  - apply DN_same.
  - apply ZR_same.
  - apply AW_same.
  - apply odd_same.
  - apply even_same.
Qed.

(* and the inexact bit is the same: the intermediate is in the coarse format iff x is *)
Theorem round_odd_exact_iff x : Fc (odd_e x) <-> Fc x.
Proof.
  split.
  - intros Hy. destruct (generic_format_EM radix2 fexpe x) as [Hx|Hx].
    + rewrite odd_e_generic in Hy by assumption. exact Hy.
    + exfalso. apply (odd_not_Fc x Hx Hy).
  - intros Hx. rewrite odd_e_generic by (apply Fc_in_Fe; assumption). exact Hx.
Qed.

(* the directed modes need no parity structure on the coarse format (p = 1 included) *)
Definition is_directed (rm : rmode) : bool :=
  match rm with RTP | RTN | RTZ | RAZ => true | _ => false end.

Theorem round_odd_then_round_directed rm x : is_directed rm = true ->
  round radix2 fexp (rnd_of rm) (round radix2 fexpe Zrnd_odd x) = round radix2 fexp (rnd_of rm) x.
Proof.
  destruct rm; simpl; try discriminate; intros _.
  - apply UP_same.
  - apply DN_same.
  - apply ZR_same.
  - apply AW_same.
Qed.

End N2.

(* ---------------------------------------------------------------- the three shapes: c >= 2 extra digits *)
Theorem N2_FLT emin p c rm x : (0 < p)%Z -> (2 <= c)%Z -> ((1 < p)%Z \/ is_directed rm = true) ->
  round radix2 (FLT_exp emin p) (rnd_of rm) (round radix2 (FLT_exp (emin - c) (p + c)) Zrnd_odd x) =
  round radix2 (FLT_exp emin p) (rnd_of rm) x.
Proof.
  intros Hp Hc Hd.
  assert (Hp' : Prec_gt_0 p) by exact Hp.
  assert (Hpc : Prec_gt_0 (p + c)) by (unfold Prec_gt_0; lia).
  assert (NEe : Exists_NE radix2 (FLT_exp (emin - c) (p + c))) by (apply exists_NE_FLT; right; lia).
  assert (Hle : forall e, (FLT_exp (emin - c) (p + c) e <= FLT_exp emin p e - 2)%Z) by (intros e; unfold FLT_exp; lia).
  destruct Hd as [Hd|Hd].
  - assert (NE : Exists_NE radix2 (FLT_exp emin p)) by (apply exists_NE_FLT; right; lia).
    exact (round_odd_then_round _ _ Hle rm x).
  - exact (round_odd_then_round_directed _ _ Hle rm x Hd).
Qed.

Theorem N2_FLX p c rm x : (0 < p)%Z -> (2 <= c)%Z -> ((1 < p)%Z \/ is_directed rm = true) ->
  round radix2 (FLX_exp p) (rnd_of rm) (round radix2 (FLX_exp (p + c)) Zrnd_odd x) =
  round radix2 (FLX_exp p) (rnd_of rm) x.
Proof.
  intros Hp Hc Hd.
  assert (Hp' : Prec_gt_0 p) by exact Hp.
  assert (Hpc : Prec_gt_0 (p + c)) by (unfold Prec_gt_0; lia).
  assert (NEe : Exists_NE radix2 (FLX_exp (p + c))) by (apply exists_NE_FLX; right; lia).
  assert (Hle : forall e, (FLX_exp (p + c) e <= FLX_exp p e - 2)%Z) by (intros e; unfold FLX_exp; lia).
  destruct Hd as [Hd|Hd].
  - assert (NE : Exists_NE radix2 (FLX_exp p)) by (apply exists_NE_FLX; right; lia).
    exact (round_odd_then_round _ _ Hle rm x).
  - exact (round_odd_then_round_directed _ _ Hle rm x Hd).
Qed.

Theorem N2_FIX emin c rm x : (2 <= c)%Z ->
  round radix2 (FIX_exp emin) (rnd_of rm) (round radix2 (FIX_exp (emin - c)) Zrnd_odd x) =
  round radix2 (FIX_exp emin) (rnd_of rm) x.
Proof.
  intros Hc.
  assert (Hle : forall e, (FIX_exp (emin - c) e <= FIX_exp emin e - 2)%Z) by (intros e; unfold FIX_exp; lia).
  exact (round_odd_then_round _ _ Hle rm x).
Qed.
