(* Decoders from flat integer lists to model values: the wire format between
   the Python harness and the extracted OCaml oracle (and vm_compute replays).
   Definitions only. *)
From Coq Require Import ZArith List Bool.
From FpyV Require Import Num.RealFloat Num.Float Num.CtxDef.
Import ListNotations.
Open Scope Z_scope.

Definition dec (A : Type) := list Z -> option (A * list Z).

Definition d_ret {A} (a : A) : dec A := fun l => Some (a, l).
Definition d_bind {A B} (d : dec A) (f : A -> dec B) : dec B :=
  fun l => match d l with Some (a, l') => f a l' | None => None end.
Notation "x <- d ;; e" := (d_bind d (fun x => e)) (at level 61, d at next level, right associativity).

Definition d_z : dec Z := fun l => match l with z :: l' => Some (z, l') | [] => None end.
Definition d_bool : dec bool := b <- d_z ;; d_ret (negb (b =? 0)).
Definition d_opt {A} (d : dec A) : dec (option A) :=
  t <- d_z ;; if t =? 0 then d_ret None else (a <- d ;; d_ret (Some a)).

Definition d_rf : dec rf := s <- d_bool ;; e <- d_z ;; c <- d_z ;; d_ret (RF s e c).

(* fl: 0 s exp c | 1 s | 2 s *)
Definition d_fl : dec fl :=
  t <- d_z ;;
  if t =? 0 then (x <- d_rf ;; d_ret (FFin x))
  else if t =? 1 then (s <- d_bool ;; d_ret (FInf s))
  else (s <- d_bool ;; d_ret (FNaN s)).

Definition d_rm : dec rmode :=
  t <- d_z ;;
  d_ret (if t =? 0 then RNE else if t =? 1 then RNA else if t =? 2 then RTP else if t =? 3 then RTN
         else if t =? 4 then RTZ else if t =? 5 then RAZ else if t =? 6 then RTO else RTE).

Definition d_ov : dec ovmode :=
  t <- d_z ;;
  d_ret (if t =? 0 then OV_OVERFLOW else if t =? 1 then OV_SATURATE else if t =? 2 then OV_WRAP else OV_ASSERT).

Definition d_nk : dec nankind :=
  t <- d_z ;;
  d_ret (if t =? 0 then NK_IEEE else if t =? 1 then NK_MAXVAL else if t =? 2 then NK_NEGZERO else NK_NONE).

Definition d_sp : dec special :=
  en <- d_bool ;; ei <- d_bool ;; nv <- d_opt d_fl ;; iv <- d_opt d_fl ;; d_ret (SP en ei nv iv).

Definition d_flags : dec flags :=
  a <- d_bool ;; b <- d_bool ;; c <- d_bool ;; d <- d_bool ;; e <- d_bool ;; f <- d_bool ;; g <- d_bool ;;
  d_ret (FL a b c d e f g).

Definition d_err : dec err :=
  t <- d_z ;;
  d_ret (if t =? 0 then ValueErr else if t =? 1 then OverflowErr else if t =? 2 then TypeErr
         else if t =? 3 then IndexErr else if t =? 4 then AssertErr else if t =? 5 then NameErr else OtherErr).

(* ctx: tag then fields in constructor order *)
Definition d_ctx : dec ctx :=
  t <- d_z ;;
  if t =? 0 then d_ret CReal
  else if t =? 1 then (p <- d_z ;; rm <- d_rm ;; k <- d_opt d_z ;; sp <- d_sp ;; d_ret (CMPFloat p rm k sp))
  else if t =? 2 then (p <- d_z ;; em <- d_z ;; rm <- d_rm ;; k <- d_opt d_z ;; sp <- d_sp ;; d_ret (CMPSFloat p em rm k sp))
  else if t =? 3 then (p <- d_z ;; em <- d_z ;; pm <- d_rf ;; nm <- d_rf ;; rm <- d_rm ;; ov <- d_ov ;;
                       k <- d_opt d_z ;; sp <- d_sp ;; d_ret (CMPBFloat p em pm nm rm ov k sp))
  else if t =? 4 then (es <- d_z ;; nb <- d_z ;; ei <- d_bool ;; nk <- d_nk ;; eo <- d_z ;; rm <- d_rm ;; ov <- d_ov ;;
                       k <- d_opt d_z ;; nv <- d_opt d_fl ;; iv <- d_opt d_fl ;; d_ret (CEFloat es nb ei nk eo rm ov k nv iv))
  else if t =? 5 then (nm <- d_z ;; rm <- d_rm ;; k <- d_opt d_z ;; sp <- d_sp ;; nz <- d_bool ;; d_ret (CMPFixed nm rm k sp nz))
  else if t =? 6 then (nm <- d_z ;; pm <- d_rf ;; ng <- d_rf ;; rm <- d_rm ;; ov <- d_ov ;; k <- d_opt d_z ;;
                       sp <- d_sp ;; nz <- d_bool ;; d_ret (CMPBFixed nm pm ng rm ov k sp nz))
  else if t =? 7 then (sg <- d_bool ;; sc <- d_z ;; nb <- d_z ;; rm <- d_rm ;; ov <- d_ov ;; k <- d_opt d_z ;;
                       nv <- d_opt d_fl ;; iv <- d_opt d_fl ;; d_ret (CFixed sg sc nb rm ov k nv iv))
  else if t =? 8 then (sc <- d_z ;; nb <- d_z ;; rm <- d_rm ;; ov <- d_ov ;; k <- d_opt d_z ;;
                       nv <- d_opt d_fl ;; iv <- d_opt d_fl ;; d_ret (CSMFixed sc nb rm ov k nv iv))
  else (nb <- d_z ;; eo <- d_z ;; rm <- d_rm ;; ov <- d_ov ;; iv <- d_opt d_fl ;; d_ret (CExp nb eo rm ov iv)).

(* an observed outcome of a rounding: 0 fl flags | 1 err *)
Definition d_rfl_result : dec (result (fl * flags)) :=
  t <- d_z ;;
  if t =? 0 then (x <- d_fl ;; f <- d_flags ;; d_ret (Ok (x, f)))
  else (e <- d_err ;; d_ret (Err e)).

Definition d_rff_result : dec (result (rf * flags)) :=
  t <- d_z ;;
  if t =? 0 then (x <- d_rf ;; f <- d_flags ;; d_ret (Ok (x, f)))
  else (e <- d_err ;; d_ret (Err e)).

(* ---------------------------------------------------------------- canonical forms for comparison *)
Fixpoint pos_tz (p : positive) : Z * positive :=
  match p with xO q => let '(k, r) := pos_tz q in (k + 1, r) | _ => (0, p) end.

(* odd significand (or +/-0 with exponent 0) *)
Definition rf_canon (x : rf) : rf :=
  match rc x with
  | Zpos p => let '(k, r) := pos_tz p in RF (rs x) (rexp x + k) (Zpos r)
  | _ => RF (rs x) 0 0
  end.

Definition fl_canon (x : fl) : fl :=
  match x with FFin r => FFin (rf_canon r) | FInf s => FInf s | FNaN _ => FNaN false end.
