(* Property C16, parametric (any precision, any emin): the ordinal map of the
   floating-point formats with subnormals (MPSFloatFormat, and through it
   MPBFloatFormat / EFloatFormat / IEEEFormat) is the value read on a
   piecewise-linear scale, hence strictly increasing; from_ordinal is its
   inverse. *)
From Coq Require Import ZArith List Bool Lia Reals Lra.
From Flocq Require Import Core.Zaux Core.Raux Core.Defs Core.Float_prop.
From FpyV Require Import Num.RealFloat Num.RealFloatProofs Num.Float Num.Formats Num.Layout
  Num.FormatsProofs Num.FormatsFixedProofs.
Open Scope Z_scope.

(* the value, in units of 2^expmin, of the non-negative ordinal o
   (d = 2^(p-1) mantissa codes per binade) *)
Definition ordval (d o : Z) : Z :=
  let q := o / d in let r := o mod d in
  if q =? 0 then r else (d + r) * 2 ^ (q - 1).
Definition sordval (d o : Z) : Z := if o <? 0 then - ordval d (- o) else ordval d o.

Lemma ordval_step d o : 0 < d -> 0 <= o -> ordval d o < ordval d (o + 1).
Proof.
  intros Hd Ho. unfold ordval.
  pose proof (Z.div_mod o d ltac:(lia)) as DM. pose proof (Z.mod_pos_bound o d Hd) as MB.
  assert (Q0 : 0 <= o / d) by (apply Z.div_pos; lia).
  set (q := o / d) in *. set (r := o mod d) in *.
  destruct (Z.eq_dec r (d - 1)) as [E|NE].
  - (* carry into the next binade *)
    assert (Dq : (o + 1) / d = q + 1).
    { symmetry. apply (Z.div_unique (o + 1) d (q + 1) 0); lia. }
    assert (Dr : (o + 1) mod d = 0).
    { symmetry. apply (Z.mod_unique (o + 1) d (q + 1) 0); lia. }
    rewrite Dq, Dr. destruct (Z.eqb_spec (q + 1) 0); [lia|].
    replace (q + 1 - 1) with q by lia.
    destruct (Z.eqb_spec q 0) as [->|Qn]; [simpl; lia|].
    assert (P : 0 < 2 ^ (q - 1)) by (apply Z.pow_pos_nonneg; lia).
    replace (2 ^ q) with (2 * 2 ^ (q - 1)) by (rewrite <- Z.pow_succ_r by lia; f_equal; lia).
    nia.
  - assert (Dq : (o + 1) / d = q).
    { symmetry. apply (Z.div_unique (o + 1) d q (r + 1)); lia. }
    assert (Dr : (o + 1) mod d = r + 1).
    { symmetry. apply (Z.mod_unique (o + 1) d q (r + 1)); lia. }
    rewrite Dq, Dr. destruct (Z.eqb_spec q 0); [lia|].
    assert (P : 0 < 2 ^ (q - 1)) by (apply Z.pow_pos_nonneg; lia). nia.
Qed.

Lemma ordval_mono d a b : 0 < d -> 0 <= a -> a < b -> ordval d a < ordval d b.
Proof.
  intros Hd Ha Hab. remember (Z.to_nat (b - a - 1)) as k eqn:K. revert b Hab K.
  induction k as [|k IH]; intros b Hab K.
  - replace b with (a + 1) by lia. apply ordval_step; lia.
  - apply Z.lt_trans with (ordval d (b - 1)); [apply IH; lia|].
    replace b with (b - 1 + 1) at 2 by lia. apply ordval_step; lia.
Qed.

Lemma ordval_0 d : 0 < d -> ordval d 0 = 0.
Proof. intros. unfold ordval. rewrite Z.div_0_l, Z.mod_0_l by lia. reflexivity. Qed.

Lemma ordval_pos d o : 0 < d -> 0 < o -> 0 < ordval d o.
Proof. intros Hd Ho. rewrite <- (ordval_0 d Hd). apply ordval_mono; lia. Qed.

Lemma sordval_compare d a b : 0 < d -> (sordval d a ?= sordval d b) = (a ?= b).
Proof.
  intros Hd.
  assert (M : forall x y, x < y -> sordval d x < sordval d y).
  { intros x y L. unfold sordval. destruct (Z.ltb_spec x 0), (Z.ltb_spec y 0).
    - pose proof (ordval_mono d (- y) (- x) Hd ltac:(lia) ltac:(lia)). lia.
    - destruct (Z.eq_dec y 0) as [->|]; [rewrite ordval_0 by lia; pose proof (ordval_pos d (- x) Hd ltac:(lia)); lia|].
      pose proof (ordval_pos d (- x) Hd ltac:(lia)). pose proof (ordval_pos d y Hd ltac:(lia)). lia.
    - lia.
    - apply ordval_mono; lia. }
  destruct (Z.compare_spec a b) as [->|L|G].
  - apply Z.compare_refl.
  - apply Z.compare_lt_iff. apply M. exact L.
  - apply Z.compare_gt_iff. apply M. exact G.
Qed.

Lemma R2R_scaled s e c : R2R (RF s e c) = (IZR (if s then - c else c) * bpow radix2 e)%R.
Proof. reflexivity. Qed.

Lemma R2R_scaled_x x : R2R x = (IZR (if rs x then - rc x else rc x) * bpow radix2 (rexp x))%R.
Proof. reflexivity. Qed.

Lemma scaled_shift m k e : 0 <= k ->
  (IZR m * bpow radix2 (e + k) = IZR (m * 2 ^ k) * bpow radix2 e)%R.
Proof.
  intros Hk. rewrite bpow_plus, mult_IZR. change 2 with (radix_val radix2) at 1.
  rewrite (IZR_Zpower radix2 k Hk). ring.
Qed.

Section FloatOrdinal.
Variable f : mpsfmt.
Hypothesis Hp : 1 <= s_pmax f.
Let p := s_pmax f.
Let d := 2 ^ (p - 1).
Let em := s_expmin f.

Lemma d_pos : 0 < d.
Proof. unfold d. apply Z.pow_pos_nonneg; unfold p; lia. Qed.

Lemma two_d : 2 ^ p = 2 * d.
Proof. unfold d. replace p with (1 + (p - 1)) at 1 by lia. rewrite Z.pow_add_r by (unfold p; lia). reflexivity. Qed.

(* from_ordinal: the value of ordinal o *)
Theorem mps_from_ord_value o :
  let y := mps_from_ord_rf f o in
  rf_wf y /\ R2R y = (IZR (sordval d o) * bpow radix2 em)%R /\ (rc y = 0 -> o = 0).
Proof.
  pose proof d_pos as Dp. unfold mps_from_ord_rf.
  destruct (Z.eqb_spec o 0) as [->|NZ].
  { cbv zeta. repeat split; try (unfold rf_wf; simpl; lia).
    rewrite R2R_zero by reflexivity. unfold sordval. simpl. rewrite ordval_0 by exact Dp. simpl. ring. }
  cbv zeta. fold p. rewrite shiftl1_pow by (unfold p; lia). fold d. fold em.
  set (u := Z.abs o). assert (Hu : 0 < u) by (unfold u; lia).
  pose proof (Z.div_mod u d ltac:(lia)) as DM. pose proof (Z.mod_pos_bound u d Dp) as MB.
  assert (Q0 : 0 <= u / d) by (apply Z.div_pos; lia).
  assert (SV : sordval d o = if o <? 0 then - ordval d u else ordval d u).
  { unfold sordval, u. destruct (Z.ltb_spec o 0); [rewrite Z.abs_neq by lia|rewrite Z.abs_eq by lia]; reflexivity. }
  unfold ordval in SV.
  destruct (Z.eqb_spec (u / d) 0) as [Q|Q].
  - (* subnormal range *)
    unfold rf_wf. cbn [rc]. repeat split; [lia| |].
    + rewrite R2R_scaled, SV. destruct (o <? 0); reflexivity.
    + intros Z0. rewrite Q in DM. lia.
  - assert (LO : Z.lor d (u mod d) = d + u mod d).
    { unfold d at 1. rewrite <- (shiftl1_pow (p - 1)) by (unfold p; lia).
      rewrite (lor_disjoint 1 (p - 1) (u mod d)) by (fold d; unfold p; lia). fold d. lia. }
    rewrite LO.
    unfold rf_wf. cbn [rc]. repeat split; [lia| |lia].
    rewrite R2R_scaled, SV.
    replace (em + (u / d - 1)) with (em + (u / d - 1)) by lia.
    rewrite scaled_shift by lia. f_equal. f_equal. destruct (o <? 0); ring.
Qed.

Lemma ordval_small c : 0 <= c < 2 * d -> ordval d c = c.
Proof.
  intros Hc. pose proof d_pos as Dp. unfold ordval.
  destruct (Z.lt_ge_cases c d) as [L|G].
  - rewrite Z.div_small, Z.mod_small by lia. reflexivity.
  - assert (Q : c / d = 1) by (symmetry; apply (Z.div_unique c d 1 (c - d)); lia).
    assert (R : c mod d = c - d) by (symmetry; apply (Z.mod_unique c d 1 (c - d)); lia).
    rewrite Q, R. simpl. lia.
Qed.

Lemma ordval_normal k c : 1 <= k -> d <= c < 2 * d -> ordval d (k * d + c mod d) = c * 2 ^ (k - 1).
Proof.
  intros Hk Hc. pose proof d_pos as Dp. unfold ordval.
  assert (R : c mod d = c - d) by (symmetry; apply (Z.mod_unique c d 1 (c - d)); lia).
  rewrite R.
  assert (Q : (k * d + (c - d)) / d = k) by (symmetry; apply (Z.div_unique (k * d + (c - d)) d k (c - d)); lia).
  assert (M : (k * d + (c - d)) mod d = c - d) by (symmetry; apply (Z.mod_unique (k * d + (c - d)) d k (c - d)); lia).
  rewrite Q, M. destruct (Z.eqb_spec k 0); [lia|]. f_equal. lia.
Qed.

Lemma sordval_signed (s : bool) u : 0 < u ->
  sordval d ((if s then -1 else 1) * u) = if s then - ordval d u else ordval d u.
Proof.
  intros Hu. unfold sordval. destruct s.
  - destruct (Z.ltb_spec (-1 * u) 0); [|lia]. f_equal. f_equal. lia.
  - destruct (Z.ltb_spec (1 * u) 0); [lia|]. f_equal. lia.
Qed.

(* to_ordinal: the value of a representable number, any encoding *)
Theorem mps_ord_value x : rf_wf x -> mps_repr_rf f x = true ->
  R2R x = (IZR (sordval d (mps_to_ord_rf f x)) * bpow radix2 em)%R.
Proof.
  intros W R. pose proof d_pos as Dp. pose proof two_d as TD.
  unfold mps_to_ord_rf, is_zero. unfold rf_wf in W.
  destruct (Z.eqb_spec (rc x) 0) as [Z0|Z0].
  { rewrite R2R_zero by exact Z0. unfold sordval. simpl. rewrite ordval_0 by exact Dp. simpl. ring. }
  assert (Cp : 0 < rc x) by lia.
  pose proof (bitlen_bounds (rc x) Cp) as BB. pose proof (bitlen_pos (rc x) Cp) as BP.
  unfold mps_repr_rf, is_zero in R. destruct (Z.eqb_spec (rc x) 0); [contradiction|].
  fold p in R |- *. fold em.
  set (pc := bitlen (rc x)) in *. unfold rf_p in R |- *. fold pc in R |- *.
  destruct ((pc >? p) && negb (Z.land (rc x) (bitmask (pc - p)) =? 0)) eqn:A; [discriminate|].
  assert (E : rf_e x = rexp x + pc - 1) by reflexivity. rewrite E.
  assert (EM : s_emin f = em + p - 1) by (unfold em, s_expmin, p; lia).
  destruct (Z.leb_spec (rexp x + pc - 1) (s_emin f)) as [Sub|Nor].
  - (* subnormal range *)
    rewrite Z.shiftl_0_l, Z.add_0_l.
    rewrite shift_by_scaled by exact Z0.
    replace (s_nmin f) with (em - 1) in R by (unfold s_nmin, em; lia).
    destruct (fix_scaled_spec em x W R) as [C0 [V C1]]. specialize (C1 Z0).
    set (c2 := fix_scaled em x) in *.
    assert (Bd : c2 < 2 * d).
    { rewrite <- TD. unfold c2, fix_scaled. destruct (Z.eqb_spec (rc x) 0); [contradiction|].
      destruct (Z.geb_spec (rexp x - em) 0) as [O|O].
      - rewrite shiftl_pow by lia.
        apply Z.lt_le_trans with (2 ^ pc * 2 ^ (rexp x - em)).
        + apply Z.mul_lt_mono_pos_r; [apply Z.pow_pos_nonneg; lia|lia].
        + rewrite <- Z.pow_add_r by lia. apply Z.pow_le_mono_r; lia.
      - rewrite shiftr_pow by lia. set (k := - (rexp x - em)). assert (0 < k) by (unfold k; lia).
        assert (Pk : 0 < 2 ^ k) by (apply Z.pow_pos_nonneg; lia).
        destruct (Z.le_gt_cases k pc) as [L|G].
        + apply Z.div_lt_upper_bound; [exact Pk|].
          apply Z.lt_le_trans with (2 ^ pc); [lia|].
          replace pc with (k + (pc - k)) at 1 by lia. rewrite Z.pow_add_r by lia.
          apply Z.mul_le_mono_nonneg_l; [lia|]. apply Z.pow_le_mono_r; unfold k; lia.
        + rewrite Z.div_small; [apply Z.pow_pos_nonneg; unfold p; lia|].
          split; [lia|]. apply Z.lt_le_trans with (2 ^ pc); [lia|]. apply Z.pow_le_mono_r; lia. }
    rewrite sordval_signed by lia. rewrite ordval_small by lia.
    rewrite V, R2R_scaled. destruct (rs x); reflexivity.
  - (* normal range *)
    set (c2 := shift_by (rc x) (- (pc - p))).
    assert (N : d <= c2 < 2 * d /\ R2R x = R2R (RF (rs x) (rexp x + pc - p) c2)).
    { unfold c2, shift_by. rewrite <- TD. unfold d.
      destruct (Z.gtb_spec (- (pc - p)) 0) as [G|G].
      - (* fewer digits than p: shift left *)
        rewrite shiftl_pow by lia. set (k := - (pc - p)) in *.
        assert (Pk : 0 < 2 ^ k) by (apply Z.pow_pos_nonneg; lia).
        split.
        + replace (p - 1) with (pc - 1 + k) by (unfold k; lia). replace (2 ^ p) with (2 ^ (pc + k)) by (f_equal; unfold k; lia).
          rewrite (Z.pow_add_r 2 (pc - 1) k), (Z.pow_add_r 2 pc k) by lia. nia.
        + rewrite (R2R_scaled_x x), R2R_scaled. replace (rexp x) with (rexp x + pc - p + k) at 1 by (unfold k; lia).
          rewrite scaled_shift by lia. f_equal. f_equal. destruct (rs x); ring.
      - destruct (Z.ltb_spec (- (pc - p)) 0) as [L|L].
        + (* more digits than p: the excess bits are zero *)
          replace (- - (pc - p)) with (pc - p) by lia.
          destruct (Z.gtb_spec pc p); [|lia]. simpl in A. apply negb_false_iff in A.
          rewrite land_bitmask in A by lia. apply Z.eqb_eq in A.
          rewrite shiftr_pow by lia. set (k := pc - p) in *.
          assert (Pk : 0 < 2 ^ k) by (apply Z.pow_pos_nonneg; lia).
          assert (Q : rc x = rc x / 2 ^ k * 2 ^ k) by (pose proof (Z.div_mod (rc x) (2 ^ k)); lia).
          split.
          * replace (pc - 1) with (p - 1 + k) in BB by (unfold k; lia). replace (2 ^ pc) with (2 ^ (p + k)) in BB by (f_equal; unfold k; lia).
            rewrite (Z.pow_add_r 2 (p - 1) k), (Z.pow_add_r 2 p k) in BB by (unfold p, k in *; lia). nia.
          * rewrite (R2R_scaled_x x), R2R_scaled. replace (rexp x + pc - p) with (rexp x + k) by (unfold k; lia).
            rewrite scaled_shift by lia. f_equal. f_equal. destruct (rs x); lia.
        + (* exactly p digits *)
          assert (pc = p) by lia. subst pc. split; [rewrite <- H; lia|].
          replace (rexp x + bitlen (rc x) - p) with (rexp x) by lia. destruct x; reflexivity. }
    destruct N as [Bd V].
    rewrite land_bitmask by (unfold p; lia). fold d.
    rewrite shiftl_pow by (unfold p; lia). fold d.
    set (k := rexp x + pc - 1 - s_emin f + 1). assert (Hk : 1 <= k) by (unfold k; lia).
    rewrite sordval_signed by (pose proof (Z.mod_pos_bound c2 d Dp); nia).
    rewrite ordval_normal by lia.
    rewrite V, R2R_scaled. replace (rexp x + pc - p) with (em + (k - 1)) by (unfold k; lia).
    rewrite scaled_shift by lia. f_equal. f_equal. destruct (rs x); ring.
Qed.

(* the ordinal is strictly increasing with the value (zeros identified) *)
Theorem mps_ord_compare x y : rf_wf x -> rf_wf y ->
  mps_repr_rf f x = true -> mps_repr_rf f y = true ->
  rf_compare x y = (mps_to_ord_rf f x ?= mps_to_ord_rf f y).
Proof.
  intros Wx Wy Rx Ry. rewrite compare_denote by assumption.
  rewrite (mps_ord_value x Wx Rx), (mps_ord_value y Wy Ry), Rcompare_scaled.
  apply sordval_compare. exact d_pos.
Qed.

Lemma bitlen_lt c k : 0 < c -> c < 2 ^ k -> 0 <= k -> bitlen c <= k.
Proof.
  intros Hc Hk K. pose proof (bitlen_bounds c Hc) as [L _]. pose proof (bitlen_pos c Hc).
  destruct (Z.le_gt_cases (bitlen c) k) as [|G]; [assumption|exfalso].
  assert (2 ^ k <= 2 ^ (bitlen c - 1)) by (apply Z.pow_le_mono_r; lia). lia.
Qed.

Theorem mps_from_ord_repr o : mps_repr_rf f (mps_from_ord_rf f o) = true.
Proof.
  pose proof d_pos as Dp. pose proof two_d as TD. unfold mps_from_ord_rf.
  destruct (Z.eqb_spec o 0); [reflexivity|]. cbv zeta. fold p.
  rewrite shiftl1_pow by (unfold p; lia). fold d. fold em.
  set (u := Z.abs o). assert (Hu : 0 < u) by (unfold u; lia).
  pose proof (Z.div_mod u d ltac:(lia)) as DM. pose proof (Z.mod_pos_bound u d Dp) as MB.
  assert (Q0 : 0 <= u / d) by (apply Z.div_pos; lia).
  assert (MS : forall s e c, em <= e -> is_more_significant (RF s e c) (s_nmin f) = true).
  { intros s e c He. unfold is_more_significant, is_zero. cbn [rc rexp]. destruct (c =? 0); [reflexivity|].
    unfold s_nmin. fold em. destruct (Z.gtb_spec e (em - 1)); [reflexivity|lia]. }
  destruct (Z.eqb_spec (u / d) 0) as [Q|Q].
  - unfold mps_repr_rf, is_zero, rf_p. cbn [rc]. destruct (Z.eqb_spec (u mod d) 0); [reflexivity|].
    fold p. assert (bitlen (u mod d) <= p - 1) by (apply bitlen_lt; unfold p in *; fold d; lia).
    destruct (Z.gtb_spec (bitlen (u mod d)) p); [lia|]. simpl. apply MS. lia.
  - assert (LO : Z.lor d (u mod d) = d + u mod d).
    { unfold d at 1. rewrite <- (shiftl1_pow (p - 1)) by (unfold p; lia).
      rewrite (lor_disjoint 1 (p - 1) (u mod d)) by (fold d; unfold p; lia). fold d. lia. }
    rewrite LO. unfold mps_repr_rf, is_zero, rf_p. cbn [rc]. destruct (Z.eqb_spec (d + u mod d) 0); [lia|].
    fold p. assert (bitlen (d + u mod d) <= p) by (apply bitlen_lt; unfold p in *; lia).
    destruct (Z.gtb_spec (bitlen (d + u mod d)) p); [lia|]. simpl. apply MS. lia.
Qed.

(* from_ordinal is a right inverse of to_ordinal: onto all of Z *)
Theorem mps_to_from o : mps_to_ord_rf f (mps_from_ord_rf f o) = o.
Proof.
  destruct (mps_from_ord_value o) as [W [V _]]. cbv zeta in *.
  pose proof (mps_ord_value _ W (mps_from_ord_repr o)) as V2. rewrite V in V2.
  apply Rmult_eq_reg_r in V2; [|apply Rgt_not_eq, bpow_gt_0]. apply eq_IZR in V2.
  pose proof (sordval_compare d o (mps_to_ord_rf f (mps_from_ord_rf f o)) d_pos) as C.
  rewrite V2, Z.compare_refl in C. symmetry in C. apply Z.compare_eq in C. symmetry. exact C.
Qed.

(* ... and a left inverse up to the choice of encoding *)
Theorem mps_from_to x : rf_wf x -> mps_repr_rf f x = true ->
  R2R (mps_from_ord_rf f (mps_to_ord_rf f x)) = R2R x.
Proof.
  intros W R. destruct (mps_from_ord_value (mps_to_ord_rf f x)) as [_ [V _]]. cbv zeta in V.
  rewrite V. symmetry. apply mps_ord_value; assumption.
Qed.

Lemma sordval_sign o : (0 < o -> 0 < sordval d o) /\ (o < 0 -> sordval d o < 0) /\ sordval d 0 = 0.
Proof.
  pose proof d_pos as Dp. unfold sordval. split; [|split].
  - intros H. destruct (Z.ltb_spec o 0); [lia|]. apply ordval_pos; lia.
  - intros H. destruct (Z.ltb_spec o 0); [|lia]. pose proof (ordval_pos d (- o) Dp ltac:(lia)). lia.
  - change (0 <? 0) with false. cbv iota. apply ordval_0. exact Dp.
Qed.

Lemma mps_ord_sign x : rf_wf x -> mps_repr_rf f x = true ->
  (rc x = 0 -> mps_to_ord_rf f x = 0) /\
  (rc x <> 0 -> if rs x then mps_to_ord_rf f x < 0 else 0 < mps_to_ord_rf f x).
Proof.
  intros W R. split.
  - intros Z0. unfold mps_to_ord_rf, is_zero. rewrite Z0. reflexivity.
  - intros NZ. pose proof (mps_ord_value x W R) as V.
    set (o := mps_to_ord_rf f x) in *. destruct (sordval_sign o) as [S1 [S2 S3]].
    pose proof (bpow_gt_0 radix2 em) as B.
    destruct (rs x) eqn:S.
    + pose proof (R2R_sign_neg x W NZ S) as N. rewrite V in N.
      destruct (Z.lt_trichotomy o 0) as [L|[E|G]]; [exact L| |]; exfalso.
      * rewrite E, S3 in N. simpl in N. lra.
      * specialize (S1 G). apply IZR_lt in S1. nra.
    + pose proof (R2R_sign_pos x W NZ S) as N. rewrite V in N.
      destruct (Z.lt_trichotomy o 0) as [L|[E|G]]; [| |exact G]; exfalso.
      * specialize (S2 L). apply IZR_lt in S2. nra.
      * rewrite E, S3 in N. simpl in N. lra.
Qed.

End FloatOrdinal.

(* MPBFloatFormat (hence EFloatFormat, IEEEFormat): the representable finite
   values are exactly those whose ordinal lies in [ord(neg_maxval), ord(pos_maxval)] *)
Theorem mpb_repr_iff_ord_range m x :
  1 <= b_pmax m -> rf_wf (b_pos m) -> rf_wf (b_neg m) -> rf_wf x ->
  mps_repr_rf (b_mps m) (b_pos m) = true -> mps_repr_rf (b_mps m) (b_neg m) = true ->
  rs (b_pos m) = false -> rs (b_neg m) = true ->
  b_neg_ord m <= 0 <= b_pos_ord m /\
  (mpb_repr m (FFin x) = true <->
   mps_repr_rf (b_mps m) x = true /\ b_neg_ord m <= mps_to_ord_rf (b_mps m) x <= b_pos_ord m).
Proof.
  intros Hp Wp Wn W Rp Rn Sp Sn.
  assert (Hp' : 1 <= s_pmax (b_mps m)) by exact Hp.
  destruct (mps_ord_sign (b_mps m) Hp' _ Wp Rp) as [Pz Pnz]. destruct (mps_ord_sign (b_mps m) Hp' _ Wn Rn) as [Nz Nnz].
  fold (b_pos_ord m) in Pz, Pnz. fold (b_neg_ord m) in Nz, Nnz.
  assert (P0 : 0 <= b_pos_ord m).
  { destruct (Z.eq_dec (rc (b_pos m)) 0) as [Z0|Z0]; [rewrite Pz by exact Z0; lia|].
    specialize (Pnz Z0). rewrite Sp in Pnz. lia. }
  assert (N0 : b_neg_ord m <= 0).
  { destruct (Z.eq_dec (rc (b_neg m)) 0) as [Z0|Z0]; [rewrite Nz by exact Z0; lia|].
    specialize (Nnz Z0). rewrite Sn in Nnz. lia. }
  split; [lia|].
  unfold mpb_repr. destruct (mps_repr_rf (b_mps m) x) eqn:R; simpl negb; cbv iota; [|split; [discriminate|intros [? _]; discriminate]].
  destruct (mps_ord_sign (b_mps m) Hp' x W R) as [Oz Onz]. unfold is_zero.
  destruct (Z.eqb_spec (rc x) 0) as [Z0|Z0].
  { rewrite (Oz Z0). split; [intros _; split; [reflexivity|lia]|reflexivity]. }
  specialize (Onz Z0). unfold rf_leb.
  destruct (rs x) eqn:S.
  - rewrite (mps_ord_compare (b_mps m) Hp' (b_neg m) x Wn W Rn R). fold (b_neg_ord m).
    destruct (Z.compare_spec (b_neg_ord m) (mps_to_ord_rf (b_mps m) x)); split; try reflexivity; try discriminate; try (intros _; split; [reflexivity|lia]).
    intros [_ ?]. lia.
  - rewrite (mps_ord_compare (b_mps m) Hp' x (b_pos m) W Wp R Rp). fold (b_pos_ord m).
    destruct (Z.compare_spec (mps_to_ord_rf (b_mps m) x) (b_pos_ord m)); split; try reflexivity; try discriminate; try (intros _; split; [reflexivity|lia]).
    intros [_ ?]. lia.
Qed.

(* every extended / IEEE format, any width: to_ordinal is order preserving and
   from_ordinal inverts it *)
Lemma ef_to_ord_inv fx f x o : ef_to_ord fx f (FFin x) false = Ok o ->
  mps_repr_rf (b_mps (ef_mpb f)) x = true /\ o = mps_to_ord_rf (b_mps (ef_mpb f)) x.
Proof.
  unfold ef_to_ord. destruct (ef_repr fx f (FFin x)); [|discriminate]. cbn [negb].
  unfold mpb_to_ord. destruct (mpb_repr (ef_mpb f) (FFin x)) eqn:R; [|discriminate]. cbn [negb].
  assert (M : mps_repr_rf (b_mps (ef_mpb f)) x = true).
  { unfold mpb_repr in R. destruct (mps_repr_rf (b_mps (ef_mpb f)) x); [reflexivity|discriminate]. }
  unfold mps_to_ord, mps_repr. rewrite M. cbn [negb]. intros [= <-]. auto.
Qed.

Theorem ef_ordinal_order fx f x y ox oy : ef_valid f = true -> rf_wf x -> rf_wf y ->
  ef_to_ord fx f (FFin x) false = Ok ox -> ef_to_ord fx f (FFin y) false = Ok oy ->
  rf_compare x y = (ox ?= oy) /\
  R2R (mps_from_ord_rf (b_mps (ef_mpb f)) ox) = R2R x /\
  ef_from_ord f ox false = (if (ox >? b_pos_ord (ef_mpb f)) || (ox <? b_neg_ord (ef_mpb f)) then ef_from_ord f ox false
                            else Ok (FFin (mps_from_ord_rf (b_mps (ef_mpb f)) ox))).
Proof.
  intros V Wx Wy Ox Oy.
  destruct (ef_to_ord_inv fx f x ox Ox) as [Rx ->]. destruct (ef_to_ord_inv fx f y oy Oy) as [Ry ->].
  assert (Hp : 1 <= s_pmax (b_mps (ef_mpb f))).
  { destruct (ef_mpb_params f V) as [P _]. destruct (ef_valid_range f V) as [_ [H _]]. simpl. rewrite P. lia. }
  split; [apply mps_ord_compare; assumption|]. split; [apply mps_from_to; assumption|].
  unfold ef_from_ord, mpb_from_ord, mps_from_ord.
  destruct (mps_to_ord_rf (b_mps (ef_mpb f)) x >? b_pos_ord (ef_mpb f)) eqn:A; [reflexivity|].
  destruct (mps_to_ord_rf (b_mps (ef_mpb f)) x <? b_neg_ord (ef_mpb f)) eqn:B; reflexivity.
Qed.
