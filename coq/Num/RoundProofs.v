(* N1 of DESIGN.md: RealFloat rounding (model of reals.py `_round_at`/`round`)
   is Flocq's `round radix2 fexp rnd` for every one of the eight modes, for
   the three parameter shapes (FLX, FLT, FIX), all operands, no size bound. *)
From Coq Require Import ZArith Bool Lia Reals Psatz.
From Flocq Require Import Core.Zaux Core.Raux Core.Defs Core.Digits Core.Float_prop
  Core.Generic_fmt Core.FLX Core.FLT Core.FIX Calc.Bracket Calc.Round.
From FpyV Require Import Num.RealFloat Num.RealFloatProofs Num.RoundSpec.
Open Scope Z_scope.

(* ---------------------------------------------------------------- location of the lost digits *)
Definition loc_of (k r : Z) : location :=
  if r =? 0 then loc_Exact else loc_Inexact (2 * r ?= 2 ^ k).

Lemma loc_of_new_location k r : 0 < k ->
  new_location (2 ^ k) r loc_Exact = loc_of k r.
Proof.
  intros Hk. unfold new_location, loc_of.
  assert (He : Z.even (2 ^ k) = true).
  { replace k with (Z.succ (k - 1)) by lia. rewrite Z.pow_succ_r by lia.
    rewrite Z.even_mul. reflexivity. }
  rewrite He. unfold new_location_even.
  destruct (Zeq_bool_spec r 0) as [->|Hr]; [reflexivity|].
  destruct (Z.eqb_spec r 0); [contradiction|].
  destruct (2 * r ?= 2 ^ k); reflexivity.
Qed.

(* the integer core of rounding: (rounded significand, exponent, inexact) *)
Definition round_core (rm : rmode) (s : bool) (c exp n : Z) : Z * Z * bool :=
  let k := n + 1 - exp in
  if 0 <? k then
    let m := c / 2 ^ k in
    let r := c mod 2 ^ k in
    (mode_choice rm s m (loc_of k r), n + 1, negb (r =? 0))
  else (c, exp, false).

Lemma Rlt_bool_F2R_sign s c e : 0 < c ->
  Rlt_bool (F2R (Float radix2 (cond_Zopp s c) e)) 0 = s.
Proof.
  intros Hc. destruct s; simpl.
  - apply Rlt_bool_true. apply F2R_lt_0. simpl. lia.
  - apply Rlt_bool_false. apply F2R_ge_0. simpl. lia.
Qed.

(* Flocq: the integer core is `round` *)
Theorem round_core_flocq (fexp : Z -> Z) {Hv : Valid_exp fexp} rm s c exp n :
  0 < c -> fexp (Zdigits radix2 c + exp) = n + 1 ->
  let '(mr, er, _) := round_core rm s c exp n in
  F2R (Float radix2 (cond_Zopp s mr) er) =
  round radix2 fexp (rnd_of rm) (F2R (Float radix2 (cond_Zopp s c) exp)).
Proof.
  intros Hc Hf.
  set (x := F2R (Float radix2 (cond_Zopp s c) exp)).
  assert (Hs : Rlt_bool x 0 = s) by (apply Rlt_bool_F2R_sign; assumption).
  assert (Hin : inbetween_float radix2 c exp (Rabs x) loc_Exact).
  { constructor. unfold x. rewrite F2R_cond_Zopp, abs_cond_Ropp.
    apply Rabs_pos_eq. apply F2R_ge_0. simpl. lia. }
  pose proof (round_trunc_sign_any_correct radix2 fexp (rnd_of rm) (mode_choice rm)
                (mode_choice_valid rm) x c exp loc_Exact Hin (or_intror eq_refl)) as H.
  unfold round_core. unfold truncate in H. rewrite Hf in H.
  destruct (Z.ltb_spec 0 (n + 1 - exp)) as [Hk|Hk].
  - unfold truncate_aux in H.
    change (Zpower radix2 (n + 1 - exp)) with (2 ^ (n + 1 - exp)) in H.
    rewrite loc_of_new_location in H by assumption.
    rewrite Hs in H. rewrite H. f_equal. f_equal. lia.
  - rewrite Hs in H. rewrite H.
    unfold mode_choice. simpl. reflexivity.
Qed.

(* ---------------------------------------------------------------- the model computes the core *)
Lemma land_1_even m : (Z.land m 1 =? 0) = Z.even m.
Proof.
  change 1 with (Z.ones 1). rewrite Z.land_ones by lia. change (2 ^ 1) with 2.
  rewrite Zmod_even. destruct (Z.even m); reflexivity.
Qed.

Lemma round_incr_dir_spec s e m d :
  round_incr_dir (RF s e m) d =
  match d with DTZ => false | DAZ => true | DTE => negb (Z.even m) | DTO => Z.even m end.
Proof. destruct d; simpl; rewrite ?land_1_even; reflexivity. Qed.

Lemma round_incr_spec rm s m exp k r :
  0 < k -> 0 < r < 2 ^ k ->
  round_incr (RF s (exp + k) m) (RF s exp r) (exp + k - 1) rm =
  incr_b rm s (Z.even m) (loc_of k r).
Proof.
  intros Hk Hr.
  assert (Hnz : (r =? 0) = false) by (apply Z.eqb_neq; lia).
  unfold loc_of. rewrite Hnz.
  unfold round_incr. cbn [rs rexp rc].
  pose proof (bitlen_bounds r (proj1 Hr)) as [B1 B2].
  pose proof (bitlen_pos r (proj1 Hr)) as Bp.
  assert (Bk : bitlen r <= k).
  { destruct (Z_le_gt_dec (bitlen r) k); [assumption|].
    assert (2 ^ k <= 2 ^ (bitlen r - 1)) by (apply Z.pow_le_mono_r; lia). lia. }
  assert (P2 : 2 ^ k = 2 * 2 ^ (k - 1)).
  { replace k with (Z.succ (k - 1)) at 1 by lia. rewrite Z.pow_succ_r by lia. reflexivity. }
  assert (Hnear : forall dflt : bool,
    (let '(half_bit, lower_bits) :=
       if rf_e (RF s exp r) =? exp + k - 1 then
         (negb (Z.shiftr r (rf_p (RF s exp r) - 1) =? 0),
          negb (Z.land r (bitmask (rf_p (RF s exp r) - 1)) =? 0))
       else (false, true) in
     if half_bit then if lower_bits then true else dflt else false) =
    match 2 * r ?= 2 ^ k with Gt => true | Eq => dflt | Lt => false end).
  { intros dflt. unfold rf_e, rf_p. cbn [rexp rc].
    destruct (Z.eqb_spec (exp + bitlen r - 1) (exp + k - 1)) as [E|E].
    - assert (Eb : bitlen r = k) by lia. rewrite Eb.
      rewrite shiftr_pow, land_bitmask by lia.
      assert (Hq : r / 2 ^ (k - 1) = 1).
      { symmetry. apply Z.div_unique with (r - 2 ^ (k - 1)); rewrite Eb in *; lia. }
      rewrite Hq. change (negb (1 =? 0)) with true.
      assert (Hm : r mod 2 ^ (k - 1) = r - 2 ^ (k - 1)).
      { symmetry. apply Z.mod_unique with 1; rewrite Eb in *; lia. }
      rewrite Hm. cbv iota beta.
      destruct (Z.eqb_spec (r - 2 ^ (k - 1)) 0) as [Z0|Z0]; cbn [negb].
      + assert (HE : (2 * r ?= 2 ^ k) = Eq) by (apply Z.compare_eq_iff; lia). rewrite HE. reflexivity.
      + assert (HE : (2 * r ?= 2 ^ k) = Gt) by (apply Z.compare_gt_iff; rewrite Eb in *; lia). rewrite HE. reflexivity.
    - assert (HE : (2 * r ?= 2 ^ k) = Lt).
      { apply Z.compare_lt_iff.
        assert (2 ^ bitlen r <= 2 ^ (k - 1)) by (apply Z.pow_le_mono_r; lia). lia. }
      rewrite HE. reflexivity. }
  destruct rm; cbn [to_direction]; try (destruct s); cbv iota beta;
    rewrite ?Hnear, ?round_incr_dir_spec; cbn [incr_b negb];
    try reflexivity; destruct (2 * r ?= 2 ^ k); reflexivity.
Qed.

Lemma split_general x n : 0 < rc x -> rexp x <= n ->
  split x n = (RF (rs x) (n + 1) (rc x / 2 ^ (n + 1 - rexp x)),
               RF (rs x) (rexp x) (rc x mod 2 ^ (n + 1 - rexp x))).
Proof.
  intros Hc Hn. unfold split, is_zero.
  destruct (Z.eqb_spec (rc x) 0); [lia|].
  pose proof (bitlen_bounds _ Hc) as [B1 B2]. pose proof (bitlen_pos _ Hc).
  destruct (Z.geb_spec n (rf_e x)) as [Hge|Hlt].
  - unfold rf_e, rf_p in Hge.
    assert (2 ^ bitlen (rc x) <= 2 ^ (n + 1 - rexp x)) by (apply Z.pow_le_mono_r; lia).
    rewrite Z.div_small, Z.mod_small by lia. reflexivity.
  - destruct (Z.ltb_spec n (rexp x)); [lia|].
    rewrite shiftr_pow, land_bitmask by lia.
    replace (rexp x + (n + 1 - rexp x)) with (n + 1) by lia. reflexivity.
Qed.

(* precision hypothesis delivered by _round_params: at most p digits are kept *)
Definition p_ok (x : rf) (p : option Z) (n : Z) : Prop :=
  match p with Some p' => 1 <= p' /\ rf_e x - p' <= n | None => True end.

Theorem round_at_core x p n emin rm : 0 < rc x -> p_ok x p n ->
  exists y fl,
    round_at x p n emin rm false = Ok (y, fl) /\
    rs y = rs x /\ 0 <= rc y /\
    let '(mr, er, ix) := round_core rm (rs x) (rc x) (rexp x) n in
    R2R y = F2R (Float radix2 (cond_Zopp (rs x) mr) er) /\ f_inexact fl = ix.
Proof.
  intros Hc Hp. unfold round_at, round_core.
  set (tp := match emin with Some em => tiny_pre x em | None => false end).
  destruct (Z.gtb_spec (rexp x) n) as [Hgt|Hle].
  { (* exp > n: nothing to lose *)
    assert (Hk : (0 <? n + 1 - rexp x) = false) by (apply Z.ltb_ge; lia).
    rewrite Hk.
    destruct (match p with Some p0 => rf_p x <=? p0 | None => true end); cbn [andb].
    - eexists; eexists; split; [reflexivity|]. cbn [rs rc rexp f_inexact fst snd]. repeat split; try lia;
      try (unfold R2R; rewrite rf_m_cond; reflexivity).
    - unfold split, is_zero. destruct (Z.eqb_spec (rc x) 0); [lia|].
      pose proof (bitlen_pos _ Hc).
      destruct (Z.geb_spec n (rf_e x)) as [Hge|_]; [unfold rf_e, rf_p in Hge; lia|].
      destruct (Z.ltb_spec n (rexp x)); [|lia]. cbn [rc]. simpl (0 =? 0).
      cbv iota beta.
      eexists; eexists; split; [reflexivity|]. cbn [rs rc rexp f_inexact fst snd]. repeat split; try lia;
      try (unfold R2R; rewrite rf_m_cond; reflexivity). }
  cbn [andb].
  assert (Hk : 0 < n + 1 - rexp x) by lia.
  destruct (Z.ltb_spec 0 (n + 1 - rexp x)); [|lia].
  rewrite split_general by lia.
  set (k := n + 1 - rexp x) in *.
  set (m := rc x / 2 ^ k). set (r := rc x mod 2 ^ k).
  assert (P2k : 0 < 2 ^ k) by (apply pow2_pos; lia).
  assert (Hr : 0 <= r < 2 ^ k) by (apply Z.mod_pos_bound; lia).
  assert (Hm : 0 <= m) by (apply Z.div_pos; lia).
  unfold is_zero. cbn [rc]. unfold loc_of, mode_choice.
  destruct (Z.eqb_spec r 0) as [R0|R0].
  { cbn [negb incr_b cond_incr].
    eexists; eexists; split; [reflexivity|]. cbn [rs rc rexp f_inexact fst snd]. repeat split; try lia;
    try (unfold R2R, rf_m; cbn [rs rc rexp]; f_equal; f_equal; destruct (rs x); reflexivity). }
  cbn [negb].
  assert (Hinc : round_incr (RF (rs x) (n + 1) m) (RF (rs x) (rexp x) r) n rm =
                 incr_b rm (rs x) (Z.even m) (loc_Inexact (2 * r ?= 2 ^ k))).
  { pose proof (round_incr_spec rm (rs x) m (rexp x) k r Hk ltac:(lia)) as HH.
    replace (rexp x + k) with (n + 1) in HH by (unfold k; lia).
    replace (n + 1 - 1) with n in HH by lia.
    rewrite HH. unfold loc_of. destruct (Z.eqb_spec r 0); [contradiction|reflexivity]. }
  rewrite Hinc.
  set (inc := incr_b rm (rs x) (Z.even m) (loc_Inexact (2 * r ?= 2 ^ k))).
  cbn [rs rexp rc].
  assert (Hval : forall y fl carry tpost,
     (if inc then
        match p with
        | Some p0 => if bitlen (m + 1) >? p0 then (RF (rs x) (n + 1 + 1) (Z.shiftr (m + 1) 1), true)
                     else (RF (rs x) (n + 1) (m + 1), false)
        | None => (RF (rs x) (n + 1) (m + 1), false)
        end
      else (RF (rs x) (n + 1) m, false)) = (y, carry) ->
     fl = FL false false false tp tpost true carry ->
     rs y = rs x /\ 0 <= rc y /\
     R2R y = F2R (Float radix2 (cond_Zopp (rs x) (cond_incr inc m)) (n + 1)) /\ f_inexact fl = true).
  { intros y fl carry tpost Hy ->. cbn [f_inexact].
    assert (Hplain : forall c', 0 <= c' ->
       rs (RF (rs x) (n + 1) c') = rs x /\ 0 <= rc (RF (rs x) (n + 1) c') /\
       R2R (RF (rs x) (n + 1) c') = F2R (Float radix2 (cond_Zopp (rs x) c') (n + 1)) /\ true = true).
    { intros c' Hc'. cbn [rs rc]. repeat split; try assumption;
      try (unfold R2R; rewrite rf_m_cond; reflexivity). }
    destruct inc; cbn [cond_incr].
    - destruct p as [p0|].
      + destruct (Z.gtb_spec (bitlen (m + 1)) p0) as [Hb|Hb].
        * injection Hy as <- <-.
          destruct Hp as [Hp1 Hp2].
          (* m < 2^p0, so m + 1 = 2^p0 *)
          pose proof (bitlen_bounds _ Hc) as [B1 B2]. pose proof (bitlen_pos _ Hc) as Bp.
          assert (Hm2 : m < 2 ^ p0).
          { unfold m. apply Z.div_lt_upper_bound; [lia|].
            unfold rf_e, rf_p in Hp2.
            apply Z.lt_le_trans with (2 ^ bitlen (rc x)); [lia|].
            rewrite <- Z.pow_add_r by lia. apply Z.pow_le_mono_r; lia. }
          pose proof (bitlen_bounds (m + 1) ltac:(lia)) as [C1 C2].
          assert (2 ^ p0 <= 2 ^ (bitlen (m + 1) - 1)) by (apply Z.pow_le_mono_r; lia).
          assert (Hm1 : m + 1 = 2 ^ p0) by lia.
          rewrite shiftr_pow by lia. rewrite Hm1. change (2 ^ 1) with 2.
          assert (P : 2 ^ p0 = 2 * 2 ^ (p0 - 1)).
          { replace p0 with (Z.succ (p0 - 1)) at 1 by lia. rewrite Z.pow_succ_r by lia. reflexivity. }
          assert (Hd : 2 ^ p0 / 2 = 2 ^ (p0 - 1)).
          { rewrite P. rewrite Z.mul_comm, Z.div_mul by lia. reflexivity. }
          rewrite Hd. cbn [rs rc]. pose proof (pow2_pos (p0 - 1) ltac:(lia)).
          repeat split; try lia.
          unfold R2R. rewrite rf_m_cond. cbn [rs rc rexp].
          rewrite (F2R_change_exp radix2 (n + 1) _ (n + 1 + 1)) by lia.
          f_equal. f_equal. replace (n + 1 + 1 - (n + 1)) with 1 by lia.
          change (Zpower radix2 1) with 2. rewrite P. destruct (rs x); cbn [cond_Zopp SpecFloat.cond_Zopp]; lia.
        * injection Hy as <- <-. apply Hplain. lia.
      + injection Hy as <- <-. apply Hplain. lia.
    - injection Hy as <- <-. apply Hplain. lia. }
  match goal with |- context [let '(kept', carry) := ?E in _] => destruct E as [y carry] eqn:Ey end.
  eexists; eexists; split; [reflexivity|].
  match goal with |- _ /\ _ /\ _ /\ f_inexact ?F = _ =>
    destruct (Hval y F carry _ eq_refl eq_refl) as (H1 & H2 & H3 & H4) end.
  repeat split; assumption.
Qed.

(* ---------------------------------------------------------------- N1, the three shapes *)
Definition fexp_of (max_p min_n : option Z) : Z -> Z :=
  match max_p, min_n with
  | Some p, Some n => FLT_exp (n + 1) p
  | Some p, None => FLX_exp p
  | None, Some n => FIX_exp (n + 1)
  | None, None => FIX_exp 0
  end.

Lemma valid_fexp_of max_p min_n :
  match max_p with Some p => 0 < p | None => True end -> Valid_exp (fexp_of max_p min_n).
Proof.
  intros Hp. destruct max_p as [p|], min_n as [n|]; simpl.
  - apply FLT_exp_valid. exact Hp.
  - apply FLX_exp_valid. exact Hp.
  - apply FIX_exp_valid.
  - apply FIX_exp_valid.
Qed.

(* the value and the inexact flag of RealFloat.round, all modes, all shapes *)
Theorem round_flocq x max_p min_n rm :
  rf_wf x -> rc x <> 0 ->
  match max_p with Some p => 1 <= p | None => True end ->
  (max_p <> None \/ min_n <> None) ->
  exists y fl,
    rf_round x max_p min_n rm false = Ok (y, fl) /\
    R2R y = round radix2 (fexp_of max_p min_n) (rnd_of rm) (R2R x) /\
    rs y = rs x /\ rf_wf y.
Proof.
  intros Hw Hnz Hp Hsome. unfold rf_wf in Hw. assert (Hc : 0 < rc x) by lia.
  pose proof (bitlen_pos _ Hc) as Bp.
  unfold rf_round, round_params.
  assert (Hgen : forall p n emin,
     p_ok x p n -> (fexp_of max_p min_n) (Zdigits radix2 (rc x) + rexp x) = n + 1 ->
     exists y fl, round_at x p n emin rm false = Ok (y, fl) /\
       R2R y = round radix2 (fexp_of max_p min_n) (rnd_of rm) (R2R x) /\ rs y = rs x /\ rf_wf y).
  { intros p n emin Hpo Hf.
    destruct (round_at_core x p n emin rm Hc Hpo) as (y & fl & Hr & Hs & Hcy & Hcore).
    exists y, fl. split; [exact Hr|].
    assert (Hv : Valid_exp (fexp_of max_p min_n)).
    { apply valid_fexp_of. destruct max_p; [lia|exact I]. }
    pose proof (round_core_flocq (fexp_of max_p min_n) rm (rs x) (rc x) (rexp x) n Hc Hf) as HF.
    destruct (round_core rm (rs x) (rc x) (rexp x) n) as [[mr er] ix].
    destruct Hcore as [Hy _]. rewrite Hy, HF. rewrite R2R_F2R. auto. }
  rewrite <- bitlen_Zdigits in Hgen by lia.
  destruct max_p as [p|], min_n as [n|]; cbn [bind].
  - apply Hgen.
    + unfold p_ok. split; [assumption|lia].
    + simpl. unfold FLT_exp, rf_e, rf_p. lia.
  - apply Hgen.
    + unfold p_ok. split; [assumption|lia].
    + simpl. unfold FLX_exp, rf_e, rf_p. lia.
  - apply Hgen.
    + exact I.
    + simpl. unfold FIX_exp. lia.
  - destruct Hsome; congruence.
Qed.

(* zero rounds to zero *)
Theorem round_zero x max_p min_n rm : rc x = 0 -> (max_p <> None \/ min_n <> None) ->
  exists y fl, rf_round x max_p min_n rm false = Ok (y, fl) /\ rc y = 0 /\ rs y = rs x /\ f_inexact fl = false.
Proof.
  intros Hz Hsome. unfold rf_round, round_params.
  assert (H : forall p n emin, exists y fl, round_at x p n emin rm false = Ok (y, fl) /\ rc y = 0 /\ rs y = rs x /\ f_inexact fl = false).
  { intros p n emin. unfold round_at.
    destruct ((rexp x >? n) && match p with Some p0 => rf_p x <=? p0 | None => true end).
    - eexists; eexists; split; [reflexivity|]. simpl. auto.
    - unfold split, is_zero. rewrite Hz. simpl.
      eexists; eexists; split; [reflexivity|]. simpl. auto. }
  destruct max_p as [p|], min_n as [n|]; cbn [bind]; try apply H.
  destruct Hsome; congruence.
Qed.

(* the inexact flag is truthful: set iff the value changed *)
Theorem round_inexact_truthful x p n emin rm y fl :
  0 < rc x -> p_ok x p n ->
  round_at x p n emin rm false = Ok (y, fl) ->
  (f_inexact fl = false <-> R2R y = R2R x).
Proof.
  intros Hc Hp Hr.
  destruct (round_at_core x p n emin rm Hc Hp) as (y' & fl' & Hr' & Hs & Hcy & Hcore).
  rewrite Hr in Hr'. injection Hr' as <- <-.
  unfold round_core in Hcore.
  destruct (Z.ltb_spec 0 (n + 1 - rexp x)) as [Hk|Hk].
  - destruct Hcore as [Hy Hi]. rewrite Hi.
    set (k := n + 1 - rexp x) in *.
    assert (P2k : 0 < 2 ^ k) by (apply pow2_pos; lia).
    pose proof (Z.div_mod (rc x) (2 ^ k) ltac:(lia)) as Hdm.
    pose proof (Z.mod_pos_bound (rc x) (2 ^ k) P2k) as Hrb.
    destruct (Z.eqb_spec (rc x mod 2 ^ k) 0) as [R0|R0]; cbn [negb]; split.
    + intros _. rewrite Hy. unfold loc_of. rewrite R0. unfold mode_choice. cbn [Z.eqb incr_b cond_incr].
      rewrite R2R_F2R.
      rewrite (F2R_change_exp radix2 (rexp x) _ (n + 1)) by lia.
      f_equal. f_equal. change (Zpower radix2 (n + 1 - rexp x)) with (2 ^ k).
      destruct (rs x); cbn [cond_Zopp SpecFloat.cond_Zopp]; lia.
    + reflexivity.
    + discriminate.
    + intros Heq. exfalso. rewrite Hy, R2R_F2R in Heq.
      rewrite (F2R_change_exp radix2 (rexp x) _ (n + 1)) in Heq by lia.
      apply eq_F2R in Heq. change (Zpower radix2 (n + 1 - rexp x)) with (2 ^ k) in Heq.
      assert (Hmul : exists q, rc x = q * 2 ^ k).
      { destruct (rs x); cbn [cond_Zopp SpecFloat.cond_Zopp] in Heq.
        - exists (mode_choice rm true (rc x / 2 ^ k) (loc_of k (rc x mod 2 ^ k))). lia.
        - exists (mode_choice rm false (rc x / 2 ^ k) (loc_of k (rc x mod 2 ^ k))). lia. }
      destruct Hmul as [q Hq]. apply R0. rewrite Hq. apply Z.mod_mul. lia.
  - destruct Hcore as [Hy Hi]. rewrite Hi. split; [intros _|reflexivity].
    rewrite Hy, R2R_F2R. reflexivity.
Qed.
