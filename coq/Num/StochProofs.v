(* C17: stochastic rounding (model of RealFloat._round_at_stochastic, with the
   drawn integer explicit) picks a neighbour with the exact count of draws. *)
From Coq Require Import ZArith List Bool Lia Reals Psatz.
From Flocq Require Import Core.Zaux Core.Raux Core.Defs Core.Digits Core.Float_prop
  Core.Generic_fmt Core.FIX Calc.Bracket Calc.Round.
From FpyV Require Import Num.RealFloat Num.RealFloatProofs Num.RoundSpec Num.RoundProofs.
Import ListNotations.
Open Scope Z_scope.

(* ---------------------------------------------------------------- exact shape of fixed-point rounding *)
Definition fix_round_val (rm : rmode) (x : rf) (n : Z) : rf :=
  if rexp x >? n then RF (rs x) (rexp x) (rc x)
  else
    let K := n + 1 - rexp x in
    RF (rs x) (n + 1) (mode_choice rm (rs x) (rc x / 2 ^ K) (loc_of K (rc x mod 2 ^ K))).

Lemma round_at_fix_exact x n emin rm : 0 < rc x ->
  exists fl, round_at x None n emin rm false = Ok (fix_round_val rm x n, fl).
Proof.
  intros Hc. unfold round_at, fix_round_val.
  destruct (Z.gtb_spec (rexp x) n) as [Hgt|Hle]; cbn [andb].
  { eexists. reflexivity. }
  rewrite split_general by lia.
  set (K := n + 1 - rexp x). set (m := rc x / 2 ^ K). set (r := rc x mod 2 ^ K).
  assert (HK : 0 < K) by (unfold K; lia).
  assert (P2 : 0 < 2 ^ K) by (apply pow2_pos; lia).
  assert (Hr : 0 <= r < 2 ^ K) by (apply Z.mod_pos_bound; lia).
  unfold is_zero. cbn [rc]. unfold loc_of, mode_choice.
  destruct (Z.eqb_spec r 0) as [R0|R0].
  { cbn [incr_b cond_incr]. eexists. reflexivity. }
  assert (Hinc : round_incr (RF (rs x) (n + 1) m) (RF (rs x) (rexp x) r) n rm =
                 incr_b rm (rs x) (Z.even m) (loc_Inexact (2 * r ?= 2 ^ K))).
  { pose proof (round_incr_spec rm (rs x) m (rexp x) K r HK ltac:(lia)) as HH.
    replace (rexp x + K) with (n + 1) in HH by (unfold K; lia).
    replace (n + 1 - 1) with n in HH by lia.
    rewrite HH. unfold loc_of. destruct (Z.eqb_spec r 0); [contradiction|reflexivity]. }
  rewrite Hinc. cbn [rs rexp rc].
  destruct (incr_b rm (rs x) (Z.even m) (loc_Inexact (2 * r ?= 2 ^ K))); cbn [cond_incr];
    eexists; reflexivity.
Qed.

(* ---------------------------------------------------------------- the count L *)
(* number of 2^-k-gap units by which the k-digit-extended rounding of x lies
   past the lower neighbour at n (K = n+1-exp > 0 digits are lost at n) *)
Definition stoch_L (rm : rmode) (x : rf) (n k : Z) : Z :=
  let K := n + 1 - rexp x in
  let m := rc x / 2 ^ K in
  let r := rc x mod 2 ^ K in
  if K - k <=? 0 then r * 2 ^ (k - K)
  else
    let K2 := K - k in
    mode_choice rm (rs x) (rc x / 2 ^ K2) (loc_of K2 (rc x mod 2 ^ K2)) - m * 2 ^ k.

Lemma mode_choice_bounds rm s m l : m <= mode_choice rm s m l <= m + 1.
Proof. unfold mode_choice, cond_incr. destruct (incr_b rm s (Z.even m) l); lia. Qed.

Lemma stoch_L_bounds rm x n k : 0 < rc x -> 0 <= k -> 0 < n + 1 - rexp x ->
  0 <= stoch_L rm x n k <= 2 ^ k.
Proof.
  intros Hc Hk HK. unfold stoch_L.
  set (K := n + 1 - rexp x) in *.
  assert (P2 : 0 < 2 ^ K) by (apply pow2_pos; lia).
  pose proof (Z.mod_pos_bound (rc x) (2 ^ K) P2) as Hr.
  destruct (Z.leb_spec (K - k) 0) as [Hle|Hgt].
  - assert (0 < 2 ^ (k - K)) by (apply pow2_pos; lia).
    split; [nia|].
    replace k with (K + (k - K)) at 2 by lia. rewrite Z.pow_add_r by lia. nia.
  - set (K2 := K - k).
    assert (P22 : 0 < 2 ^ K2) by (apply pow2_pos; unfold K2; lia).
    assert (Pk : 0 < 2 ^ k) by (apply pow2_pos; lia).
    assert (HKs : 2 ^ K = 2 ^ K2 * 2 ^ k).
    { rewrite <- Z.pow_add_r by (unfold K2; lia). f_equal. unfold K2. lia. }
    pose proof (mode_choice_bounds rm (rs x) (rc x / 2 ^ K2) (loc_of K2 (rc x mod 2 ^ K2))) as Hb.
    (* c / 2^K2 = m * 2^k + q with 0 <= q < 2^k *)
    assert (Hdiv : rc x / 2 ^ K = rc x / 2 ^ K2 / 2 ^ k).
    { rewrite HKs. rewrite Z.div_div by lia. reflexivity. }
    pose proof (Z.div_mod (rc x / 2 ^ K2) (2 ^ k) ltac:(lia)) as Hdm.
    pose proof (Z.mod_pos_bound (rc x / 2 ^ K2) (2 ^ k) Pk) as Hq.
    rewrite Hdiv. lia.
Qed.

(* ---------------------------------------------------------------- the decision *)
Lemma abs_cmp_fix s e1 c1 e2 c2 : 0 <= c1 -> 0 <= c2 ->
  rf_compare (rf_abs (RF s e1 c1)) (rf_abs (RF s e2 c2)) =
  Rcompare (F2R (Float radix2 c1 e1)) (F2R (Float radix2 c2 e2)).
Proof.
  intros H1 H2. rewrite compare_denote by (unfold rf_wf; simpl; assumption).
  unfold R2R, rf_m, rf_abs. simpl. reflexivity.
Qed.

Theorem stoch_decision rm x n k rb :
  0 < rc x -> 1 <= k -> 0 < n + 1 - rexp x -> rc x mod 2 ^ (n + 1 - rexp x) <> 0 ->
  0 <= rb < 2 ^ k ->
  round_at_stoch x None n None rm (Some k) rb false =
  round_at x None n None (if rb + stoch_L rm x n k >=? 2 ^ k then RAZ else RTZ) false.
Proof.
  intros Hc Hk HK Hr0 Hrb.
  unfold round_at_stoch, stoch_numbits.
  destruct (round_at_fix_exact x (n - k) None rm Hc) as [fl0 Hx]. rewrite Hx. cbn [bind fst].
  set (K := n + 1 - rexp x) in *.
  set (m := rc x / 2 ^ K). set (r := rc x mod 2 ^ K) in *.
  assert (P2 : 0 < 2 ^ K) by (apply pow2_pos; lia).
  assert (Pk : 0 < 2 ^ k) by (apply pow2_pos; lia).
  assert (Hr : 0 < r < 2 ^ K) by (pose proof (Z.mod_pos_bound (rc x) (2 ^ K) P2); unfold r in *; lia).
  pose proof (Z.div_mod (rc x) (2 ^ K) ltac:(lia)) as Hcdm. fold m r in Hcdm.
  assert (Hm : 0 <= m) by (apply Z.div_pos; lia).
  rewrite (shiftl_pow 1 k) by lia. rewrite Z.mul_1_l.
  unfold fix_round_val, stoch_L. fold K m r.
  replace (n - k + 1 - rexp x) with (K - k) by (unfold K; lia).
  destruct (Z.gtb_spec (rexp x) (n - k)) as [Hgt|Hle].
  - (* fewer lost digits than random bits: the extended value is x itself *)
    destruct (Z.leb_spec (K - k) 0) as [_|Hbad]; [|unfold K in Hbad; lia].
    rewrite split_general by (cbn [rc rexp]; unfold K in HK; lia).
    cbn [rs rexp rc snd]. fold K r. unfold is_zero. cbn [rc].
    destruct (Z.eqb_spec r 0); [unfold r in *; lia|].
    replace (rexp x - (n - k + 1)) with (k - K) by (unfold K; lia).
    assert (HL : (if k - K >? 0 then Z.shiftl r (k - K)
                  else if k - K <? 0 then Z.shiftr r (- (k - K)) else r) = r * 2 ^ (k - K)).
    { destruct (Z.gtb_spec (k - K) 0).
      - apply shiftl_pow. lia.
      - destruct (Z.ltb_spec (k - K) 0); [unfold K in *; lia|].
        replace (k - K) with 0 by lia. simpl. lia. }
    rewrite HL. destruct (rb + r * 2 ^ (k - K) >=? 2 ^ k); reflexivity.
  - destruct (Z.leb_spec (K - k) 0) as [Hbad|HK2]; [unfold K in Hbad; lia|].
    set (K2 := K - k) in *.
    set (mr := mode_choice rm (rs x) (rc x / 2 ^ K2) (loc_of K2 (rc x mod 2 ^ K2))).
    assert (P22 : 0 < 2 ^ K2) by (apply pow2_pos; lia).
    assert (HKs : 2 ^ K = 2 ^ K2 * 2 ^ k).
    { rewrite <- Z.pow_add_r by lia. f_equal. unfold K2. lia. }
    assert (Hdiv : m = rc x / 2 ^ K2 / 2 ^ k).
    { unfold m. rewrite HKs. rewrite Z.div_div by lia. reflexivity. }
    pose proof (mode_choice_bounds rm (rs x) (rc x / 2 ^ K2) (loc_of K2 (rc x mod 2 ^ K2))) as Hb. fold mr in Hb.
    pose proof (Z.div_mod (rc x / 2 ^ K2) (2 ^ k) ltac:(lia)) as Hdm.
    pose proof (Z.mod_pos_bound (rc x / 2 ^ K2) (2 ^ k) Pk) as Hq.
    rewrite <- Hdiv in Hdm.
    set (L := mr - m * 2 ^ k).
    assert (HLb : 0 <= L <= 2 ^ k) by (unfold L; lia).
    assert (Hq0 : 0 <= rc x / 2 ^ K2) by (apply Z.div_pos; lia).
    (* |x| in units of 2^(n-k+1) lies strictly between m*2^k and (m+1)*2^k *)
    pose proof (Z.div_mod (rc x) (2 ^ K2) ltac:(lia)) as Hc2.
    pose proof (Z.mod_pos_bound (rc x) (2 ^ K2) P22) as Hr2.
    destruct (Z.eq_dec mr 0) as [Hmr0|Hmr0].
    { (* extended value is zero: L = 0, m = 0 *)
      rewrite Hmr0 in *. unfold split, is_zero. cbn [rc]. simpl (0 =? 0). cbn [snd rc].
      simpl (0 =? 0). cbv iota beta.
      assert (Hcmp : rf_compare (rf_abs (RF (rs x) (n - k + 1) 0)) (rf_abs x) = Lt).
      { rewrite compare_denote by (unfold rf_wf, rf_abs; simpl; lia).
        apply Rcompare_Lt. rewrite R2R_zero by reflexivity.
        unfold R2R, rf_m, rf_abs; simpl. apply F2R_gt_0. simpl. lia. }
      rewrite Hcmp.
      assert (m = 0) by nia. assert (L = 0) by (unfold L; nia).
      destruct (Z.geb_spec (rb + L) (2 ^ k)); [lia|reflexivity]. }
    assert (Hmrp : 0 < mr) by lia.
    rewrite split_general by (cbn [rc rexp]; lia).
    cbn [rs rexp rc snd].
    replace (n + 1 - (n - k + 1)) with k by lia.
    unfold is_zero. cbn [rc].
    replace (n - k + 1 - (n - k + 1)) with 0 by lia. simpl (0 >? 0). simpl (0 <? 0). cbv iota.
    destruct (Z_le_gt_dec (2 ^ k) L) as [HLtop|HLlt].
    + (* carried onto the upper neighbour: always away *)
      assert (HLe : L = 2 ^ k) by lia.
      assert (Hmr : mr = (m + 1) * 2 ^ k) by (unfold L in HLe; lia).
      rewrite Hmr, Z.mod_mul by lia. simpl (0 =? 0). cbv iota.
      assert (Hcmp : rf_compare (rf_abs (RF (rs x) (n - k + 1) ((m + 1) * 2 ^ k))) (rf_abs x) = Gt).
      { destruct x as [s e c]. rewrite abs_cmp_fix by (simpl in *; nia).
        apply Rcompare_Gt. cbn [rs rexp rc] in *.
        rewrite (F2R_change_exp radix2 e _ (n - k + 1)) by lia.
        apply F2R_lt. change (Zpower radix2 (n - k + 1 - e)) with (2 ^ (n - k + 1 - e)).
        replace (n - k + 1 - e) with K2 by (unfold K2, K; simpl; lia).
        rewrite <- Z.mul_assoc, (Z.mul_comm (2 ^ k)), <- HKs. lia. }
      rewrite Hcmp. destruct (Z.geb_spec (rb + L) (2 ^ k)); [reflexivity|lia].
    + assert (Hmod : mr mod 2 ^ k = L).
      { symmetry. apply Z.mod_unique with m; unfold L; lia. }
      rewrite Hmod.
      destruct (Z.eqb_spec L 0) as [HL0|HL0].
      * (* rounded down onto the lower neighbour: never away *)
        assert (Hmr : mr = m * 2 ^ k) by (unfold L in HL0; lia).
        assert (Hcmp : rf_compare (rf_abs (RF (rs x) (n - k + 1) mr)) (rf_abs x) <> Gt).
        { destruct x as [s e c]. rewrite abs_cmp_fix by (simpl in *; lia).
          cbn [rs rexp rc] in *. intros HG. apply Rcompare_Gt_inv in HG.
          rewrite (F2R_change_exp radix2 e _ (n - k + 1)) in HG by lia.
          apply lt_F2R in HG. change (Zpower radix2 (n - k + 1 - e)) with (2 ^ (n - k + 1 - e)) in HG.
          replace (n - k + 1 - e) with K2 in HG by (unfold K2, K; simpl; lia).
          rewrite Hmr in HG. rewrite <- Z.mul_assoc, (Z.mul_comm (2 ^ k)), <- HKs in HG. lia. }
        rewrite HL0, Z.add_0_r.
        destruct (Z.geb_spec rb (2 ^ k)); [lia|].
        destruct (rf_compare (rf_abs (RF (rs x) (n - k + 1) mr)) (rf_abs x)); try reflexivity. contradiction.
      * reflexivity.
Qed.

(* ---------------------------------------------------------------- counting draws *)
Fixpoint zrange (n : nat) : list Z :=
  match n with O => [] | S n' => zrange n' ++ [Z.of_nat n'] end.

Lemma zrange_In n z : In z (zrange n) <-> 0 <= z < Z.of_nat n.
Proof.
  induction n as [|n IH]; simpl.
  - split; [contradiction|lia].
  - rewrite in_app_iff, IH. simpl. split.
    + intros [H|[H|[]]]; lia.
    + intros H. destruct (Z.eq_dec z (Z.of_nat n)); [right; left; lia|left; lia].
Qed.

Lemma count_tail (a : Z) (n : nat) : 0 <= a <= Z.of_nat n ->
  Z.of_nat (length (filter (fun i => a <=? i) (zrange n))) = Z.of_nat n - a.
Proof.
  induction n as [|n IH]; intros Ha.
  - simpl in *. lia.
  - cbn [zrange]. rewrite filter_app, app_length. cbn [filter].
    destruct (Z.leb_spec a (Z.of_nat n)) as [Hle|Hgt].
    + rewrite Nat2Z.inj_add, IH by lia. cbn [length]. rewrite Nat2Z.inj_succ. lia.
    + (* a = n + 1: nothing counted *)
      assert (Hnone : filter (fun i => a <=? i) (zrange n) = []).
      { clear IH. assert (Ha' : Z.of_nat n < a) by lia. clear Ha Hgt. revert Ha'.
        induction n as [|n IHn]; intros Ha'; [reflexivity|].
        cbn [zrange]. rewrite filter_app. cbn [filter].
        destruct (Z.leb_spec a (Z.of_nat n)); [lia|]. rewrite IHn by lia. reflexivity. }
      rewrite Hnone. cbn [length Nat.add]. rewrite Nat2Z.inj_succ in *. lia.
Qed.

(* #{ rb < 2^k | rb + L >= 2^k } = L *)
Theorem count_draws (L k : Z) : 0 <= k -> 0 <= L <= 2 ^ k ->
  Z.of_nat (length (filter (fun rb => rb + L >=? 2 ^ k) (zrange (Z.to_nat (2 ^ k))))) = L.
Proof.
  intros Hk HL.
  assert (P : 0 < 2 ^ k) by (apply pow2_pos; lia).
  rewrite (filter_ext _ (fun i => (2 ^ k - L) <=? i)).
  - rewrite count_tail by (rewrite Z2Nat.id; lia). rewrite Z2Nat.id by lia. lia.
  - intros rb. destruct (Z.geb_spec (rb + L) (2 ^ k)); destruct (Z.leb_spec (2 ^ k - L) rb); try reflexivity; lia.
Qed.

(* did this outcome go to the neighbour away from zero? *)
Definition went_away (x : rf) (n : Z) (res : result (rf * flags)) : bool :=
  match res with
  | Ok (y, _) => (rexp y =? n + 1) && (rc y =? rc x / 2 ^ (n + 1 - rexp x) + 1)
  | Err _ => false
  end.

Definition went_towards (x : rf) (n : Z) (res : result (rf * flags)) : bool :=
  match res with
  | Ok (y, _) => (rexp y =? n + 1) && (rc y =? rc x / 2 ^ (n + 1 - rexp x))
  | Err _ => false
  end.

Lemma fix_round_RAZ_RTZ x n (b : bool) :
  0 < rc x -> 0 < n + 1 - rexp x -> rc x mod 2 ^ (n + 1 - rexp x) <> 0 ->
  fix_round_val (if b then RAZ else RTZ) x n =
  RF (rs x) (n + 1) (rc x / 2 ^ (n + 1 - rexp x) + (if b then 1 else 0)).
Proof.
  intros Hc HK Hr. unfold fix_round_val.
  destruct (Z.gtb_spec (rexp x) n); [lia|].
  unfold loc_of. destruct (Z.eqb_spec (rc x mod 2 ^ (n + 1 - rexp x)) 0); [contradiction|].
  unfold mode_choice. destruct b; cbn [incr_b cond_incr]; f_equal; lia.
Qed.

(* the property: every draw yields one of the two neighbours, and over all 2^k
   draws exactly L go away from zero *)
Theorem stoch_neighbour rm x n k rb :
  0 < rc x -> 1 <= k -> 0 < n + 1 - rexp x -> rc x mod 2 ^ (n + 1 - rexp x) <> 0 ->
  0 <= rb < 2 ^ k ->
  let res := round_at_stoch x None n None rm (Some k) rb false in
  went_away x n res = (rb + stoch_L rm x n k >=? 2 ^ k) /\
  went_towards x n res = negb (rb + stoch_L rm x n k >=? 2 ^ k).
Proof.
  intros Hc Hk HK Hr Hrb res. unfold res. rewrite stoch_decision by assumption.
  set (b := rb + stoch_L rm x n k >=? 2 ^ k).
  destruct (round_at_fix_exact x n None (if b then RAZ else RTZ) Hc) as [fl Hx]. rewrite Hx.
  rewrite fix_round_RAZ_RTZ by assumption.
  unfold went_away, went_towards. cbn [rexp rc]. rewrite Z.eqb_refl. cbn [andb].
  destruct b; split; cbn [negb].
  - apply Z.eqb_refl.
  - apply Z.eqb_neq. lia.
  - apply Z.eqb_neq. lia.
  - rewrite Z.add_0_r. apply Z.eqb_refl.
Qed.

Theorem stoch_count rm x n k :
  0 < rc x -> 1 <= k -> 0 < n + 1 - rexp x -> rc x mod 2 ^ (n + 1 - rexp x) <> 0 ->
  Z.of_nat (length (filter (fun rb => went_away x n (round_at_stoch x None n None rm (Some k) rb false))
                           (zrange (Z.to_nat (2 ^ k))))) = stoch_L rm x n k.
Proof.
  intros Hc Hk HK Hr.
  assert (P : 0 < 2 ^ k) by (apply pow2_pos; lia).
  rewrite (filter_ext_in _ (fun rb => rb + stoch_L rm x n k >=? 2 ^ k)).
  - apply count_draws; [lia|]. apply stoch_L_bounds; lia.
  - intros rb Hin. apply zrange_In in Hin. rewrite Z2Nat.id in Hin by lia.
    apply (stoch_neighbour rm x n k rb Hc Hk HK Hr Hin).
Qed.

(* a representable operand is returned unchanged whatever is drawn *)
Theorem stoch_exact rm x n k rb :
  0 < rc x -> 1 <= k -> 0 <= rb ->
  (n + 1 - rexp x <= 0 \/ rc x mod 2 ^ (n + 1 - rexp x) = 0) ->
  exists y fl, round_at_stoch x None n None rm (Some k) rb false = Ok (y, fl) /\ R2R y = R2R x /\ f_inexact fl = false.
Proof.
  intros Hc Hk Hrb Hrep.
  unfold round_at_stoch, stoch_numbits.
  destruct (round_at_fix_exact x (n - k) None rm Hc) as [fl0 Hx]. rewrite Hx. cbn [bind].
  match goal with |- context [round_at x None n None ?M false] => set (rmm := M) end.
  assert (Hpo : p_ok x None n) by exact I.
  destruct (round_at_core x None n None rmm Hc Hpo) as (y & fl & Hr & Hs & Hcy & Hcore).
  exists y, fl. split; [exact Hr|].
  unfold round_core in Hcore.
  destruct (Z.ltb_spec 0 (n + 1 - rexp x)) as [HK|HK].
  - destruct Hrep as [Hrep|Hrep]; [lia|]. destruct Hcore as [Hy Hi].
    split.
    + apply (round_inexact_truthful x None n None rmm y fl Hc Hpo Hr). rewrite Hi, Hrep. reflexivity.
    + rewrite Hi, Hrep. reflexivity.
  - destruct Hcore as [Hy Hi]. split; [|exact Hi]. rewrite Hy, R2R_F2R. reflexivity.
Qed.

(* L is the operand's position in the gap, in units of 2^-k of the gap,
   "rounded as the context's mode says": lower neighbour + L units is Flocq's
   rounding of x to the fixed-point format with k extra digits *)
Theorem stoch_L_flocq rm x n k : 0 < rc x -> 0 <= k -> 0 < n + 1 - rexp x - k ->
  F2R (Float radix2 (cond_Zopp (rs x) (rc x / 2 ^ (n + 1 - rexp x) * 2 ^ k + stoch_L rm x n k)) (n - k + 1)) =
  round radix2 (FIX_exp (n - k + 1)) (rnd_of rm) (R2R x).
Proof.
  intros Hc Hk HK2. unfold stoch_L.
  destruct (Z.leb_spec (n + 1 - rexp x - k) 0); [lia|].
  replace (rc x / 2 ^ (n + 1 - rexp x) * 2 ^ k +
           (mode_choice rm (rs x) (rc x / 2 ^ (n + 1 - rexp x - k))
              (loc_of (n + 1 - rexp x - k) (rc x mod 2 ^ (n + 1 - rexp x - k))) -
            rc x / 2 ^ (n + 1 - rexp x) * 2 ^ k))
    with (mode_choice rm (rs x) (rc x / 2 ^ (n + 1 - rexp x - k))
              (loc_of (n + 1 - rexp x - k) (rc x mod 2 ^ (n + 1 - rexp x - k)))) by lia.
  pose proof (round_core_flocq (FIX_exp (n - k + 1)) rm (rs x) (rc x) (rexp x) (n - k) Hc) as HF.
  unfold round_core in HF.
  replace (n - k + 1 - rexp x) with (n + 1 - rexp x - k) in HF by lia.
  destruct (Z.ltb_spec 0 (n + 1 - rexp x - k)); [|lia].
  rewrite R2R_F2R. apply HF. unfold FIX_exp. lia.
Qed.
