(* Run-time library of the Python -> Gallina translator (translate/py2v.py).

   The translator emits, for every Python function it accepts, a Gallina
   function over the dynamically typed value universe [val] below, in monadic
   style ([result val]: [Err e] models a raised exception).  Each operator of
   the accepted Python subset is one function of this file, written to follow
   the Python semantics on the modelled values and to return [Err TypeErr] on
   anything else (fail closed).  Definitions only. *)
From Coq Require Import ZArith List Bool.
From FpyV Require Import Num.RealFloat.
Import ListNotations.
Open Scope Z_scope.

Inductive val :=
  | VNone
  | VBool (b : bool)
  | VInt (z : Z)
  | VEnum (cls : Z) (idx : Z)          (* member of the enum class number [cls] with value [idx] *)
  | VObj (cls : Z) (fields : list val) (* instance of class number [cls]; fields in slot order *)
  | VTup (l : list val).

Definition ok (v : val) : result val := Ok v.
Definition unmodelled : result val := Err OtherErr.

(* ---------------------------------------------------------------- truthiness *)
(* bool(v) for the values a condition can be: None, bool, int.  Enum members of an IntEnum
   are truthy iff non-zero; objects and tuples are rejected (no __bool__ modelled). *)
Definition truth (v : val) : result bool :=
  match v with
  | VNone => Ok false
  | VBool b => Ok b
  | VInt z => Ok (negb (z =? 0))
  | _ => Err TypeErr
  end.

Definition py_bool (v : val) : result val := bind (truth v) (fun b => Ok (VBool b)).
Definition py_not (v : val) : result val := bind (truth v) (fun b => Ok (VBool (negb b))).

(* ---------------------------------------------------------------- integers *)
(* bool is a subclass of int *)
Definition as_int (v : val) : result Z :=
  match v with
  | VInt z => Ok z
  | VBool b => Ok (if b then 1 else 0)
  | _ => Err TypeErr
  end.

Definition int2 (f : Z -> Z -> result val) (a b : val) : result val :=
  bind (as_int a) (fun x => bind (as_int b) (fun y => f x y)).

Definition py_add := int2 (fun x y => Ok (VInt (x + y))).
Definition py_sub := int2 (fun x y => Ok (VInt (x - y))).
Definition py_mul := int2 (fun x y => Ok (VInt (x * y))).
Definition py_mod := int2 (fun x y => if y =? 0 then Err OtherErr else Ok (VInt (x mod y))).
Definition py_floordiv := int2 (fun x y => if y =? 0 then Err OtherErr else Ok (VInt (x / y))).
Definition py_pow := int2 (fun x y => if y <? 0 then Err TypeErr else Ok (VInt (x ^ y))).
Definition py_lshift := int2 (fun x y => if y <? 0 then Err ValueErr else Ok (VInt (Z.shiftl x y))).
Definition py_rshift := int2 (fun x y => if y <? 0 then Err ValueErr else Ok (VInt (Z.shiftr x y))).
Definition py_bitand := int2 (fun x y => Ok (VInt (Z.land x y))).
Definition py_bitor := int2 (fun x y => Ok (VInt (Z.lor x y))).
Definition py_bitxor := int2 (fun x y => Ok (VInt (Z.lxor x y))).
Definition py_neg (a : val) : result val := bind (as_int a) (fun x => Ok (VInt (- x))).
Definition py_abs_int (a : val) : result val := bind (as_int a) (fun x => Ok (VInt (Z.abs x))).
Definition py_max := int2 (fun x y => Ok (VInt (Z.max x y))).
Definition py_min := int2 (fun x y => Ok (VInt (Z.min x y))).
(* int.bit_length (of the absolute value) *)
Definition py_bit_length (a : val) : result val := bind (as_int a) (fun x => Ok (VInt (bitlen (Z.abs x)))).

Definition py_lt := int2 (fun x y => Ok (VBool (x <? y))).
Definition py_le := int2 (fun x y => Ok (VBool (x <=? y))).
Definition py_gt := int2 (fun x y => Ok (VBool (x >? y))).
Definition py_ge := int2 (fun x y => Ok (VBool (x >=? y))).

(* == on None / bool / int / enum members (an IntEnum member equals the int of its value only
   through as_int, which we do not model: enum members compare by identity) *)
Definition py_eq (a b : val) : result val :=
  match a, b with
  | VNone, VNone => Ok (VBool true)
  | VNone, (VBool _ | VInt _ | VEnum _ _) => Ok (VBool false)
  | (VBool _ | VInt _ | VEnum _ _), VNone => Ok (VBool false)
  | VEnum c i, VEnum c' i' => Ok (VBool ((c =? c') && (i =? i')))
  | VEnum _ _, _ | _, VEnum _ _ => Err TypeErr
  | (VBool _ | VInt _), (VBool _ | VInt _) => int2 (fun x y => Ok (VBool (x =? y))) a b
  | _, _ => Err TypeErr
  end.
Definition py_ne (a b : val) : result val := bind (py_eq a b) py_not.

Definition py_is_none (a : val) : result val :=
  match a with VNone => Ok (VBool true) | _ => Ok (VBool false) end.
Definition py_is_not_none (a : val) : result val :=
  match a with VNone => Ok (VBool false) | _ => Ok (VBool true) end.

(* isinstance *)
Definition py_isinstance_int (a : val) : result val :=
  match a with VInt _ | VBool _ => Ok (VBool true) | _ => Ok (VBool false) end.
Definition py_isinstance_bool (a : val) : result val :=
  match a with VBool _ => Ok (VBool true) | _ => Ok (VBool false) end.
Definition py_isinstance_cls (cls : Z) (a : val) : result val :=
  match a with
  | VObj c _ | VEnum c _ => Ok (VBool (c =? cls))
  | _ => Ok (VBool false)
  end.
(* classes outside the value universe (float, Fraction, ...) *)
Definition py_isinstance_never (a : val) : result val := Ok (VBool false).

(* ---------------------------------------------------------------- objects *)
Fixpoint nth_val (l : list val) (i : nat) : result val :=
  match l, i with
  | x :: _, O => Ok x
  | _ :: r, S k => nth_val r k
  | [], _ => Err TypeErr
  end.

Fixpoint set_nth (l : list val) (i : nat) (x : val) : result (list val) :=
  match l, i with
  | _ :: r, O => Ok (x :: r)
  | y :: r, S k => bind (set_nth r k x) (fun r' => Ok (y :: r'))
  | [], _ => Err TypeErr
  end.

Definition py_getfield (cls : Z) (i : nat) (o : val) : result val :=
  match o with
  | VObj c fs => if c =? cls then nth_val fs i else Err TypeErr
  | _ => Err TypeErr
  end.

Definition py_setfield (cls : Z) (i : nat) (o x : val) : result val :=
  match o with
  | VObj c fs => if c =? cls then bind (set_nth fs i x) (fun fs' => Ok (VObj c fs')) else Err TypeErr
  | _ => Err TypeErr
  end.

(* ---------------------------------------------------------------- tuples *)
Definition py_unpack2 (t : val) : result (val * val) :=
  match t with VTup [a; b] => Ok (a, b) | _ => Err TypeErr end.
Definition py_unpack3 (t : val) : result (val * val * val) :=
  match t with VTup [a; b; c] => Ok (a, b, c) | _ => Err TypeErr end.
Definition py_tuple_get (t : val) (i : nat) : result val :=
  match t with VTup l => nth_val l i | _ => Err TypeErr end.
Definition py_is_tuple_len (n : nat) (t : val) : bool :=
  match t with VTup l => Nat.eqb (length l) n | _ => false end.

(* ---------------------------------------------------------------- notations used by the generated code *)
Notation "'LET' x '<-' e 'IN' k" := (bind e (fun x => k)) (at level 200, x name, right associativity).
Notation "'IF' c 'THEN' a 'ELSE' b" :=
  (bind c (fun t__ => bind (truth t__) (fun b__ : bool => if b__ then a else b)))
  (at level 200, right associativity).
Notation "'AND' a 'THEN' b" :=
  (bind a (fun t__ => bind (truth t__) (fun b__ : bool => if b__ then b else Ok t__)))
  (at level 200, right associativity).
Notation "'OR' a 'ELSE' b" :=
  (bind a (fun t__ => bind (truth t__) (fun b__ : bool => if b__ then Ok t__ else b)))
  (at level 200, right associativity).
