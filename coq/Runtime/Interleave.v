(* C18 — two evaluations interleaved at the granularity of single commands.
   DEFINITIONS ONLY (proofs: InterleaveProofs.v).

   What is shared between the two evaluations: the compiled-function cache
   (BytecodeInterpreter.func_cache) and read-only tables (the table of
   function objects; the captured free-variable values, which by the
   hypothesis of history_independent_partial no body writes — each evaluation
   is therefore given its own view of them; the case where a body DOES write
   them is the refuted one, see CacheProofs.history_independent_refuted).
   What is NOT shared: the objects an evaluation allocates (Boundary:
   result_fresh / args_untouched — the other evaluation cannot reach them) and
   the active context `__ctx__`, which is a parameter/local of the compiled
   function (BytecodeCompiler._visit_function adds the CTX_NAME argument).

   The flag shared_ctx = true is the variant "active context kept in module
   state": the model then exhibits a schedule with a wrong result.

   Not modelled (claim is partial): CPython's scheduler/GIL, gmpy2's
   thread-local MPFR context (gmputils._mpfr_call_with_prec uses a scoped
   `with gmp.context(...)`), MPFR's constant caches.  Reached by the thread
   stress test only. *)
From Coq Require Import ZArith List Bool Arith.
From FpyV Require Import Runtime.Boundary Runtime.Cache.
Import ListNotations.
Open Scope nat_scope.

Inductive phase :=
  | PStart                                   (* before `if func.ast in self.func_cache` *)
  | PMiss                                    (* saw a miss, compiled; about to store `self.func_cache[func.ast] = fn` *)
  | PRun (ks : list cmd) (ret : operand) (c : ctx) (r : regs) (w : world)
                                             (* inside fn( *args, __ctx__=c): c is a LOCAL *)
  | PDone (o : option tree).

Record thread := mkT { t_fn : nat; t_args : list tree; t_ctx : ctx; t_phase : phase }.

(* shared state: the cache (code + read-only captured values) and, for the
   refuted variant only, a process-wide "current context" *)
Record shared := mkSh { sh_cache : list (nat * (body * list tree)); sh_ctx : ctx }.

Fixpoint lookupc (k : nat) (c : list (nat * (body * list tree))) : option (body * list tree) :=
  match c with
  | [] => None
  | (k', e) :: r => if Nat.eqb k k' then Some e else lookupc k r
  end.

(* entering the compiled function: same construction as Cache.step_call from the empty state *)
Definition start_run (fd : funcdef) (code : body) (env : list tree) (c : ctx) (ts : list tree) : phase :=
  let '(caps, e1) := allocs_at Interp env 0 in
  let '(args, e2) := allocs_at Interp ts (length e1) in
  PRun (b_cmds code) (b_ret code) (func_ctx fd c) (init_regs (args ++ caps)) (mkW [] (e1 ++ e2)).

Definition set_phase (t : thread) (p : phase) : thread := mkT (t_fn t) (t_args t) (t_ctx t) p.

Definition enter (shared_ctx : bool) (sh : shared) (t : thread) (fd : funcdef) (code : body) (env : list tree)
  : shared * thread :=
  (if shared_ctx then mkSh (sh_cache sh) (func_ctx fd (t_ctx t)) else sh,
   set_phase t (start_run fd code env (t_ctx t) (t_args t))).

(* one atomic step of a thread *)
Definition tstep (shared_ctx : bool) (fuel : nat) (tbl : list funcdef) (sh : shared) (t : thread) : shared * thread :=
  match t_phase t with
  | PStart =>
      match nth_error tbl (t_fn t) with
      | None => (sh, set_phase t (PDone None))
      | Some fd =>
          match lookupc (t_fn t) (sh_cache sh) with
          | Some (code, env) => enter shared_ctx sh t fd code env
          | None => (sh, set_phase t PMiss)
          end
      end
  | PMiss =>
      match nth_error tbl (t_fn t) with
      | None => (sh, set_phase t (PDone None))
      | Some fd =>
          enter shared_ctx (mkSh ((t_fn t, (fd_code fd, fd_env fd)) :: sh_cache sh) (sh_ctx sh)) t fd (fd_code fd) (fd_env fd)
      end
  | PRun [] ret c r w =>
      (sh, set_phase t (PDone (match oval r ret with Some v => snap fuel w v | None => None end)))
  | PRun (k :: ks) ret c r w =>
      match exec_cmd (if shared_ctx then sh_ctx sh else c) r w k with
      | None => (sh, set_phase t (PDone None))
      | Some (r', w', _) => (sh, set_phase t (PRun ks ret c r' w'))
      end
  | PDone o => (sh, t)
  end.

(* a schedule: true = thread 1 moves, false = thread 2 moves *)
Fixpoint run_sched (shared_ctx : bool) (fuel : nat) (tbl : list funcdef) (sched : list bool)
         (sh : shared) (t1 t2 : thread) : shared * thread * thread :=
  match sched with
  | [] => (sh, t1, t2)
  | true :: r => let '(sh', t1') := tstep shared_ctx fuel tbl sh t1 in run_sched shared_ctx fuel tbl r sh' t1' t2
  | false :: r => let '(sh', t2') := tstep shared_ctx fuel tbl sh t2 in run_sched shared_ctx fuel tbl r sh' t1 t2'
  end.

(* the result an evaluation is going to produce, as a function of its own state only *)
Definition finish (fuel : nat) (c : ctx) (ks : list cmd) (ret : operand) (r : regs) (w : world) : option tree :=
  let '(w', _, ro) := exec c ks r w [] in
  match ro with
  | Some r' => match oval r' ret with Some v => snap fuel w' v | None => None end
  | None => None
  end.

Definition outcome (fuel : nat) (tbl : list funcdef) (t : thread) : option tree :=
  match t_phase t with
  | PStart | PMiss =>
      match nth_error tbl (t_fn t) with
      | None => None
      | Some fd => match start_run fd (fd_code fd) (fd_env fd) (t_ctx t) (t_args t) with
                   | PRun ks ret c r w => finish fuel c ks ret r w
                   | _ => None
                   end
      end
  | PRun ks ret c r w => finish fuel c ks ret r w
  | PDone o => o
  end.

(* the cache invariant, for the code-and-tables cache *)
Definition sh_ok (tbl : list funcdef) (sh : shared) : Prop :=
  forall k code env, lookupc k (sh_cache sh) = Some (code, env) ->
    exists fd, nth_error tbl k = Some fd /\ code = fd_code fd /\ env = fd_env fd.

(* how many of its own steps a thread still needs at most *)
Definition measure (tbl : list funcdef) (t : thread) : nat :=
  match t_phase t with
  | PStart => match nth_error tbl (t_fn t) with Some fd => length (b_cmds (fd_code fd)) + 3 | None => 1 end
  | PMiss => match nth_error tbl (t_fn t) with Some fd => length (b_cmds (fd_code fd)) + 2 | None => 1 end
  | PRun ks _ _ _ _ => length ks + 1
  | PDone _ => 0
  end.

Definition is_done (t : thread) : bool := match t_phase t with PDone _ => true | _ => false end.
