(* C18 — proofs about the cache / history model (Cache.v). *)
From Coq Require Import ZArith List Bool Arith Lia.
From FpyV Require Import Runtime.Boundary Runtime.BoundaryProofs Runtime.Cache.
Import ListNotations.
Open Scope nat_scope.

Definition orel {A B} (P : A -> B -> Prop) (x : option A) (y : option B) : Prop :=
  match x, y with Some a, Some b => P a b | None, None => True | _, _ => False end.

Lemma Forall2_nth : forall A B (P : A -> B -> Prop) l l' i, Forall2 P l l' ->
  orel P (nth_error l i) (nth_error l' i).
Proof.
  intros A B P l l' i H. revert i. induction H as [|x y l l' Hxy H IH]; intros [|i]; cbn; auto.
Qed.

Lemma Forall2_upd : forall A B (P : A -> B -> Prop) l l' i x y, Forall2 P l l' -> P x y ->
  orel (Forall2 P) (upd_nth l i x) (upd_nth l' i y).
Proof.
  intros A B P l l' i x y H Hxy. revert i. induction H as [|a b l l' Hab H IH]; intros [|i]; cbn; auto.
  specialize (IH i). destruct (upd_nth l i x), (upd_nth l' i y); cbn in *; auto.
Qed.

Lemma Forall2_len : forall A B (P : A -> B -> Prop) l l', Forall2 P l l' -> length l = length l'.
Proof. intros A B P l l' H. induction H; cbn; auto. Qed.

Lemma upd_nth_some : forall A (l : list A) n x, n < length l -> exists l', upd_nth l n x = Some l'.
Proof.
  induction l as [|y r IH]; intros n x H; cbn in *; [lia|]. destruct n; eauto.
  destruct (IH n x) as [r' E]; [lia|]. rewrite E. eauto.
Qed.

(* ================================================================ simulation up to a renaming R of
   interpreter locations *)
Section Sim.
Variable R : nat -> nat -> Prop.
Hypothesis Rfun : forall a b b', R a b -> R a b' -> b = b'.
Hypothesis Rinj : forall a a' b, R a b -> R a' b -> a = a'.

Fixpoint vrel (v v' : val) {struct v} : Prop :=
  match v, v' with
  | VNum z, VNum z' => z = z'
  | VTup l, VTup l' =>
      (fix go (l l' : list val) {struct l} : Prop :=
         match l, l' with
         | [], [] => True
         | x :: r, x' :: r' => vrel x x' /\ go r r'
         | _, _ => False
         end) l l'
  | VRef Interp a, VRef Interp b => R a b
  | _, _ => False
  end.

Lemma vrel_tup : forall l l', vrel (VTup l) (VTup l') <-> Forall2 vrel l l'.
Proof.
  intros l. cbn. induction l as [|x r IH]; intros [|x' r'].
  - split; auto.
  - split; [intros []|intros H; inversion H].
  - split; [intros []|intros H; inversion H].
  - split.
    + intros [H1 H2]. constructor; auto. apply IH; auto.
    + intros H. inversion H; subst. split; auto. apply IH; auto.
Qed.

Lemma vrel_inv : forall v v', vrel v v' ->
  (exists z, v = VNum z /\ v' = VNum z) \/
  (exists l l', v = VTup l /\ v' = VTup l' /\ Forall2 vrel l l') \/
  (exists a b, v = VRef Interp a /\ v' = VRef Interp b /\ R a b).
Proof.
  intros v v' H. destruct v as [z|l|sd a], v' as [z'|l'|sd' a']; try (cbn in H; contradiction);
    try (destruct sd; cbn in H; contradiction).
  - left. cbn in H. subst. eauto.
  - right; left. apply vrel_tup in H. eauto.
  - right; right. destruct sd; [cbn in H; contradiction|]. destruct sd'; [cbn in H; contradiction|]. cbn in H. eauto.
Qed.

Definition rrel (rA rB : regs) : Prop := forall x, orel vrel (rA x) (rB x).

Definition srel (sA sB : store) : Prop :=
  (forall a b, R a b -> (a < length sA <-> b < length sB)) /\
  (forall a b ca, R a b -> nth_error sA a = Some ca ->
     exists cb, nth_error sB b = Some cb /\ Forall2 vrel ca cb) /\
  (forall k, R (length sA + k) (length sB + k)).

Definition wrel (wA wB : world) : Prop := srel (wI wA) (wI wB).

Lemma srel_rd : forall sA sB a b, srel sA sB -> R a b ->
  orel (Forall2 vrel) (nth_error sA a) (nth_error sB b).
Proof.
  intros sA sB a b (H1 & H2 & _) Hab.
  destruct (nth_error sA a) as [ca|] eqn:EA.
  - destruct (H2 _ _ _ Hab EA) as (cb & -> & Hc). exact Hc.
  - apply nth_error_None in EA. destruct (nth_error sB b) eqn:EB; cbn; auto.
    assert (b < length sB) by (apply nth_error_Some; congruence).
    apply (H1 _ _ Hab) in H. lia.
Qed.

Lemma srel_app : forall sA sB eA eB, srel sA sB -> Forall2 (Forall2 vrel) eA eB ->
  srel (sA ++ eA) (sB ++ eB).
Proof.
  intros sA sB eA eB (H1 & H2 & H3) He.
  assert (Hlen : length eA = length eB) by (eapply Forall2_len; eauto).
  split; [|split].
  - intros a b Hab. rewrite !app_length. split; intros Hlt.
    + destruct (lt_dec a (length sA)) as [Hl|Hl]; [apply (H1 _ _ Hab) in Hl; lia|].
      pose proof (H3 (a - length sA)) as Hk. replace (length sA + (a - length sA)) with a in Hk by lia.
      rewrite (Rfun _ _ _ Hab Hk). lia.
    + destruct (lt_dec b (length sB)) as [Hl|Hl]; [apply (H1 _ _ Hab) in Hl; lia|].
      pose proof (H3 (b - length sB)) as Hk. replace (length sB + (b - length sB)) with b in Hk by lia.
      rewrite (Rinj _ _ _ Hab Hk). lia.
  - intros a b ca Hab Ha.
    destruct (lt_dec a (length sA)) as [Hl|Hl].
    + rewrite nth_error_app1 in Ha by auto. destruct (H2 _ _ _ Hab Ha) as (cb & Hb & Hc).
      exists cb. split; auto. rewrite nth_error_app1; auto. apply nth_error_Some. congruence.
    + rewrite nth_error_app2 in Ha by lia.
      pose proof (H3 (a - length sA)) as Hk. replace (length sA + (a - length sA)) with a in Hk by lia.
      rewrite (Rfun _ _ _ Hab Hk). rewrite nth_error_app2 by lia.
      replace (length sB + (a - length sA) - length sB) with (a - length sA) by lia.
      pose proof (Forall2_nth _ _ _ _ _ (a - length sA) He) as Hn. rewrite Ha in Hn.
      destruct (nth_error eB (a - length sA)) as [cb|]; cbn in Hn; [|contradiction]. eauto.
  - intros k. rewrite !app_length. rewrite <- !Nat.add_assoc. rewrite Hlen. apply H3.
Qed.

Lemma srel_upd : forall sA sB a b ca cb sA' sB', srel sA sB -> R a b -> Forall2 vrel ca cb ->
  upd_nth sA a ca = Some sA' -> upd_nth sB b cb = Some sB' -> srel sA' sB'.
Proof.
  intros sA sB a b ca cb sA' sB' (H1 & H2 & H3) Hab Hc EA EB.
  destruct (upd_nth_spec _ _ _ _ _ EA) as (LA & AtA & OthA).
  destruct (upd_nth_spec _ _ _ _ _ EB) as (LB & AtB & OthB).
  split; [|split].
  - intros x y Hxy. rewrite LA, LB. auto.
  - intros x y cx Hxy Hx. destruct (Nat.eq_dec x a) as [->|Hne].
    + rewrite (Rfun _ _ _ Hxy Hab). rewrite AtA in Hx. inversion Hx; subst. eauto.
    + assert (y <> b) by (intros ->; apply Hne; eapply Rinj; eauto).
      rewrite OthA in Hx by auto. rewrite OthB by auto. eauto.
  - intros k. rewrite LA, LB. auto.
Qed.

Lemma rrel_rset : forall rA rB d v v', rrel rA rB -> vrel v v' -> rrel (rset rA d v) (rset rB d v').
Proof. intros rA rB d v v' H Hv x. unfold rset. destruct (Nat.eqb x d); cbn; auto; try apply H. Qed.

Lemma oval_rel : forall rA rB o, rrel rA rB -> orel vrel (oval rA o) (oval rB o).
Proof. intros rA rB [x|z] H; cbn; auto; try apply H. Qed.

Lemma onum_rel : forall rA rB o, rrel rA rB -> onum rA o = onum rB o.
Proof.
  intros rA rB o H. unfold onum. pose proof (oval_rel _ _ o H) as Ho.
  destruct (oval rA o) as [v|], (oval rB o) as [v'|]; cbn in Ho; try contradiction; auto.
  destruct (vrel_inv _ _ Ho) as [(z & -> & ->)|[(l & l' & -> & -> & _)|(a & b & -> & -> & _)]]; auto.
Qed.

Lemma map_oval_rel : forall rA rB os, rrel rA rB ->
  orel (Forall2 vrel) (map_opt (oval rA) os) (map_opt (oval rB) os).
Proof.
  intros rA rB os H. induction os as [|o r IH]; cbn; auto.
  pose proof (oval_rel _ _ o H) as Ho.
  destruct (oval rA o), (oval rB o); cbn in Ho; try contradiction; auto.
  destruct (map_opt (oval rA) r), (map_opt (oval rB) r); cbn in *; try contradiction; auto.
Qed.

Definition xrel (x y : option (regs * world * list (side * nat))) : Prop :=
  orel (fun p q => rrel (fst (fst p)) (fst (fst q)) /\ wrel (snd (fst p)) (snd (fst q))) x y.

Lemma exec_cmd_sim : forall c k rA rB wA wB, rrel rA rB -> wrel wA wB ->
  xrel (exec_cmd c rA wA k) (exec_cmd c rB wB k).
Proof.
  intros c k rA rB wA wB Hr Hw. unfold xrel.
  destruct k as [d o|d os|d os|d x i|x i o|d a b|d a]; cbn [exec_cmd].
  - pose proof (oval_rel _ _ o Hr) as Ho.
    destruct (oval rA o), (oval rB o); cbn in *; try contradiction; auto. split; auto. apply rrel_rset; auto.
  - pose proof (map_oval_rel _ _ os Hr) as Ho.
    destruct (map_opt (oval rA) os), (map_opt (oval rB) os); cbn in *; try contradiction; auto. split.
    + apply rrel_rset; auto. cbn. destruct Hw as (_ & _ & H3). specialize (H3 0). rewrite !Nat.add_0_r in H3. auto.
    + unfold wrel; cbn. apply srel_app; auto.
  - pose proof (map_oval_rel _ _ os Hr) as Ho.
    destruct (map_opt (oval rA) os), (map_opt (oval rB) os); cbn in *; try contradiction; auto. split; auto.
    apply rrel_rset; auto. apply vrel_tup; auto.
  - pose proof (Hr x) as Hx.
    destruct (rA x) as [v|], (rB x) as [v'|]; cbn in Hx; try contradiction; cbn; auto.
    destruct (vrel_inv _ _ Hx) as [(z & -> & ->)|[(l & l' & -> & -> & Hl)|(a & a' & -> & -> & Hab)]]; cbn; auto.
    + pose proof (Forall2_nth _ _ _ _ _ i Hl) as Hn.
      destruct (nth_error l i), (nth_error l' i); cbn in *; try contradiction; auto. split; auto. apply rrel_rset; auto.
    + unfold rd; cbn. pose proof (srel_rd _ _ _ _ Hw Hab) as Hc.
      destruct (nth_error (wI wA) a) as [ca|], (nth_error (wI wB) a') as [cb|]; cbn in Hc; try contradiction; cbn; auto.
      pose proof (Forall2_nth _ _ _ _ _ i Hc) as Hn.
      destruct (nth_error ca i), (nth_error cb i); cbn in *; try contradiction; auto. split; auto. apply rrel_rset; auto.
  - pose proof (Hr x) as Hx. pose proof (oval_rel _ _ o Hr) as Ho.
    destruct (rA x) as [u|], (rB x) as [u'|]; cbn in Hx; try contradiction; cbn; auto.
    destruct (vrel_inv _ _ Hx) as [(z & -> & ->)|[(l & l' & -> & -> & Hl)|(a & a' & -> & -> & Hab)]]; cbn; auto;
      try (destruct (oval rA o), (oval rB o); cbn in *; try contradiction; exact I).
    destruct (oval rA o) as [v|], (oval rB o) as [v'|]; cbn in Ho; try contradiction; cbn; auto.
    unfold rd; cbn. pose proof (srel_rd _ _ _ _ Hw Hab) as Hc.
    destruct (nth_error (wI wA) a) as [ca|] eqn:EA, (nth_error (wI wB) a') as [cb|] eqn:EB; cbn in Hc; try contradiction; cbn; auto.
    pose proof (Forall2_upd _ _ _ _ _ i _ _ Hc Ho) as Hu.
    destruct (upd_nth ca i v) as [ca'|], (upd_nth cb i v') as [cb'|]; cbn in Hu; try contradiction; cbn; auto.
    destruct (upd_nth_some _ (wI wA) a ca') as [sA' EsA]; [apply nth_error_Some; congruence|].
    destruct (upd_nth_some _ (wI wB) a' cb') as [sB' EsB]; [apply nth_error_Some; congruence|].
    rewrite EsA, EsB. cbn. split; auto. unfold wrel; cbn. eapply srel_upd; eauto.
  - rewrite (onum_rel _ _ a Hr), (onum_rel _ _ b Hr).
    destruct (onum rB a), (onum rB b); cbn; auto. split; auto. apply rrel_rset; auto. cbn. reflexivity.
  - rewrite (onum_rel _ _ a Hr). destruct (onum rB a); cbn; auto. split; auto. apply rrel_rset; auto. cbn. reflexivity.
Qed.

Lemma exec_sim : forall c ks rA rB wA wB logA logB, rrel rA rB -> wrel wA wB ->
  wrel (fst (fst (exec c ks rA wA logA))) (fst (fst (exec c ks rB wB logB))) /\
  orel rrel (snd (exec c ks rA wA logA)) (snd (exec c ks rB wB logB)).
Proof.
  intros c ks. induction ks as [|k ks IH]; intros rA rB wA wB logA logB Hr Hw; cbn [exec].
  - cbn. auto.
  - pose proof (exec_cmd_sim c k _ _ _ _ Hr Hw) as Hx. unfold xrel in Hx.
    destruct (exec_cmd c rA wA k) as [[[rA' wA'] wrA]|], (exec_cmd c rB wB k) as [[[rB' wB'] wrB]|];
      cbn in Hx; try contradiction.
    + destruct Hx. apply IH; auto.
    + cbn. auto.
Qed.

Lemma map_opt_rel_eq : forall A (g h : val -> option A) l l', Forall2 vrel l l' ->
  (forall x x', vrel x x' -> g x = h x') -> map_opt g l = map_opt h l'.
Proof.
  intros A g h l l' H Hgh. induction H as [|x x' l l' Hx H IH]; cbn; auto.
  rewrite (Hgh _ _ Hx). rewrite IH. reflexivity.
Qed.

Lemma snap_rel : forall wA wB, wrel wA wB -> forall fuel v v', vrel v v' -> snap fuel wA v = snap fuel wB v'.
Proof.
  intros wA wB Hw. induction fuel as [|f IH]; intros v v' Hv; cbn; auto.
  destruct (vrel_inv _ _ Hv) as [(z & -> & ->)|[(l & l' & -> & -> & Hl)|(a & a' & -> & -> & Hab)]]; auto.
  - rewrite (map_opt_rel_eq _ (snap f wA) (snap f wB) l l'); auto.
  - unfold rd; cbn. pose proof (srel_rd _ _ _ _ Hw Hab) as Hc.
    destruct (nth_error (wI wA) a) as [ca|], (nth_error (wI wB) a') as [cb|]; cbn in Hc; try contradiction; auto.
    rewrite (map_opt_rel_eq _ (snap f wA) (snap f wB) ca cb); auto.
Qed.

(* the same tree rebuilt at two different bases *)
Definition at_rel (p q : nat) (vA : val) (eA : list (list val)) (vB : val) (eB : list (list val)) : Prop :=
  length eA = length eB /\
  ((forall k, k < length eA -> R (p + k) (q + k)) -> vrel vA vB /\ Forall2 (Forall2 vrel) eA eB).

Definition ats_rel (p q : nat) (vA : list val) (eA : list (list val)) (vB : list val) (eB : list (list val)) : Prop :=
  length eA = length eB /\
  ((forall k, k < length eA -> R (p + k) (q + k)) -> Forall2 vrel vA vB /\ Forall2 (Forall2 vrel) eA eB).

Lemma ats_rel_from : forall l,
  Forall (fun t => forall p q vA eA vB eB, alloc_at Interp t p = (vA, eA) -> alloc_at Interp t q = (vB, eB) ->
                   at_rel p q vA eA vB eB) l ->
  forall p q vA eA vB eB, allocs_at Interp l p = (vA, eA) -> allocs_at Interp l q = (vB, eB) ->
                          ats_rel p q vA eA vB eB.
Proof.
  intros l Hl. induction Hl as [|x r Hx Hr IH]; intros p q vA eA vB eB HA HB; cbn in HA, HB.
  - inversion HA; inversion HB; subst. split; auto.
  - destruct (alloc_at Interp x p) as [a1 e1] eqn:E1. destruct (allocs_at Interp r (p + length e1)) as [a2 e2] eqn:E2.
    destruct (alloc_at Interp x q) as [b1 f1] eqn:F1. destruct (allocs_at Interp r (q + length f1)) as [b2 f2] eqn:F2.
    inversion HA; inversion HB; subst.
    destruct (Hx _ _ _ _ _ _ E1 F1) as (L1 & H1). destruct (IH _ _ _ _ _ _ E2 F2) as (L2 & H2).
    split; [rewrite !app_length; lia|]. intros HR. rewrite app_length in HR.
    destruct H1 as (Hv1 & He1); [intros k Hk; apply HR; lia|].
    destruct H2 as (Hv2 & He2).
    { intros k Hk. rewrite <- L1. rewrite <- !Nat.add_assoc. apply HR. lia. }
    split; [constructor; auto|]. apply Forall2_app; auto.
Qed.

Lemma alloc_at_rel : forall t p q vA eA vB eB,
  alloc_at Interp t p = (vA, eA) -> alloc_at Interp t q = (vB, eB) -> at_rel p q vA eA vB eB.
Proof.
  induction t as [z|l IH|l IH] using tree_ind'; intros p q vA eA vB eB HA HB.
  - cbn in HA, HB. inversion HA; inversion HB; subst. split; auto. intros _. split; cbn; auto.
  - rewrite alloc_at_tup in HA, HB.
    destruct (allocs_at Interp l p) as [a e] eqn:EA. destruct (allocs_at Interp l q) as [b f] eqn:EB.
    inversion HA; inversion HB; subst. destruct (ats_rel_from l IH _ _ _ _ _ _ EA EB) as (L & H).
    split; auto. intros HR. destruct (H HR). split; auto. apply vrel_tup; auto.
  - rewrite alloc_at_list in HA, HB.
    destruct (allocs_at Interp l p) as [a e] eqn:EA. destruct (allocs_at Interp l q) as [b f] eqn:EB.
    inversion HA; inversion HB; subst. destruct (ats_rel_from l IH _ _ _ _ _ _ EA EB) as (L & H).
    split; [rewrite !app_length; cbn; lia|]. intros HR. rewrite app_length in HR; cbn in HR.
    destruct H as (Hv & He); [intros k Hk; apply HR; lia|]. split.
    + cbn. rewrite <- L. apply HR. lia.
    + apply Forall2_app; auto.
Qed.

Lemma allocs_at_rel : forall l p q vA eA vB eB,
  allocs_at Interp l p = (vA, eA) -> allocs_at Interp l q = (vB, eB) -> ats_rel p q vA eA vB eB.
Proof.
  intros l. apply ats_rel_from. apply Forall_forall. intros t _. apply alloc_at_rel.
Qed.

Lemma init_regs_rel : forall l l', Forall2 vrel l l' -> rrel (init_regs l) (init_regs l').
Proof. intros l l' H x. unfold init_regs. apply Forall2_nth; auto. Qed.

(* running the same code on related captured values and the same argument trees *)
Lemma invoke_sim : forall fuel c code capsA capsB bA lA bB lB sA sB ts,
  srel sA sB -> Forall2 vrel capsA capsB ->
  snd (invoke fuel c (mkEntry code capsA bA lA) sA ts) = snd (invoke fuel c (mkEntry code capsB bB lB) sB ts).
Proof.
  intros fuel c code capsA capsB bA lA bB lB sA sB ts Hs Hcaps. unfold invoke, invoke_val, alloc_trees. cbn [ce_code ce_caps].
  destruct (allocs_at Interp ts (length sA)) as [aA eA] eqn:EA.
  destruct (allocs_at Interp ts (length sB)) as [aB eB] eqn:EB.
  destruct (allocs_at_rel _ _ _ _ _ _ _ EA EB) as (L & H).
  destruct H as (Ha & He); [intros k _; apply Hs|].
  assert (Hs1 : srel (sA ++ eA) (sB ++ eB)) by (apply srel_app; auto).
  unfold apply_body.
  pose proof (exec_sim c (b_cmds code) (init_regs (aA ++ capsA)) (init_regs (aB ++ capsB))
                (mkW [] (sA ++ eA)) (mkW [] (sB ++ eB)) [] []) as Hex.
  destruct Hex as (Hw2 & Hr2); [apply init_regs_rel; apply Forall2_app; auto|exact Hs1|].
  destruct (exec c (b_cmds code) (init_regs (aA ++ capsA)) (mkW [] (sA ++ eA)) []) as [[wA2 logA] roA].
  destruct (exec c (b_cmds code) (init_regs (aB ++ capsB)) (mkW [] (sB ++ eB)) []) as [[wB2 logB] roB].
  cbn in *. destruct roA as [rA|], roB as [rB|]; cbn in Hr2; try contradiction; auto.
  pose proof (oval_rel _ _ (b_ret code) Hr2) as Ho.
  destruct (oval rA (b_ret code)), (oval rB (b_ret code)); cbn in Ho; try contradiction; auto.
  apply snap_rel; auto.
Qed.

End Sim.

(* ================================================================ the concrete renaming:
   captured region [cA, cA+m) <-> [cB, cB+m), everything from nA on <-> from nB on *)
Definition R2 (cA cB m nA nB : nat) : nat -> nat -> Prop :=
  fun a b => (cA <= a < cA + m /\ b + cA = a + cB) \/ (nA <= a /\ b + nA = a + nB).

Lemma R2_fun : forall cA cB m nA nB, cA + m <= nA ->
  forall a b b', R2 cA cB m nA nB a b -> R2 cA cB m nA nB a b' -> b = b'.
Proof. unfold R2. intros. lia. Qed.

Lemma R2_inj : forall cA cB m nA nB, cA + m <= nA -> cB + m <= nB ->
  forall a a' b, R2 cA cB m nA nB a b -> R2 cA cB m nA nB a' b -> a = a'.
Proof. unfold R2. intros. lia. Qed.

Definition cells_of (fd : funcdef) (e : centry) : list (list val) :=
  snd (allocs_at Interp (fd_env fd) (ce_base e)).

(* the captured copies still hold what compile put there *)
Definition intact (fd : funcdef) (e : centry) (s : store) : Prop :=
  forall j c, nth_error (cells_of fd e) j = Some c -> nth_error s (ce_base e + j) = Some c.

Definition entry_ok (tbl : list funcdef) (s : store) (k : nat) (e : centry) : Prop :=
  exists fd, nth_error tbl k = Some fd /\ ce_code e = fd_code fd /\
             ce_caps e = fst (allocs_at Interp (fd_env fd) (ce_base e)) /\
             ce_len e = length (cells_of fd e) /\ ce_base e + ce_len e <= length s.

(* the cache invariant: "entry = compile key" *)
Definition state_ok (tbl : list funcdef) (st : istate) : Prop :=
  forall k e, In (k, e) (st_cache st) -> entry_ok tbl (st_store st) k e.

Definition all_intact (tbl : list funcdef) (st : istate) : Prop :=
  forall k e fd, In (k, e) (st_cache st) -> nth_error tbl k = Some fd -> intact fd e (st_store st).

Lemma lookup_In : forall k c e, lookup k c = Some e -> In (k, e) c.
Proof.
  induction c as [|[k' e'] r IH]; intros e H; cbn in H; [discriminate|].
  destruct (Nat.eqb k k') eqn:E.
  - apply Nat.eqb_eq in E. inversion H; subst. left; reflexivity.
  - right. auto.
Qed.

Lemma snd_let3 : forall A B C D (x : A * B * C) (f : A -> D), snd (let '(a, b, c) := x in (f a, b, c)) = snd x.
Proof. intros A B C D [[a b] c] f. reflexivity. Qed.

Lemma invoke_same : forall fuel c fd eA eB sA sB ts,
  ce_code eA = ce_code eB ->
  ce_caps eA = fst (allocs_at Interp (fd_env fd) (ce_base eA)) ->
  ce_caps eB = fst (allocs_at Interp (fd_env fd) (ce_base eB)) ->
  intact fd eA sA -> intact fd eB sB ->
  ce_base eA + length (cells_of fd eA) <= length sA ->
  ce_base eB + length (cells_of fd eB) <= length sB ->
  snd (invoke fuel c eA sA ts) = snd (invoke fuel c eB sB ts).
Proof.
  intros fuel c fd [codeA capsA cA lA] [codeB capsB cB lB] sA sB ts Hcode HcA HcB HiA HiB HlA HlB.
  unfold intact, cells_of in *. cbn [ce_code ce_caps ce_base] in *. subst codeB.
  destruct (allocs_at Interp (fd_env fd) cA) as [vA cellsA] eqn:EA.
  destruct (allocs_at Interp (fd_env fd) cB) as [vB cellsB] eqn:EB. cbn [fst snd] in *. subst capsA capsB.
  set (m := length cellsA).
  set (R := R2 cA cB m (length sA) (length sB)).
  destruct (allocs_at_rel R _ _ _ _ _ _ _ EA EB) as (Hlen & Hrel).
  destruct Hrel as (Hv & He).
  { intros k Hk. unfold R, R2. left. fold m in Hk. lia. }
  fold m in HlA. assert (HlB' : cB + m <= length sB) by (unfold m; rewrite Hlen; auto).
  apply (invoke_sim R).
  - apply R2_fun. auto.
  - apply R2_inj; auto.
  - split; [|split].
    + intros a b Hab. unfold R, R2 in Hab. lia.
    + intros a b ca Hab Ha.
      assert (a < length sA) by (apply nth_error_Some; congruence).
      unfold R, R2 in Hab. destruct Hab as [[Hr Hb]|[Hr Hb]]; [|lia].
      pose proof (Forall2_nth _ _ _ _ _ (a - cA) He) as Hn.
      destruct (nth_error cellsA (a - cA)) as [c1|] eqn:E1.
      2:{ apply nth_error_None in E1. fold m in E1. lia. }
      destruct (nth_error cellsB (a - cA)) as [c2|] eqn:E2; cbn in Hn; [|contradiction].
      apply HiA in E1. apply HiB in E2.
      replace (cA + (a - cA)) with a in E1 by lia. replace (cB + (a - cA)) with b in E2 by lia.
      exists c2. split; auto. congruence.
    + intros k. unfold R, R2. right. lia.
  - exact Hv.
Qed.

Lemma compile_entry : forall fd s e s', compile fd s = (e, s') ->
  ce_code e = fd_code fd /\ ce_base e = length s /\
  ce_caps e = fst (allocs_at Interp (fd_env fd) (length s)) /\
  s' = s ++ snd (allocs_at Interp (fd_env fd) (length s)) /\
  ce_len e = length (snd (allocs_at Interp (fd_env fd) (length s))).
Proof.
  intros fd s e s' H. unfold compile in H.
  destruct (allocs_at Interp (fd_env fd) (length s)) as [caps cells]. inversion H; subst. cbn. auto.
Qed.

Lemma intact_compiled : forall fd s e s', compile fd s = (e, s') -> intact fd e s'.
Proof.
  intros fd s e s' H. destruct (compile_entry _ _ _ _ H) as (_ & Hb & _ & -> & _).
  intros j c Hj. unfold cells_of in Hj. rewrite Hb in *. rewrite nth_error_app2 by lia.
  replace (length s + j - length s) with j by lia. exact Hj.
Qed.

(* C18: one evaluation, from any state whose captured copies of i are intact, returns what it
   returns from the empty state *)
Lemma call_same : forall fuel tbl st i ts c,
  state_ok tbl st ->
  (forall e fd, lookup i (st_cache st) = Some e -> nth_error tbl i = Some fd -> intact fd e (st_store st)) ->
  snd (step_call false false fuel tbl st i ts c) = snd (step_call false false fuel tbl empty_state i ts c).
Proof.
  intros fuel tbl st i ts c Hok Hint. unfold step_call.
  destruct (nth_error tbl i) as [fd|] eqn:Efd; [|reflexivity].
  unfold entry_for, key_of. cbn [st_cache st_store empty_state lookup]. cbv iota.
  destruct (compile fd []) as [eB sB] eqn:EcB.
  destruct (compile_entry _ _ _ _ EcB) as (HcodeB & HbB & HcapsB & HsB & HlB).
  pose proof (intact_compiled _ _ _ _ EcB) as HiB.
  destruct (lookup i (st_cache st)) as [eA|] eqn:ElA.
  - destruct (Hok _ _ (lookup_In _ _ _ ElA)) as (fd' & Efd' & HcodeA & HcapsA & HlA & HbndA).
    assert (fd' = fd) by congruence. subst fd'.
    rewrite !snd_let3.
    apply (invoke_same fuel (func_ctx fd c) fd eA eB _ _ ts).
    + congruence.
    + exact HcapsA.
    + rewrite HbB. exact HcapsB.
    + apply Hint; auto.
    + exact HiB.
    + rewrite <- HlA. exact HbndA.
    + rewrite HsB. unfold cells_of. rewrite HbB. cbn. lia.
  - destruct (compile fd (st_store st)) as [eA sA] eqn:EcA.
    destruct (compile_entry _ _ _ _ EcA) as (HcodeA & HbA & HcapsA & HsA & HlA).
    pose proof (intact_compiled _ _ _ _ EcA) as HiA.
    rewrite !snd_let3.
    apply (invoke_same fuel (func_ctx fd c) fd eA eB _ _ ts).
    + congruence.
    + rewrite HbA. exact HcapsA.
    + rewrite HbB. exact HcapsB.
    + exact HiA.
    + exact HiB.
    + rewrite HsA. unfold cells_of. rewrite HbA. rewrite app_length. lia.
    + rewrite HsB. unfold cells_of. rewrite HbB. cbn. lia.
Qed.

(* ================================================================ frame: what a step can change *)
Lemma exec_cmd_frame : forall c r w k r' w' wr, exec_cmd c r w k = Some (r', w', wr) ->
  length (wI w) <= length (wI w') /\
  (forall a cell, ~ In (Interp, a) wr -> nth_error (wI w) a = Some cell -> nth_error (wI w') a = Some cell).
Proof.
  intros c r w k r' w' wr H.
  destruct k as [d o|d os|d os|d x i|x i o|d a b|d a]; cbn in H.
  - destruct (oval r o); inversion H; subst. auto.
  - destruct (map_opt (oval r) os); inversion H; subst. cbn. rewrite app_length. split; [lia|].
    intros a cell _ Ha. rewrite nth_error_app1; auto. apply nth_error_Some. congruence.
  - destruct (map_opt (oval r) os); inversion H; subst. auto.
  - destruct (r x) as [[z|l|sd a]|]; try discriminate.
    + destruct (nth_error l i); inversion H; subst. auto.
    + destruct (rd w sd a) as [cell|]; [|discriminate]. destruct (nth_error cell i); inversion H; subst. auto.
  - destruct (r x) as [[z|l|sd a]|]; try (destruct (oval r o); discriminate).
    destruct (oval r o) as [v|]; [|discriminate].
    destruct (rd w sd a) as [cell|]; [|discriminate].
    destruct (upd_nth cell i v) as [cell'|]; [|discriminate].
    destruct (upd_nth (sto w sd) a cell') as [s'|] eqn:Eu; [|discriminate]. inversion H; subst; clear H.
    destruct (upd_nth_spec _ _ _ _ _ Eu) as (Hlen & _ & Hoth).
    destruct sd; cbn in *; [auto|]. split; [lia|].
    intros b cellb Hb Hn. rewrite Hoth; auto; intros ->; apply Hb; left; reflexivity.
  - destruct (onum r a); [|discriminate]. destruct (onum r b); inversion H; subst. auto.
  - destruct (onum r a); inversion H; subst. auto.
Qed.

Lemma exec_frame : forall c ks r w log w' log' ro, exec c ks r w log = (w', log', ro) ->
  length (wI w) <= length (wI w') /\ (forall x, In x log -> In x log') /\
  (forall a cell, ~ In (Interp, a) log' -> nth_error (wI w) a = Some cell -> nth_error (wI w') a = Some cell).
Proof.
  intros c ks. induction ks as [|k ks IH]; intros r w log w' log' ro H; cbn in H.
  - inversion H; subst. auto.
  - destruct (exec_cmd c r w k) as [[[r1 w1] wr]|] eqn:E; [|inversion H; subst; auto].
    destruct (exec_cmd_frame _ _ _ _ _ _ _ E) as (L1 & F1).
    destruct (IH _ _ _ _ _ _ H) as (L2 & S2 & F2).
    split; [lia|]. split; [intros x Hx; apply S2; apply in_or_app; auto|].
    intros a cell Hn Ha. apply F2; auto. apply F1; auto.
    intros Hin. apply Hn. apply S2. apply in_or_app. auto.
Qed.

Lemma ilog_In : forall log a, In a (ilog log) <-> In (Interp, a) log.
Proof.
  intros log a. unfold ilog. rewrite in_flat_map. split.
  - intros ([sd b] & Hin & Hb). destruct sd; cbn in Hb; [contradiction|]. destruct Hb as [->|[]]. exact Hin.
  - intros H. exists (Interp, a). split; auto. cbn. auto.
Qed.

Lemma invoke_frame : forall fuel c e s ts s' log o, invoke fuel c e s ts = (s', log, o) ->
  length s <= length s' /\
  (forall a cell, ~ In a log -> nth_error s a = Some cell -> nth_error s' a = Some cell).
Proof.
  intros fuel c e s ts s' log o H. unfold invoke, invoke_val, alloc_trees, apply_body in H.
  destruct (allocs_at Interp ts (length s)) as [args ext].
  destruct (exec c (b_cmds (ce_code e)) (init_regs (args ++ ce_caps e)) (mkW [] (s ++ ext)) []) as [[w2 lg] ro] eqn:E.
  inversion H; subst; clear H.
  destruct (exec_frame _ _ _ _ _ _ _ _ E) as (L & _ & F). cbn in L, F. rewrite app_length in L.
  split; [lia|]. intros a cell Hn Ha. apply F.
  - intros Hin. apply Hn. apply ilog_In. exact Hin.
  - rewrite nth_error_app1; auto. apply nth_error_Some. congruence.
Qed.

(* ================================================================ invariants along a history *)
Lemma entry_ok_mono : forall tbl s s' k e, entry_ok tbl s k e -> length s <= length s' -> entry_ok tbl s' k e.
Proof. intros tbl s s' k e (fd & A & B & C & D & E) L. exists fd. repeat split; auto. lia. Qed.

Lemma step_ok : forall fuel tbl st ev st' log o,
  state_ok tbl st -> step false false fuel tbl st ev = (st', log, o) -> state_ok tbl st'.
Proof.
  intros fuel tbl st ev st' log o Hok H. destruct ev as [i ts c|a i z]; cbn in H.
  - unfold step_call in H. destruct (nth_error tbl i) as [fd|] eqn:Efd; [|inversion H; subst; auto].
    unfold entry_for, key_of in H. cbv iota in H.
    destruct (lookup i (st_cache st)) as [e|] eqn:El.
    + destruct (invoke fuel (func_ctx fd c) e (st_store st) ts) as [[s2 lg] res] eqn:Ei. inversion H; subst; clear H.
      destruct (invoke_frame _ _ _ _ _ _ _ _ Ei) as (L & _).
      intros k e' Hin. cbn in *. eapply entry_ok_mono; eauto.
    + destruct (compile fd (st_store st)) as [e s1] eqn:Ec.
      destruct (invoke fuel (func_ctx fd c) e s1 ts) as [[s2 lg] res] eqn:Ei. inversion H; subst; clear H.
      destruct (invoke_frame _ _ _ _ _ _ _ _ Ei) as (L & _).
      destruct (compile_entry _ _ _ _ Ec) as (Hcode & Hb & Hcaps & Hs1 & Hl).
      intros k e' Hin. cbn in Hin. destruct Hin as [Heq|Hin].
      * inversion Heq; subst k e'. exists fd. unfold cells_of. rewrite Hb. repeat split; auto.
        cbn. rewrite Hl. rewrite Hs1 in L. rewrite app_length in L. lia.
      * cbn. eapply entry_ok_mono; [apply Hok; exact Hin|]. rewrite Hs1 in L. rewrite app_length in L. lia.
  - destruct (nth_error (st_store st) a) as [cell|]; [|inversion H; subst; auto].
    destruct (upd_nth cell i (VNum z)) as [cell'|]; [|inversion H; subst; auto].
    destruct (upd_nth (st_store st) a cell') as [s'|] eqn:Eu; inversion H; subst; auto.
    destruct (upd_nth_spec _ _ _ _ _ Eu) as (Hlen & _ & _).
    intros k e Hin. cbn in *. eapply entry_ok_mono; eauto. lia.
Qed.

Theorem cache_inv_reachable_from : forall fuel tbl hist st, state_ok tbl st -> state_ok tbl (run_hist false false fuel tbl st hist).
Proof.
  intros fuel tbl. induction hist as [|ev r IH]; intros st Hok; cbn; auto.
  destruct (step false false fuel tbl st ev) as [[st' lg] o] eqn:E. cbn. apply IH. eapply step_ok; eauto.
Qed.

Lemma state_ok_empty : forall tbl, state_ok tbl empty_state.
Proof. intros tbl k e []. Qed.

(* every reachable state of the identity-keyed cache satisfies "entry = compile key" *)
Theorem cache_inv_reachable : forall fuel tbl hist, state_ok tbl (run_hist false false fuel tbl empty_state hist).
Proof. intros. apply cache_inv_reachable_from. apply state_ok_empty. Qed.

Lemma hits_in : forall c k e a, In (k, e) c -> in_region e a = true -> hits c a = true.
Proof. intros c k e a Hin Hr. unfold hits. apply existsb_exists. exists (k, e). auto. Qed.

Lemma clean_not_in : forall c log k e a,
  forallb (fun a => negb (hits c a)) log = true -> In (k, e) c -> in_region e a = true -> ~ In a log.
Proof.
  intros c log k e a Hcl Hin Hr Ha. rewrite forallb_forall in Hcl. specialize (Hcl _ Ha).
  rewrite (hits_in _ _ _ _ Hin Hr) in Hcl. discriminate.
Qed.

Lemma region_of_cell : forall fd e j c, ce_len e = length (cells_of fd e) ->
  nth_error (cells_of fd e) j = Some c -> in_region e (ce_base e + j) = true.
Proof.
  intros fd e j c Hl Hj. assert (j < length (cells_of fd e)) by (apply nth_error_Some; congruence).
  unfold in_region. apply andb_true_iff. split; [apply Nat.leb_le|apply Nat.ltb_lt]; lia.
Qed.

Lemma step_intact : forall fuel tbl st ev st' log o,
  state_ok tbl st -> all_intact tbl st -> step false false fuel tbl st ev = (st', log, o) ->
  forallb (fun a => negb (hits (st_cache st') a)) log = true -> all_intact tbl st'.
Proof.
  intros fuel tbl st ev st' log o Hok Hint H Hcl.
  pose proof (step_ok _ _ _ _ _ _ _ Hok H) as Hok'.
  destruct ev as [i ts c|a i z]; cbn in H.
  - unfold step_call in H. destruct (nth_error tbl i) as [fd|] eqn:Efd; [|inversion H; subst; auto].
    unfold entry_for, key_of in H. cbv iota in H.
    destruct (lookup i (st_cache st)) as [e|] eqn:El.
    + destruct (invoke fuel (func_ctx fd c) e (st_store st) ts) as [[s2 lg] res] eqn:Ei. inversion H; subst; clear H.
      destruct (invoke_frame _ _ _ _ _ _ _ _ Ei) as (_ & F). cbn [st_cache st_store] in *.
      intros k e' fd' Hin Hfd' j cj Hj. cbn. apply F; [|eapply Hint; eauto].
      destruct (Hok' _ _ Hin) as (fd2 & E2 & _ & _ & Hl2 & _). assert (fd2 = fd') by congruence. subst fd2.
      eapply clean_not_in; eauto. eapply region_of_cell; eauto.
    + destruct (compile fd (st_store st)) as [e s1] eqn:Ec.
      destruct (invoke fuel (func_ctx fd c) e s1 ts) as [[s2 lg] res] eqn:Ei. inversion H; subst; clear H.
      destruct (invoke_frame _ _ _ _ _ _ _ _ Ei) as (_ & F). cbn [st_cache st_store] in *.
      destruct (compile_entry _ _ _ _ Ec) as (_ & _ & _ & Hs1 & _).
      intros k e' fd' Hin Hfd' j cj Hj. cbn.
      assert (Hnl : ~ In (ce_base e' + j) log).
      { destruct (Hok' _ _ Hin) as (fd2 & E2 & _ & _ & Hl2 & _). assert (fd2 = fd') by congruence. subst fd2.
        eapply clean_not_in; eauto. eapply region_of_cell; eauto. }
      apply F; auto. destruct Hin as [Heq|Hin].
      * inversion Heq; subst k e'. assert (fd' = fd) by congruence. subst fd'.
        eapply intact_compiled; eauto.
      * pose proof (Hint _ _ _ Hin Hfd' _ _ Hj) as Hold. rewrite Hs1. rewrite nth_error_app1; auto.
        apply nth_error_Some. congruence.
  - destruct (nth_error (st_store st) a) as [cell|]; [|inversion H; subst; auto].
    destruct (upd_nth cell i (VNum z)) as [cell'|]; [|inversion H; subst; auto].
    destruct (upd_nth (st_store st) a cell') as [s'|] eqn:Eu; inversion H; subst; auto. clear H.
    destruct (upd_nth_spec _ _ _ _ _ Eu) as (_ & _ & Hoth). cbn [st_cache st_store] in *.
    intros k e fd Hin Hfd j cj Hj. cbn. rewrite Hoth; [eapply Hint; eauto|].
    intros Heq. destruct (Hok' _ _ Hin) as (fd2 & E2 & _ & _ & Hl2 & _). assert (fd2 = fd) by congruence. subst fd2.
    eapply (clean_not_in _ [a]); eauto; [eapply region_of_cell; eauto|]. left. auto.
Qed.

Lemma clean_hist_intact : forall fuel tbl hist st,
  state_ok tbl st -> all_intact tbl st -> clean_hist fuel tbl st hist = true ->
  all_intact tbl (run_hist false false fuel tbl st hist).
Proof.
  intros fuel tbl. induction hist as [|ev r IH]; intros st Hok Hint Hcl; cbn in *; auto.
  destruct (step false false fuel tbl st ev) as [[st' lg] o] eqn:E. cbn. apply andb_true_iff in Hcl. destruct Hcl as (H1 & H2).
  apply IH; auto.
  - eapply step_ok; eauto.
  - eapply step_intact; eauto.
Qed.

(* ================================================================ the C18 theorems *)

(* The compiled-function cache never changes a result: evaluating from any reachable
   state gives what a fresh interpreter (empty cache, fresh compile) gives, as long as
   the captured copies of THIS function still hold what compile put there. *)
Theorem cache_transparent : forall fuel tbl hist i ts c,
  (forall e fd, lookup i (st_cache (run_hist false false fuel tbl empty_state hist)) = Some e ->
                nth_error tbl i = Some fd ->
                intact fd e (st_store (run_hist false false fuel tbl empty_state hist))) ->
  result_after false false fuel tbl hist i ts c = result_after false false fuel tbl [] i ts c.
Proof.
  intros fuel tbl hist i ts c Hint. unfold result_after. cbn [run_hist].
  apply call_same; auto. apply cache_inv_reachable.
Qed.

Lemma list_free_tup : forall l, list_free (TTup l) = forallb list_free l.
Proof. intros l. cbn. induction l as [|x r IH]; cbn; auto; try (f_equal; exact IH). Qed.

Lemma allocs_at_list_free_from : forall sd l,
  Forall (fun t => list_free t = true -> forall n, snd (alloc_at sd t n) = []) l ->
  forallb list_free l = true -> forall n, snd (allocs_at sd l n) = [].
Proof.
  intros sd l Hl. induction Hl as [|x r Hx Hr IH]; intros Hf n; cbn; auto.
  cbn in Hf. apply andb_true_iff in Hf. destruct Hf as (H1 & H2).
  specialize (Hx H1 n). destruct (alloc_at sd x n) as [v e1]. cbn in Hx. subst e1.
  specialize (IH H2 (n + 0)). cbn [length]. destruct (allocs_at sd r (n + 0)) as [vs e2]. cbn in *. auto.
Qed.

Lemma alloc_at_list_free : forall sd t, list_free t = true -> forall n, snd (alloc_at sd t n) = [].
Proof.
  intros sd. induction t as [z|l IH|l IH] using tree_ind'; intros Hf n; [reflexivity| |discriminate].
  rewrite list_free_tup in Hf. rewrite alloc_at_tup.
  pose proof (allocs_at_list_free_from sd l IH Hf n) as H. destruct (allocs_at sd l n). cbn in *. auto.
Qed.

Lemma allocs_at_list_free : forall sd l, forallb list_free l = true -> forall n, snd (allocs_at sd l n) = [].
Proof.
  intros sd l. apply allocs_at_list_free_from. apply Forall_forall. intros t _. apply alloc_at_list_free.
Qed.

(* ... in particular, unconditionally, for a function with no list among its free variables:
   ANY history (other functions, other contexts, transformed copies, writes by the caller) *)
Theorem cache_transparent_no_captures : forall fuel tbl hist i ts c,
  (forall fd, nth_error tbl i = Some fd -> forallb list_free (fd_env fd) = true) ->
  result_after false false fuel tbl hist i ts c = result_after false false fuel tbl [] i ts c.
Proof.
  intros fuel tbl hist i ts c Hfree. apply cache_transparent.
  intros e fd _ Hfd j cj Hj. unfold cells_of in Hj.
  rewrite (allocs_at_list_free Interp _ (Hfree _ Hfd)) in Hj. destruct j; discriminate.
Qed.

(* History independence under the hypothesis the code needs: no write (by any function body or
   by the caller, e.g. through a returned captured list) lands in a captured region. *)
Theorem history_independent_partial : forall fuel tbl hist i ts c,
  clean_hist fuel tbl empty_state hist = true ->
  result_after false false fuel tbl hist i ts c = result_after false false fuel tbl [] i ts c.
Proof.
  intros fuel tbl hist i ts c Hcl. apply cache_transparent.
  intros e fd Hl Hfd.
  eapply (clean_hist_intact fuel tbl hist empty_state); eauto.
  - apply state_ok_empty.
  - intros k e' fd' [].
  - apply lookup_In. exact Hl.
Qed.

(* ================================================================ refutations and non-vacuity *)
Open Scope Z_scope.

(* TABLE = [1];  def bump(x): TABLE[0] = TABLE[0] + x; return TABLE[0]      (r0 = x, r1 = TABLE) *)
Definition fn_bump : funcdef :=
  mkFn 1 None [TList [TNum 1]]
       (mkBody [CGet 2 1 0; CAdd 2 (OReg 2) (OReg 0); CSet 1 0 (OReg 2); CGet 3 1 0] (OReg 3)).
(* def get(): return TABLE                                                    (r0 = TABLE) *)
Definition fn_get : funcdef := mkFn 2 None [TList [TNum 1]] (mkBody [] (OReg 0)).
(* def look(x): return TABLE[0] + x          (reads the captured list only) *)
Definition fn_look : funcdef :=
  mkFn 3 None [TList [TNum 10]] (mkBody [CGet 2 1 0; CAdd 2 (OReg 2) (OReg 0)] (OReg 2)).
(* def scale(xs): xs[0] = xs[0] / 2; return xs        (mutates its parameter; context-dependent) *)
Definition fn_scale : funcdef :=
  mkFn 4 None [] (mkBody [CGet 1 0 0; CHalf 1 (OReg 1); CSet 0 0 (OReg 1)] (OReg 0)).
(* f and a transformed copy g with the same name but another body *)
Definition fn_f : funcdef := mkFn 7 None [] (mkBody [CAdd 1 (OReg 0) (ONum 1)] (OReg 1)).
Definition fn_g : funcdef := mkFn 7 None [] (mkBody [CAdd 1 (OReg 0) (ONum 2)] (OReg 1)).

(* DEFECT captured_list_write_persists: the unhypothesised statement is false in the faithful model *)
Example bump_twice :
  run_obs false false 9 [fn_bump] empty_state [ECall 0 [TNum 1] RNE; ECall 0 [TNum 1] RNE]
  = [Some (TNum 2); Some (TNum 3)].
Proof. vm_compute. reflexivity. Qed.

Theorem history_independent_refuted :
  exists fuel tbl hist i ts c,
    result_after false false fuel tbl hist i ts c <> result_after false false fuel tbl [] i ts c.
Proof.
  exists 9%nat, [fn_bump], [ECall 0 [TNum 1] RNE], 0%nat, [TNum 1], RNE. vm_compute. discriminate.
Qed.

(* DEFECT captured_list_returned_shared: get() hands out the interpreter's own list (location 0);
   the caller's write into it is seen by the next call *)
Example get_poke_get :
  run_obs false false 9 [fn_get] empty_state [ECall 0 [] RNE; EPoke 0 0 99; ECall 0 [] RNE]
  = [Some (TList [TNum 1]); None; Some (TList [TNum 99])].
Proof. vm_compute. reflexivity. Qed.

Theorem history_independent_returned_refuted :
  exists fuel tbl hist i ts c,
    result_after false false fuel tbl hist i ts c <> result_after false false fuel tbl [] i ts c.
Proof.
  exists 9%nat, [fn_get], [ECall 0 [] RNE; EPoke 0 0 99], 0%nat, [], RNE. vm_compute. discriminate.
Qed.

(* the monitor sees both *)
Example bump_not_clean : clean_hist 9 [fn_bump] empty_state [ECall 0 [TNum 1] RNE] = false.
Proof. vm_compute. reflexivity. Qed.
Example poke_not_clean : clean_hist 9 [fn_get] empty_state [ECall 0 [] RNE; EPoke 0 0 99] = false.
Proof. vm_compute. reflexivity. Qed.

(* the hypothesis of history_independent_partial is satisfiable by a history that reads a captured
   list, mutates list parameters, uses several contexts and pokes a returned (fresh) list *)
Example clean_hist_nonvacuous :
  clean_hist 9 [fn_look; fn_scale; fn_f; fn_g] empty_state
    [ECall 0 [TNum 5] RNE; ECall 1 [TList [TNum 7]] RTZ; ECall 1 [TList [TNum 7]] RTP;
     EPoke 2 0 42; ECall 3 [TNum 1] RTN; ECall 0 [TNum 6] RAZ] = true.
Proof. vm_compute. reflexivity. Qed.

Example contexts_matter :
  run_obs false false 9 [fn_scale] empty_state [ECall 0 [TList [TNum 7]] RTZ; ECall 0 [TList [TNum 7]] RTP]
  = [Some (TList [TNum 3]); Some (TList [TNum 4])].
Proof. vm_compute. reflexivity. Qed.

(* a NAME-keyed cache breaks "entry = compile key": after f was evaluated, the transformed copy g
   (same name) runs f's code *)
Theorem name_keyed_cache_refuted :
  exists fuel tbl hist i ts c,
    result_after true false fuel tbl hist i ts c <> result_after true false fuel tbl [] i ts c.
Proof.
  exists 9%nat, [fn_f; fn_g], [ECall 0 [TNum 1] RNE], 1%nat, [TNum 1], RNE. vm_compute. discriminate.
Qed.

Example identity_keyed_same_history :
  result_after false false 9 [fn_f; fn_g] [ECall 0 [TNum 1] RNE] 1 [TNum 1] RNE = Some (TNum 3) /\
  result_after true false 9 [fn_f; fn_g] [ECall 0 [TNum 1] RNE] 1 [TNum 1] RNE = Some (TNum 2).
Proof. split; vm_compute; reflexivity. Qed.

(* ================================================================ the repaired variant (percall = true):
   captured containers converted at every call, code still cached *)
Open Scope nat_scope.

Lemma step_ok_percall : forall fuel tbl st ev st' log o,
  state_ok tbl st -> step false true fuel tbl st ev = (st', log, o) -> state_ok tbl st'.
Proof.
  intros fuel tbl st ev st' log o Hok H. destruct ev as [i ts c|a i z]; cbn in H.
  - unfold step_call in H. destruct (nth_error tbl i) as [fd|] eqn:Efd; [|inversion H; subst; auto].
    unfold entry_for, key_of in H. cbv iota in H.
    destruct (compile fd (st_store st)) as [e1 s1] eqn:Ec.
    destruct (compile_entry _ _ _ _ Ec) as (Hcode & Hb & Hcaps & Hs1 & Hl).
    destruct (lookup i (st_cache st)) as [e|] eqn:El.
    + destruct (invoke fuel (func_ctx fd c) (mkEntry (ce_code e) (ce_caps e1) (ce_base e1) (ce_len e1)) s1 ts)
        as [[s2 lg] res] eqn:Ei. inversion H; subst; clear H.
      destruct (invoke_frame _ _ _ _ _ _ _ _ Ei) as (L & _). rewrite app_length in L.
      intros k e' Hin. cbn in *. eapply entry_ok_mono; [apply Hok; exact Hin|]. lia.
    + destruct (invoke fuel (func_ctx fd c) e1 s1 ts) as [[s2 lg] res] eqn:Ei. inversion H; subst; clear H.
      destruct (invoke_frame _ _ _ _ _ _ _ _ Ei) as (L & _). rewrite app_length in L.
      intros k e' Hin. cbn in Hin. destruct Hin as [Heq|Hin].
      * inversion Heq; subst k e'. exists fd. unfold cells_of. rewrite Hb. repeat split; auto. cbn. rewrite Hl. lia.
      * cbn. eapply entry_ok_mono; [apply Hok; exact Hin|]. lia.
  - destruct (nth_error (st_store st) a) as [cell|]; [|inversion H; subst; auto].
    destruct (upd_nth cell i (VNum z)) as [cell'|]; [|inversion H; subst; auto].
    destruct (upd_nth (st_store st) a cell') as [s'|] eqn:Eu; inversion H; subst; auto.
    destruct (upd_nth_spec _ _ _ _ _ Eu) as (Hlen & _ & _).
    intros k e Hin. cbn in *. eapply entry_ok_mono; eauto. lia.
Qed.

Lemma cache_inv_reachable_percall : forall fuel tbl hist st,
  state_ok tbl st -> state_ok tbl (run_hist false true fuel tbl st hist).
Proof.
  intros fuel tbl. induction hist as [|ev r IH]; intros st Hok; cbn; auto.
  destruct (step false true fuel tbl st ev) as [[st' lg] o] eqn:E. cbn. apply IH. eapply step_ok_percall; eauto.
Qed.

Lemma call_same_percall : forall fuel tbl st i ts c,
  state_ok tbl st ->
  snd (step_call false true fuel tbl st i ts c) = snd (step_call false true fuel tbl empty_state i ts c).
Proof.
  intros fuel tbl st i ts c Hok. unfold step_call.
  destruct (nth_error tbl i) as [fd|] eqn:Efd; [|reflexivity].
  unfold entry_for, key_of. cbn [st_cache st_store empty_state lookup]. cbv iota.
  destruct (compile fd []) as [eB sB] eqn:EcB.
  destruct (compile_entry _ _ _ _ EcB) as (HcodeB & HbB & HcapsB & HsB & HlB).
  pose proof (intact_compiled _ _ _ _ EcB) as HiB.
  destruct (compile fd (st_store st)) as [eA sA] eqn:EcA.
  destruct (compile_entry _ _ _ _ EcA) as (HcodeA & HbA & HcapsA & HsA & HlA).
  pose proof (intact_compiled _ _ _ _ EcA) as HiA.
  destruct (lookup i (st_cache st)) as [e0|] eqn:ElA.
  - destruct (Hok _ _ (lookup_In _ _ _ ElA)) as (fd' & Efd' & Hcode0 & _).
    assert (fd' = fd) by congruence. subst fd'.
    rewrite !snd_let3.
    apply (invoke_same fuel (func_ctx fd c) fd (mkEntry (ce_code e0) (ce_caps eA) (ce_base eA) (ce_len eA)) eB _ _ ts).
    + cbn. congruence.
    + cbn. rewrite HbA. exact HcapsA.
    + rewrite HbB. exact HcapsB.
    + exact HiA.
    + exact HiB.
    + cbn. unfold cells_of. cbn. rewrite HsA, HbA, app_length. lia.
    + rewrite HsB. unfold cells_of. rewrite HbB. cbn. lia.
  - rewrite !snd_let3.
    apply (invoke_same fuel (func_ctx fd c) fd eA eB _ _ ts).
    + congruence.
    + rewrite HbA. exact HcapsA.
    + rewrite HbB. exact HcapsB.
    + exact HiA.
    + exact HiB.
    + rewrite HsA. unfold cells_of. rewrite HbA. rewrite app_length. lia.
    + rewrite HsB. unfold cells_of. rewrite HbB. cbn. lia.
Qed.

(* With the repair the UNHYPOTHESISED statement holds: every history, every function. *)
Theorem history_independent_fixed : forall fuel tbl hist i ts c,
  result_after false true fuel tbl hist i ts c = result_after false true fuel tbl [] i ts c.
Proof.
  intros fuel tbl hist i ts c. unfold result_after. cbn [run_hist].
  apply call_same_percall. apply cache_inv_reachable_percall. apply state_ok_empty.
Qed.

(* the repaired model on the two witnesses *)
Open Scope Z_scope.
Example bump_twice_fixed :
  run_obs false true 9 [fn_bump] empty_state [ECall 0 [TNum 1] RNE; ECall 0 [TNum 1] RNE]
  = [Some (TNum 2); Some (TNum 2)].
Proof. vm_compute. reflexivity. Qed.
Example get_poke_get_fixed :
  run_obs false true 9 [fn_get] empty_state [ECall 0 [] RNE; EPoke 0 0 99; ECall 0 [] RNE]
  = [Some (TList [TNum 1]); None; Some (TList [TNum 1])].
Proof. vm_compute. reflexivity. Qed.
