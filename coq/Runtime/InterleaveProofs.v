(* C18 — proofs about the interleaving model (Interleave.v). *)
From Coq Require Import ZArith List Bool Arith Lia.
From FpyV Require Import Runtime.Boundary Runtime.Cache Runtime.CacheProofs Runtime.Interleave.
Import ListNotations.
Open Scope nat_scope.

Lemma exec_log_irrel : forall c ks r w l1 l2,
  fst (fst (exec c ks r w l1)) = fst (fst (exec c ks r w l2)) /\
  snd (exec c ks r w l1) = snd (exec c ks r w l2).
Proof.
  intros c ks. induction ks as [|k ks IH]; intros r w l1 l2; cbn; auto.
  destruct (exec_cmd c r w k) as [[[r' w'] wr]|]; cbn; auto.
Qed.

Lemma finish_step : forall fuel c k ks ret r w r' w' wr,
  exec_cmd c r w k = Some (r', w', wr) -> finish fuel c (k :: ks) ret r w = finish fuel c ks ret r' w'.
Proof.
  intros fuel c k ks ret r w r' w' wr H. unfold finish. cbn [exec]. rewrite H.
  destruct (exec_log_irrel c ks r' w' (wr ++ []) []) as (H1 & H2).
  destruct (exec c ks r' w' (wr ++ [])) as [[wa la] roa]. destruct (exec c ks r' w' []) as [[wb lb] rob].
  cbn in H1, H2. subst. reflexivity.
Qed.

Lemma outcome_enter : forall fuel tbl t fd,
  nth_error tbl (t_fn t) = Some fd -> (t_phase t = PStart \/ t_phase t = PMiss) ->
  outcome fuel tbl (set_phase t (start_run fd (fd_code fd) (fd_env fd) (t_ctx t) (t_args t))) = outcome fuel tbl t.
Proof.
  intros fuel tbl [fn args c ph] fd Hfd Hph. cbn in *. unfold outcome. cbn [t_phase t_fn t_ctx t_args set_phase].
  assert (Hrun : exists ks ret c' r w, start_run fd (fd_code fd) (fd_env fd) c args = PRun ks ret c' r w).
  { unfold start_run. destruct (allocs_at Interp (fd_env fd) 0) as [caps e1].
    destruct (allocs_at Interp args (length e1)) as [a e2]. eauto 6. }
  destruct Hrun as (ks & ret & c' & r & w & E). rewrite E.
  destruct Hph as [->| ->]; rewrite Hfd, E; reflexivity.
Qed.

Lemma lookupc_ok_cons : forall tbl sh k fd,
  sh_ok tbl sh -> nth_error tbl k = Some fd ->
  sh_ok tbl (mkSh ((k, (fd_code fd, fd_env fd)) :: sh_cache sh) (sh_ctx sh)).
Proof.
  intros tbl sh k fd Hok Hfd k' code env H. cbn in H.
  destruct (Nat.eqb k' k) eqn:E.
  - apply Nat.eqb_eq in E. subst k'. inversion H; subst. eauto.
  - apply Hok. exact H.
Qed.

(* one step of a thread (context LOCAL): keeps the cache invariant and does not change what ANY
   thread is going to return *)
Lemma tstep_outcome : forall fuel tbl sh t sh' t',
  sh_ok tbl sh -> tstep false fuel tbl sh t = (sh', t') ->
  sh_ok tbl sh' /\ outcome fuel tbl t' = outcome fuel tbl t /\ measure tbl t' <= measure tbl t - 1.
Proof.
  intros fuel tbl sh t sh' t' Hok H. unfold tstep in H.
  destruct t as [fn args c ph]. cbn [t_phase t_fn t_ctx t_args] in H.
  destruct ph as [| |ks ret c' r w|o].
  - destruct (nth_error tbl fn) as [fd|] eqn:Efd.
    + destruct (lookupc fn (sh_cache sh)) as [[code env]|] eqn:El.
      * destruct (Hok _ _ _ El) as (fd' & Efd' & -> & ->). assert (fd' = fd) by congruence. subst fd'.
        unfold enter in H. inversion H; subst; clear H. split; [assumption|]. split.
        { apply (outcome_enter fuel tbl (mkT fn args c PStart) fd); auto. }
        { unfold measure; cbn. rewrite Efd. unfold start_run.
          destruct (allocs_at Interp (fd_env fd) 0) as [caps e1].
          destruct (allocs_at Interp args (length e1)) as [a e2]. cbn. lia. }
      * inversion H; subst; clear H. split; [assumption|]. split.
        { unfold outcome; cbn. reflexivity. }
        { unfold measure; cbn. rewrite Efd. lia. }
    + inversion H; subst; clear H. split; [assumption|]. split.
      * unfold outcome; cbn. rewrite Efd. reflexivity.
      * unfold measure; cbn. lia.
  - destruct (nth_error tbl fn) as [fd|] eqn:Efd.
    + unfold enter in H. inversion H; subst; clear H. split; [apply lookupc_ok_cons; auto|]. split.
      * apply (outcome_enter fuel tbl (mkT fn args c PMiss) fd); auto.
      * unfold measure; cbn. rewrite Efd. unfold start_run.
        destruct (allocs_at Interp (fd_env fd) 0) as [caps e1].
        destruct (allocs_at Interp args (length e1)) as [a e2]. cbn. lia.
    + inversion H; subst; clear H. split; [assumption|]. split.
      * unfold outcome; cbn. rewrite Efd. reflexivity.
      * unfold measure; cbn. lia.
  - destruct ks as [|k ks].
    + inversion H; subst; clear H. split; [assumption|]. split; [|unfold measure; cbn; lia].
      unfold outcome, finish; cbn. reflexivity.
    + destruct (exec_cmd c' r w k) as [[[r' w'] wr]|] eqn:E; inversion H; subst; clear H.
      * split; [assumption|]. split; [|unfold measure; cbn; lia].
        unfold outcome; cbn. symmetry. eapply finish_step; eauto.
      * split; [assumption|]. split; [|unfold measure; cbn; lia].
        unfold outcome, finish; cbn. rewrite E. reflexivity.
  - inversion H; subst. split; [assumption|]. split; [reflexivity|]. unfold measure; cbn. lia.
Qed.

Lemma run_sched_outcome : forall fuel tbl sched sh t1 t2 sh' t1' t2',
  sh_ok tbl sh -> run_sched false fuel tbl sched sh t1 t2 = (sh', t1', t2') ->
  sh_ok tbl sh' /\ outcome fuel tbl t1' = outcome fuel tbl t1 /\ outcome fuel tbl t2' = outcome fuel tbl t2.
Proof.
  intros fuel tbl. induction sched as [|b r IH]; intros sh t1 t2 sh' t1' t2' Hok H; cbn in H.
  - inversion H; subst. auto.
  - destruct b.
    + destruct (tstep false fuel tbl sh t1) as [sh1 t1a] eqn:E.
      destruct (tstep_outcome _ _ _ _ _ _ Hok E) as (Hok1 & Ho & _).
      destruct (IH _ _ _ _ _ _ Hok1 H) as (A & B & C). repeat split; auto. congruence.
    + destruct (tstep false fuel tbl sh t2) as [sh1 t2a] eqn:E.
      destruct (tstep_outcome _ _ _ _ _ _ Hok E) as (Hok1 & Ho & _).
      destruct (IH _ _ _ _ _ _ Hok1 H) as (A & B & C). repeat split; auto. congruence.
Qed.

(* what a thread is going to return when it starts = the sequential evaluation from a fresh interpreter *)
Lemma outcome_initial : forall fuel tbl i ts c,
  outcome fuel tbl (mkT i ts c PStart) = result_after false false fuel tbl [] i ts c.
Proof.
  intros fuel tbl i ts c. unfold outcome, result_after, step_call. cbn [t_phase t_fn t_ctx t_args run_hist].
  destruct (nth_error tbl i) as [fd|]; [|reflexivity].
  unfold entry_for, key_of, compile, start_run, invoke, invoke_val, alloc_trees, apply_body, finish.
  cbn [empty_state st_cache st_store lookup length].
  destruct (allocs_at Interp (fd_env fd) 0) as [caps e1]. cbn [ce_code ce_caps app length].
  destruct (allocs_at Interp ts (length e1)) as [a e2].
  destruct (exec (func_ctx fd c) (b_cmds (fd_code fd)) (init_regs (a ++ caps)) {| wC := []; wI := e1 ++ e2 |} [])
    as [[w2 lg] ro]. cbn. destruct ro; reflexivity.
Qed.

Lemma sh_ok_empty : forall tbl c, sh_ok tbl (mkSh [] c).
Proof. intros tbl c k code env H. cbn in H. discriminate. Qed.

(* C18: ANY interleaving of two evaluations (different functions or the same one, different
   contexts) yields, for each of them, the result of running it alone on a fresh interpreter *)
Theorem interleave_sequential : forall fuel tbl sched sh i1 ts1 c1 i2 ts2 c2 sh' t1' t2',
  sh_ok tbl sh ->
  run_sched false fuel tbl sched sh (mkT i1 ts1 c1 PStart) (mkT i2 ts2 c2 PStart) = (sh', t1', t2') ->
  (forall o, t_phase t1' = PDone o -> o = result_after false false fuel tbl [] i1 ts1 c1) /\
  (forall o, t_phase t2' = PDone o -> o = result_after false false fuel tbl [] i2 ts2 c2) /\
  sh_ok tbl sh'.
Proof.
  intros fuel tbl sched sh i1 ts1 c1 i2 ts2 c2 sh' t1' t2' Hok H.
  destruct (run_sched_outcome _ _ _ _ _ _ _ _ _ Hok H) as (Hok' & H1 & H2).
  rewrite outcome_initial in H1, H2. split; [|split]; auto.
  - intros o Ho. rewrite <- H1. unfold outcome. rewrite Ho. reflexivity.
  - intros o Ho. rewrite <- H2. unfold outcome. rewrite Ho. reflexivity.
Qed.

Fixpoint count (b : bool) (l : list bool) : nat :=
  match l with [] => 0 | x :: r => (if Bool.eqb x b then 1 else 0) + count b r end.

(* ... and every schedule that gives each evaluation enough steps completes both (so the previous
   theorem is not about an empty set of finished runs) *)
Theorem interleave_completes : forall fuel tbl sched sh t1 t2 sh' t1' t2',
  sh_ok tbl sh -> run_sched false fuel tbl sched sh t1 t2 = (sh', t1', t2') ->
  measure tbl t1 <= count true sched -> measure tbl t2 <= count false sched ->
  is_done t1' = true /\ is_done t2' = true.
Proof.
  intros fuel tbl. induction sched as [|b r IH]; intros sh t1 t2 sh' t1' t2' Hok H M1 M2; cbn in H, M1, M2.
  - inversion H; subst. unfold measure, is_done in *.
    destruct (t_phase t1'); destruct (t_phase t2'); try destruct (nth_error tbl _); auto; lia.
  - destruct b; cbn in M1, M2.
    + destruct (tstep false fuel tbl sh t1) as [sh1 t1a] eqn:E.
      destruct (tstep_outcome _ _ _ _ _ _ Hok E) as (Hok1 & _ & Hm).
      eapply IH; eauto. lia.
    + destruct (tstep false fuel tbl sh t2) as [sh1 t2a] eqn:E.
      destruct (tstep_outcome _ _ _ _ _ _ Hok E) as (Hok1 & _ & Hm).
      eapply IH; eauto. lia.
Qed.

(* non-vacuity: an actual interleaving of scale([7]) under RTZ and under RTP *)
Open Scope Z_scope.
Example interleave_example :
  let '(_, t1, t2) := run_sched false 9 [fn_scale]
                        [true; false; true; false; true; true; false; false; true; true; false; false]
                        (mkSh [] RNE) (mkT 0 [TList [TNum 7]] RTZ PStart) (mkT 0 [TList [TNum 7]] RTP PStart) in
  (t_phase t1, t_phase t2) = (PDone (Some (TList [TNum 3])), PDone (Some (TList [TNum 4]))).
Proof. vm_compute. reflexivity. Qed.

(* the variant "active context kept in shared (module) state" is refuted by a schedule *)
Theorem shared_ctx_refuted :
  exists fuel tbl sched i1 ts1 c1 i2 ts2 c2 o,
    t_phase (snd (fst (run_sched true fuel tbl sched (mkSh [] RNE) (mkT i1 ts1 c1 PStart) (mkT i2 ts2 c2 PStart))))
      = PDone o /\
    o <> result_after false false fuel tbl [] i1 ts1 c1.
Proof.
  exists 9%nat, [fn_scale], [true; true; false; true; true; true; true],
         0%nat, [TList [TNum 7]], RTZ, 0%nat, [TList [TNum 7]], RTP, (Some (TList [TNum 4])).
  split; [vm_compute; reflexivity|vm_compute; discriminate].
Qed.
