(* C18 — model of the process-wide interpreter state: BytecodeInterpreter.func_cache
   and the interpreter-owned objects that outlive a call.  DEFINITIONS ONLY
   (proofs: CacheProofs.v).

   Modelled code: fpy2/interpret/byte.py
     BytecodeInterpreter.eval:   `if func.ast in self.func_cache: fn = self.func_cache[func.ast]
                                  else: fn = BytecodeCompiler(func.ast, func.env).compile(); self.func_cache[func.ast] = fn`
     BytecodeCompiler.compile:   `namespace[name] = to_value(self.env[name])`  (ONCE, at compile time)
     Interpreter._func_ctx:      the function's own context overrides the caller's
   fpy2/interpret/interpreter.py: one `_default_interpreter` per process.

   A FuncDef object has no __eq__/__hash__: dictionary keys are object
   identities.  Identity = index into a table of all FuncDef objects of the
   process (`tbl`); transformed copies are further entries of the table, with
   the same fd_name as the original. *)
From Coq Require Import ZArith List Bool Arith.
From FpyV Require Import Runtime.Boundary.
Import ListNotations.
Open Scope nat_scope.

Record funcdef := mkFn {
  fd_name : nat;               (* the name: NOT what the cache is keyed by *)
  fd_ctx : option ctx;         (* @fpy(ctx=...) *)
  fd_env : list tree;          (* values of the free variables (module globals) *)
  fd_code : body }.

(* a compiled function: code + the converted free variables (namespace) *)
Record centry := mkEntry {
  ce_code : body;
  ce_caps : list val;          (* `namespace[name]`: references into the interpreter store *)
  ce_base : nat;               (* ghost: where the captured copies were allocated ... *)
  ce_len : nat }.              (* ... and how many cells *)

Definition cache := list (nat * centry).

Record istate := mkSt { st_cache : cache; st_store : store }.

Definition empty_state : istate := mkSt [] [].

Fixpoint lookup (k : nat) (c : cache) : option centry :=
  match c with
  | [] => None
  | (k', e) :: r => if Nat.eqb k k' then Some e else lookup k r
  end.

(* BytecodeCompiler.compile *)
Definition compile (fd : funcdef) (s : store) : centry * store :=
  let '(caps, e) := allocs_at Interp (fd_env fd) (length s) in
  (mkEntry (fd_code fd) caps (length s) (length e), s ++ e).

(* the dictionary key.  byname = false: the code as it is (identity).
   byname = true: the variant the property text warns about. *)
Definition key_of (byname : bool) (i : nat) (fd : funcdef) : nat := if byname then fd_name fd else i.

(* percall = false: the code as it is — a cache hit reuses the captured copies made at compile time.
   percall = true: the proposed repair (fixes/C18-*.diff) — the code is cached, the free-variable
   containers are converted again at every call. *)
Definition entry_for (byname percall : bool) (st : istate) (i : nat) (fd : funcdef) : centry * cache * store :=
  let k := key_of byname i fd in
  match lookup k (st_cache st) with
  | Some e =>
      if percall then
        let '(e', s') := compile fd (st_store st) in
        (mkEntry (ce_code e) (ce_caps e') (ce_base e') (ce_len e'), st_cache st, s')
      else (e, st_cache st, st_store st)
  | None => let '(e, s') := compile fd (st_store st) in (e, (k, e) :: st_cache st, s')
  end.

Definition func_ctx (fd : funcdef) (c : ctx) : ctx := match fd_ctx fd with Some c0 => c0 | None => c end.

Definition ilog (log : list (side * nat)) : list nat :=
  flat_map (fun x => match fst x with Interp => [snd x] | Caller => [] end) log.

(* convert the arguments, run the code, read the result (what the caller
   observes of it: its structure) *)
Definition invoke_val (c : ctx) (e : centry) (s : store) (ts : list tree)
  : world * list (side * nat) * option val :=
  let '(args, s1) := alloc_trees Interp ts s in
  apply_body c (ce_code e) (ce_caps e) args (mkW [] s1).

Definition invoke (fuel : nat) (c : ctx) (e : centry) (s : store) (ts : list tree)
  : store * list nat * option tree :=
  let '(w2, log, res) := invoke_val c e s ts in
  (wI w2, ilog log, match res with Some v => snap fuel w2 v | None => None end).

(* BytecodeInterpreter.eval(func, args, ctx) with the arguments given by
   their structure (their snapshot: see Boundary.to_value) *)
Definition step_call (byname percall : bool) (fuel : nat) (tbl : list funcdef) (st : istate)
           (i : nat) (ts : list tree) (c : ctx) : istate * list nat * option tree :=
  match nth_error tbl i with
  | None => (st, [], None)
  | Some fd =>
      let '(e, cache1, s1) := entry_for byname percall st i fd in
      let '(s2, log, res) := invoke fuel (func_ctx fd c) e s1 ts in
      (mkSt cache1 s2, log, res)
  end.

(* the same evaluation, returning the result VALUE (the object the caller now holds) *)
Definition step_call_val (byname percall : bool) (tbl : list funcdef) (st : istate)
           (i : nat) (ts : list tree) (c : ctx) : option val :=
  match nth_error tbl i with
  | None => None
  | Some fd =>
      let '(e, _, s1) := entry_for byname percall st i fd in
      snd (invoke_val (func_ctx fd c) e s1 ts)
  end.

(* what can happen in a process between two evaluations *)
Inductive event :=
  | ECall (i : nat) (ts : list tree) (c : ctx)   (* evaluate function object i *)
  | EPoke (a : nat) (i : nat) (z : Z).           (* the Python caller writes l[i] = z into a list object it
                                                    holds (any interpreter-created list: over-approximation) *)

Definition step (byname percall : bool) (fuel : nat) (tbl : list funcdef) (st : istate) (ev : event)
  : istate * list nat * option tree :=
  match ev with
  | ECall i ts c => step_call byname percall fuel tbl st i ts c
  | EPoke a i z =>
      match nth_error (st_store st) a with
      | Some cell => match upd_nth cell i (VNum z) with
                     | Some cell' => match upd_nth (st_store st) a cell' with
                                     | Some s' => (mkSt (st_cache st) s', [a], None)
                                     | None => (st, [], None)
                                     end
                     | None => (st, [], None)
                     end
      | None => (st, [], None)
      end
  end.

Fixpoint run_hist (byname percall : bool) (fuel : nat) (tbl : list funcdef) (st : istate) (evs : list event) : istate :=
  match evs with
  | [] => st
  | ev :: r => run_hist byname percall fuel tbl (fst (fst (step byname percall fuel tbl st ev))) r
  end.

(* the observable results of a whole history, in order *)
Fixpoint run_obs (byname percall : bool) (fuel : nat) (tbl : list funcdef) (st : istate) (evs : list event)
  : list (option tree) :=
  match evs with
  | [] => []
  | ev :: r => let '(st', _, o) := step byname percall fuel tbl st ev in o :: run_obs byname percall fuel tbl st' r
  end.

(* the result of evaluating f(args, ctx) after a history *)
Definition result_after (byname percall : bool) (fuel : nat) (tbl : list funcdef) (hist : list event)
           (i : nat) (ts : list tree) (c : ctx) : option tree :=
  snd (step_call byname percall fuel tbl (run_hist byname percall fuel tbl empty_state hist) i ts c).

(* ---- the hypothesis of history_independent_partial, as a computable monitor:
   no write (by a function body or by the caller) lands in the captured
   region of any compiled function *)
Definition in_region (e : centry) (a : nat) : bool := (ce_base e <=? a) && (a <? ce_base e + ce_len e).
Definition hits (c : cache) (a : nat) : bool := existsb (fun ke => in_region (snd ke) a) c.

Fixpoint clean_hist (fuel : nat) (tbl : list funcdef) (st : istate) (evs : list event) : bool :=
  match evs with
  | [] => true
  | ev :: r => let '(st', log, _) := step false false fuel tbl st ev in
               forallb (fun a => negb (hits (st_cache st') a)) log && clean_hist fuel tbl st' r
  end.

(* no list among the free variables *)
Fixpoint list_free (t : tree) : bool :=
  match t with
  | TNum _ => true
  | TTup l => (fix go (l : list tree) : bool := match l with [] => true | x :: r => list_free x && go r end) l
  | TList _ => false
  end.
