(* C18 — model of the Python boundary of the FPy interpreter.
   DEFINITIONS ONLY (proofs: BoundaryProofs.v).

   Modelled code: fpy2/interpret/value.py (to_value / from_value),
   fpy2/interpret/byte.py (BytecodeInterpreter.eval: argument conversion,
   `fn( *args, __ctx__=ctx)`, result conversion; BytecodeCompiler.compile:
   `namespace[name] = to_value(env[name])` for free variables).

   * Python objects: numbers (payload abstracted to Z), tuples (immutable,
     by value) and lists (mutable, identity = a location).  Locations live in
     one of two stores: the CALLER heap (lists owned by the Python caller) and
     the INTERPRETER store (lists created by to_value or by a running FPy
     function).  CPython has one heap; the split is ghost information about
     who created the list, and a value may mention both sides (the result of
     a call is handed to the caller *as is*, see from_value).
   * to_value = deep copy: read the argument (snapshot, `snap`) and rebuild
     every container in the interpreter store (`alloc_tree Interp`).
   * from_value = identity when every leaf is already a boundary value (the
     common case in value.py) or a rebuild of the containers on the caller side.
   * A function body is an arbitrary straight-line sequence of register
     commands: it can only obtain a location by loading it from something it
     already holds (parameters, captured free variables) or by allocating it;
     it cannot forge a location.  A store through a caller-side reference
     WOULD write the caller heap (that is what happens when conversion is
     skipped, `convert = false`). *)
From Coq Require Import ZArith List Bool Arith.
Import ListNotations.
Open Scope Z_scope.

Inductive side := Caller | Interp.

Definition side_eqb (a b : side) : bool :=
  match a, b with Caller, Caller | Interp, Interp => true | _, _ => false end.

(* identity-free structure (what `==` on nested lists/tuples observes) *)
Inductive tree := TNum (z : Z) | TTup (l : list tree) | TList (l : list tree).

Inductive val := VNum (z : Z) | VTup (l : list val) | VRef (sd : side) (a : nat).

Definition store := list (list val).
Record world := mkW { wC : store; wI : store }.

Definition sto (w : world) (sd : side) : store :=
  match sd with Caller => wC w | Interp => wI w end.

Definition rd (w : world) (sd : side) (a : nat) : option (list val) := nth_error (sto w sd) a.

Definition set_sto (w : world) (sd : side) (s : store) : world :=
  match sd with Caller => mkW s (wI w) | Interp => mkW (wC w) s end.

Fixpoint upd_nth {A} (l : list A) (n : nat) (x : A) : option (list A) :=
  match l, n with
  | [], _ => None
  | _ :: r, O => Some (x :: r)
  | y :: r, S n' => match upd_nth r n' x with None => None | Some r' => Some (y :: r') end
  end.

Fixpoint map_opt {A B} (g : A -> option B) (l : list A) : option (list B) :=
  match l with
  | [] => Some []
  | x :: r => match g x with
              | None => None
              | Some y => match map_opt g r with None => None | Some ys => Some (y :: ys) end
              end
  end.

(* ---------------------------------------------------------------- snapshot *)
(* Reading a value down to its leaves.  A cyclic list exhausts the fuel
   (Python: RecursionError in to_value). *)
Fixpoint snap (fuel : nat) (w : world) (v : val) : option tree :=
  match fuel with
  | O => None
  | S f =>
      match v with
      | VNum z => Some (TNum z)
      | VTup l => option_map TTup (map_opt (snap f w) l)
      | VRef sd a => match rd w sd a with
                     | None => None
                     | Some cell => option_map TList (map_opt (snap f w) cell)
                     end
      end
  end.

(* ---------------------------------------------------------------- rebuild *)
(* The rebuilt copy of a tree when the next free location is n: the value and
   the list of new cells (cell k of the list lives at location n + k). *)
Fixpoint alloc_at (sd : side) (t : tree) (n : nat) {struct t} : val * list (list val) :=
  match t with
  | TNum z => (VNum z, [])
  | TTup l =>
      let '(vs, e) :=
        (fix go (l : list tree) (n : nat) : list val * list (list val) :=
           match l with
           | [] => ([], [])
           | x :: r => let '(v, e1) := alloc_at sd x n in
                       let '(vs, e2) := go r (n + length e1)%nat in (v :: vs, e1 ++ e2)
           end) l n in
      (VTup vs, e)
  | TList l =>
      let '(vs, e) :=
        (fix go (l : list tree) (n : nat) : list val * list (list val) :=
           match l with
           | [] => ([], [])
           | x :: r => let '(v, e1) := alloc_at sd x n in
                       let '(vs, e2) := go r (n + length e1)%nat in (v :: vs, e1 ++ e2)
           end) l n in
      (VRef sd (n + length e), e ++ [vs])
  end.

Fixpoint allocs_at (sd : side) (l : list tree) (n : nat) : list val * list (list val) :=
  match l with
  | [] => ([], [])
  | x :: r => let '(v, e1) := alloc_at sd x n in
              let '(vs, e2) := allocs_at sd r (n + length e1)%nat in (v :: vs, e1 ++ e2)
  end.

Definition alloc_tree (sd : side) (t : tree) (s : store) : val * store :=
  let '(v, e) := alloc_at sd t (length s) in (v, s ++ e).

Definition alloc_trees (sd : side) (l : list tree) (s : store) : list val * store :=
  let '(vs, e) := allocs_at sd l (length s) in (vs, s ++ e).

(* to_value: containers are rebuilt unconditionally (value.py) *)
Definition to_value (fuel : nat) (w : world) (v : val) : option (val * world) :=
  match snap fuel w v with
  | None => None
  | Some t => let '(v', s') := alloc_tree Interp t (wI w) in Some (v', mkW (wC w) s')
  end.

Fixpoint to_values (fuel : nat) (w : world) (vs : list val) : option (list val * world) :=
  match vs with
  | [] => Some ([], w)
  | v :: r => match to_value fuel w v with
              | None => None
              | Some (v', w1) => match to_values fuel w1 r with
                                 | None => None
                                 | Some (vs', w2) => Some (v' :: vs', w2)
                                 end
              end
  end.

(* from_value: `x if _is_boundary_value(x) else _cvt_boundary(x)`.
   rebuild = false: every leaf is a boundary value, the interpreter's own
   object is returned; rebuild = true: the containers are rebuilt (they then
   belong to the caller).  value.py may rebuild only an outer layer; both
   extremes are modelled, the theorems hold for either. *)
Definition from_value (rebuild : bool) (fuel : nat) (w : world) (v : val) : option (val * world) :=
  if rebuild then
    match snap fuel w v with
    | None => None
    | Some t => let '(v', s') := alloc_tree Caller t (wC w) in Some (v', mkW s' (wI w))
    end
  else Some (v, w).

(* ---------------------------------------------------------------- contexts *)
(* The active context: a rounding mode for rounding x/2 to an integer
   (fp.MPFixedContext(-1, rm)); enough to make results context-dependent. *)
Inductive ctx := RTZ | RTN | RTP | RAZ | RNE.

Definition half (c : ctx) (z : Z) : Z :=
  let fl := z / 2 in
  let ce := - ((- z) / 2) in
  match c with
  | RTN => fl
  | RTP => ce
  | RTZ => if z <? 0 then ce else fl
  | RAZ => if z <? 0 then fl else ce
  | RNE => if Z.even z then fl else if Z.even fl then fl else ce
  end.

(* ---------------------------------------------------------------- bodies *)
Inductive operand := OReg (r : nat) | ONum (z : Z).

Inductive cmd :=
  | CMov (d : nat) (o : operand)                 (* d := o *)
  | CList (d : nat) (os : list operand)          (* d := [o1, ..., on]   (fresh list) *)
  | CTuple (d : nat) (os : list operand)         (* d := (o1, ..., on) *)
  | CGet (d : nat) (r : nat) (i : nat)           (* d := r[i]   (list or tuple) *)
  | CSet (r : nat) (i : nat) (o : operand)       (* r[i] := o   (list) *)
  | CAdd (d : nat) (a b : operand)               (* d := a + b  (exact) *)
  | CHalf (d : nat) (a : operand).               (* d := a / 2  rounded under the active context *)

Record body := mkBody { b_cmds : list cmd; b_ret : operand }.

Definition regs := nat -> option val.
Definition rset (r : regs) (d : nat) (v : val) : regs := fun x => if Nat.eqb x d then Some v else r x.
Definition init_regs (vs : list val) : regs := fun x => nth_error vs x.

Definition oval (r : regs) (o : operand) : option val :=
  match o with OReg x => r x | ONum z => Some (VNum z) end.

Definition onum (r : regs) (o : operand) : option Z :=
  match oval r o with Some (VNum z) => Some z | _ => None end.

(* one command; None = exception.  Third component: the location written. *)
Definition exec_cmd (c : ctx) (r : regs) (w : world) (k : cmd) : option (regs * world * list (side * nat)) :=
  match k with
  | CMov d o => match oval r o with Some v => Some (rset r d v, w, []) | None => None end
  | CList d os => match map_opt (oval r) os with
                  | Some vs => Some (rset r d (VRef Interp (length (wI w))), mkW (wC w) (wI w ++ [vs]), [])
                  | None => None
                  end
  | CTuple d os => match map_opt (oval r) os with
                   | Some vs => Some (rset r d (VTup vs), w, [])
                   | None => None
                   end
  | CGet d x i => match r x with
                  | Some (VTup l) => match nth_error l i with Some v => Some (rset r d v, w, []) | None => None end
                  | Some (VRef sd a) => match rd w sd a with
                                        | Some cell => match nth_error cell i with
                                                       | Some v => Some (rset r d v, w, [])
                                                       | None => None
                                                       end
                                        | None => None
                                        end
                  | _ => None
                  end
  | CSet x i o => match r x, oval r o with
                  | Some (VRef sd a), Some v =>
                      match rd w sd a with
                      | Some cell => match upd_nth cell i v with
                                     | Some cell' => match upd_nth (sto w sd) a cell' with
                                                     | Some s' => Some (r, set_sto w sd s', [(sd, a)])
                                                     | None => None
                                                     end
                                     | None => None
                                     end
                      | None => None
                      end
                  | _, _ => None
                  end
  | CAdd d a b => match onum r a, onum r b with
                  | Some x, Some y => Some (rset r d (VNum (x + y)), w, [])
                  | _, _ => None
                  end
  | CHalf d a => match onum r a with
                 | Some x => Some (rset r d (VNum (half c x)), w, [])
                 | None => None
                 end
  end.

(* a sequence; an exception keeps the effects made so far *)
Fixpoint exec (c : ctx) (ks : list cmd) (r : regs) (w : world) (log : list (side * nat))
  : world * list (side * nat) * option regs :=
  match ks with
  | [] => (w, log, Some r)
  | k :: ks' => match exec_cmd c r w k with
                | None => (w, log, None)
                | Some (r', w', wr) => exec c ks' r' w' (wr ++ log)
                end
  end.

(* the compiled function applied to already-converted arguments:
   `res = fn( *args, __ctx__=ctx)`; registers 0.. hold the parameters, then
   the captured free variables *)
Definition apply_body (c : ctx) (b : body) (caps args : list val) (w : world)
  : world * list (side * nat) * option val :=
  let '(w', log, r) := exec c (b_cmds b) (init_regs (args ++ caps)) w [] in
  (w', log, match r with Some r' => oval r' (b_ret b) | None => None end).

(* BytecodeInterpreter.eval after the cache lookup *)
Definition call (convert rebuild : bool) (fuel : nat) (c : ctx) (b : body) (caps : list val)
           (w : world) (args : list val) : world * option val :=
  match (if convert then to_values fuel w args else Some (args, w)) with
  | None => (w, None)
  | Some (args', w1) =>
      let '(w2, _, res) := apply_body c b caps args' w1 in
      match res with
      | None => (w2, None)
      | Some v => if convert then
                    match from_value rebuild fuel w2 v with
                    | None => (w2, None)
                    | Some (v', w3) => (w3, Some v')
                    end
                  else (w2, Some v)
      end
  end.

(* ---------------------------------------------------------------- reachability *)
Inductive reach (w : world) : val -> side -> nat -> Prop :=
  | reach_here : forall sd a, reach w (VRef sd a) sd a
  | reach_tup : forall l v sd a, In v l -> reach w v sd a -> reach w (VTup l) sd a
  | reach_cell : forall sd0 a0 cell v sd a,
      rd w sd0 a0 = Some cell -> In v cell -> reach w v sd a -> reach w (VRef sd0 a0) sd a.

(* every reference occurring (syntactically) in a value satisfies P *)
Fixpoint vall (P : side -> nat -> Prop) (v : val) : Prop :=
  match v with
  | VNum _ => True
  | VTup l => (fix go (l : list val) : Prop := match l with [] => True | x :: r => vall P x /\ go r end) l
  | VRef sd a => P sd a
  end.

Definition sall (P : side -> nat -> Prop) (s : store) : Prop := Forall (Forall (vall P)) s.

(* interpreter-only: mentions no caller-side list *)
Definition ionly : side -> nat -> Prop := fun sd _ => sd = Interp.
(* references in bounds *)
Definition inb (w : world) : side -> nat -> Prop := fun sd a => (a < length (sto w sd))%nat.
Definition bounded (w : world) : Prop := sall (inb w) (wC w) /\ sall (inb w) (wI w).
