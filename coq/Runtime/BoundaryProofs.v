(* C18 — proofs about the boundary model (Boundary.v). *)
From Coq Require Import ZArith List Bool Arith Lia.
From FpyV Require Import Runtime.Boundary.
Import ListNotations.
Open Scope nat_scope.

(* ---------------------------------------------------------------- induction principles *)
Section ValInd.
  Variable P : val -> Prop.
  Hypothesis Hnum : forall z, P (VNum z).
  Hypothesis Htup : forall l, Forall P l -> P (VTup l).
  Hypothesis Href : forall sd a, P (VRef sd a).
  Fixpoint val_ind' (v : val) : P v :=
    match v with
    | VNum z => Hnum z
    | VTup l => Htup l ((fix go (l : list val) : Forall P l :=
                           match l with [] => Forall_nil P | x :: r => Forall_cons x (val_ind' x) (go r) end) l)
    | VRef sd a => Href sd a
    end.
End ValInd.

Section TreeInd.
  Variable P : tree -> Prop.
  Hypothesis Hnum : forall z, P (TNum z).
  Hypothesis Htup : forall l, Forall P l -> P (TTup l).
  Hypothesis Hlist : forall l, Forall P l -> P (TList l).
  Fixpoint tree_ind' (t : tree) : P t :=
    match t with
    | TNum z => Hnum z
    | TTup l => Htup l ((fix go (l : list tree) : Forall P l :=
                           match l with [] => Forall_nil P | x :: r => Forall_cons x (tree_ind' x) (go r) end) l)
    | TList l => Hlist l ((fix go (l : list tree) : Forall P l :=
                             match l with [] => Forall_nil P | x :: r => Forall_cons x (tree_ind' x) (go r) end) l)
    end.
End TreeInd.

(* ---------------------------------------------------------------- vall *)
Lemma vall_tup : forall P l, vall P (VTup l) <-> Forall (vall P) l.
Proof.
  intros P l. cbn. induction l as [|x r IH].
  - split; auto.
  - split.
    + intros [H1 H2]. constructor; auto. apply IH; auto.
    + intros H. inversion H; subst. split; auto. apply IH; auto.
Qed.

Lemma vall_mono : forall (P Q : side -> nat -> Prop), (forall sd a, P sd a -> Q sd a) ->
  forall v, vall P v -> vall Q v.
Proof.
  intros P Q HPQ. induction v as [z|l IH|sd a] using val_ind'; intros H.
  - exact I.
  - apply vall_tup. apply vall_tup in H. rewrite Forall_forall in *. intros x Hx. apply IH; auto.
  - cbn in *. auto.
Qed.

Lemma Forall_vall_mono : forall (P Q : side -> nat -> Prop), (forall sd a, P sd a -> Q sd a) ->
  forall l, Forall (vall P) l -> Forall (vall Q) l.
Proof. intros P Q H l Hl. eapply Forall_impl; [|exact Hl]. intros v. apply vall_mono; auto. Qed.

(* ---------------------------------------------------------------- small list facts *)
Lemma upd_nth_spec : forall A (l : list A) n x l',
  upd_nth l n x = Some l' ->
  length l' = length l /\ nth_error l' n = Some x /\ (forall m, m <> n -> nth_error l' m = nth_error l m).
Proof.
  induction l as [|y r IH]; intros n x l' H; cbn in H; [discriminate|].
  destruct n as [|n].
  - inversion H; subst. cbn. repeat split; auto. intros [|m] Hm; [congruence|reflexivity].
  - destruct (upd_nth r n x) as [r'|] eqn:E; [|discriminate]. inversion H; subst.
    destruct (IH _ _ _ E) as (Hl & Hn & Ho). cbn. repeat split; auto.
    intros [|m] Hm; cbn; auto.
Qed.

Lemma upd_nth_Forall : forall A (P : A -> Prop) (l : list A) n x l',
  upd_nth l n x = Some l' -> Forall P l -> P x -> Forall P l'.
Proof.
  induction l as [|y r IH]; intros n x l' H Hl Hx; cbn in H; [discriminate|].
  inversion Hl; subst. destruct n as [|n].
  - inversion H; subst. constructor; auto.
  - destruct (upd_nth r n x) as [r'|] eqn:E; [|discriminate]. inversion H; subst. constructor; eauto.
Qed.

Lemma map_opt_Forall : forall A B (g : A -> option B) (P : B -> Prop) l ys,
  map_opt g l = Some ys -> (forall x y, In x l -> g x = Some y -> P y) -> Forall P ys.
Proof.
  induction l as [|x r IH]; intros ys H HP; cbn in H.
  - inversion H; constructor.
  - destruct (g x) as [y|] eqn:E; [|discriminate].
    destruct (map_opt g r) as [ys'|] eqn:E2; [|discriminate]. inversion H; subst.
    constructor. { eapply HP; [left; reflexivity|exact E]. }
    apply IH; auto. intros x0 y0 Hin. apply HP. right; auto.
Qed.

Lemma map_opt_ext_in : forall A B (g h : A -> option B) l ys,
  map_opt g l = Some ys -> (forall x y, In x l -> g x = Some y -> h x = Some y) -> map_opt h l = Some ys.
Proof.
  induction l as [|x r IH]; intros ys H Hgh; cbn in *; auto.
  destruct (g x) as [y|] eqn:E; [|discriminate].
  destruct (map_opt g r) as [ys'|] eqn:E2; [|discriminate]. inversion H; subst.
  rewrite (Hgh x y (or_introl eq_refl) E). rewrite (IH ys' eq_refl); auto.
Qed.

(* ---------------------------------------------------------------- alloc_tree *)
(* references of side sd in [lo, hi) *)
Definition fr (sd : side) (lo hi : nat) : side -> nat -> Prop := fun sd' a => sd' = sd /\ lo <= a < hi.

Lemma alloc_at_tup : forall sd l n,
  alloc_at sd (TTup l) n = let '(vs, e) := allocs_at sd l n in (VTup vs, e).
Proof.
  intros sd l n. cbn [alloc_at].
  assert (H : forall l n,
    (fix go (l : list tree) (n : nat) : list val * list (list val) :=
       match l with
       | [] => ([], [])
       | x :: r => let '(v, e1) := alloc_at sd x n in
                   let '(vs, e2) := go r (n + length e1) in (v :: vs, e1 ++ e2)
       end) l n = allocs_at sd l n).
  { clear. induction l as [|x r IH]; intros n; cbn; auto.
    destruct (alloc_at sd x n) as [v e1]. rewrite IH. reflexivity. }
  rewrite H. reflexivity.
Qed.

Lemma alloc_at_list : forall sd l n,
  alloc_at sd (TList l) n = let '(vs, e) := allocs_at sd l n in (VRef sd (n + length e), e ++ [vs]).
Proof.
  intros sd l n. cbn [alloc_at].
  assert (H : forall l n,
    (fix go (l : list tree) (n : nat) : list val * list (list val) :=
       match l with
       | [] => ([], [])
       | x :: r => let '(v, e1) := alloc_at sd x n in
                   let '(vs, e2) := go r (n + length e1) in (v :: vs, e1 ++ e2)
       end) l n = allocs_at sd l n).
  { clear. induction l as [|x r IH]; intros n; cbn; auto.
    destruct (alloc_at sd x n) as [v e1]. rewrite IH. reflexivity. }
  rewrite H. reflexivity.
Qed.

Lemma fr_mono : forall sd lo hi lo' hi', lo' <= lo -> hi <= hi' ->
  forall sd' a, fr sd lo hi sd' a -> fr sd lo' hi' sd' a.
Proof. unfold fr. intros. intuition lia. Qed.

Definition at_ok (sd : side) (n : nat) (v : val) (e : list (list val)) : Prop :=
  vall (fr sd n (n + length e)) v /\ Forall (Forall (vall (fr sd n (n + length e)))) e.

Definition ats_ok (sd : side) (n : nat) (vs : list val) (e : list (list val)) : Prop :=
  Forall (vall (fr sd n (n + length e))) vs /\ Forall (Forall (vall (fr sd n (n + length e)))) e.

Lemma ats_ok_from : forall sd l,
  Forall (fun t => forall n v e, alloc_at sd t n = (v, e) -> at_ok sd n v e) l ->
  forall n vs e, allocs_at sd l n = (vs, e) -> ats_ok sd n vs e.
Proof.
  intros sd l Hl. induction Hl as [|x r Hx Hr IH]; intros n vs e H; cbn in H.
  - inversion H; subst. split; constructor.
  - destruct (alloc_at sd x n) as [v e1] eqn:E1.
    destruct (allocs_at sd r (n + length e1)) as [vs2 e2] eqn:E2. inversion H; subst.
    destruct (Hx _ _ _ E1) as (Hv & He1). destruct (IH _ _ _ E2) as (Hvs & He2).
    unfold ats_ok. rewrite app_length. split.
    + constructor.
      * eapply vall_mono; [|exact Hv]. apply fr_mono; lia.
      * eapply Forall_vall_mono; [|exact Hvs]. apply fr_mono; lia.
    + apply Forall_app. split.
      * eapply Forall_impl; [|exact He1]. intros c. apply Forall_vall_mono. apply fr_mono; lia.
      * eapply Forall_impl; [|exact He2]. intros c. apply Forall_vall_mono. apply fr_mono; lia.
Qed.

Lemma alloc_at_ok : forall sd t n v e, alloc_at sd t n = (v, e) -> at_ok sd n v e.
Proof.
  intros sd. induction t as [z|l IH|l IH] using tree_ind'; intros n v e H.
  - cbn in H. inversion H; subst. split; constructor.
  - rewrite alloc_at_tup in H. destruct (allocs_at sd l n) as [vs e2] eqn:E. inversion H; subst.
    destruct (ats_ok_from sd l IH _ _ _ E) as (Hvs & Hext). split; auto. apply vall_tup; auto.
  - rewrite alloc_at_list in H. destruct (allocs_at sd l n) as [vs e2] eqn:E. inversion H; subst.
    destruct (ats_ok_from sd l IH _ _ _ E) as (Hvs & Hext).
    unfold at_ok. rewrite app_length. cbn [length]. split.
    + cbn. unfold fr. split; auto. lia.
    + apply Forall_app. split.
      * eapply Forall_impl; [|exact Hext]. intros c. apply Forall_vall_mono. apply fr_mono; lia.
      * constructor; [|constructor]. eapply Forall_vall_mono; [|exact Hvs]. apply fr_mono; lia.
Qed.

Lemma allocs_at_ok : forall sd l n vs e, allocs_at sd l n = (vs, e) -> ats_ok sd n vs e.
Proof.
  intros sd l. apply ats_ok_from. apply Forall_forall. intros t _. apply alloc_at_ok.
Qed.

Definition alloc_ok (sd : side) (s : store) (v : val) (s' : store) : Prop :=
  exists ext, s' = s ++ ext /\ vall (fr sd (length s) (length s')) v /\
              Forall (Forall (vall (fr sd (length s) (length s')))) ext.

Definition allocs_ok (sd : side) (s : store) (vs : list val) (s' : store) : Prop :=
  exists ext, s' = s ++ ext /\ Forall (vall (fr sd (length s) (length s'))) vs /\
              Forall (Forall (vall (fr sd (length s) (length s')))) ext.

Lemma alloc_tree_ok : forall sd t s v s', alloc_tree sd t s = (v, s') -> alloc_ok sd s v s'.
Proof.
  intros sd t s v s' H. unfold alloc_tree in H. destruct (alloc_at sd t (length s)) as [u e] eqn:E.
  inversion H; subst. destruct (alloc_at_ok _ _ _ _ _ E) as (Hv & He).
  exists e. rewrite app_length. auto.
Qed.

Lemma alloc_trees_ok : forall sd l s vs s', alloc_trees sd l s = (vs, s') -> allocs_ok sd s vs s'.
Proof.
  intros sd l s vs s' H. unfold alloc_trees in H. destruct (allocs_at sd l (length s)) as [u e] eqn:E.
  inversion H; subst. destruct (allocs_at_ok _ _ _ _ _ E) as (Hv & He).
  exists e. rewrite app_length. auto.
Qed.

(* ---------------------------------------------------------------- the invariant *)
(* Q says which locations the running function may know about. *)
Definition closed (Q : side -> nat -> Prop) (w : world) : Prop :=
  forall sd a cell, Q sd a -> rd w sd a = Some cell -> Forall (vall Q) cell.

Definition regs_in (Q : side -> nat -> Prop) (r : regs) : Prop := forall x v, r x = Some v -> vall Q v.

Record inv (n0 c0 : nat) (Q : side -> nat -> Prop) (r : regs) (w : world) : Prop := {
  inv_regs : regs_in Q r;
  inv_closed : closed Q w;
  inv_n0 : n0 <= length (wI w);
  inv_c0 : length (wC w) = c0 }.

Definition goodQ (n0 c0 : nat) (Q : side -> nat -> Prop) : Prop :=
  (forall a, n0 <= a -> Q Interp a) /\ (forall a, Q Caller a -> c0 <= a).

Lemma regs_in_rset : forall Q r d v, regs_in Q r -> vall Q v -> regs_in Q (rset r d v).
Proof.
  intros Q r d v Hr Hv x u. unfold rset. destruct (Nat.eqb x d); intros H; [inversion H; subst; auto|eauto].
Qed.

Lemma oval_in : forall Q r o v, regs_in Q r -> oval r o = Some v -> vall Q v.
Proof. intros Q r [x|z] v Hr H; cbn in H; [eauto|inversion H; exact I]. Qed.

Lemma map_oval_in : forall Q r os vs, regs_in Q r -> map_opt (oval r) os = Some vs -> Forall (vall Q) vs.
Proof. intros. eapply map_opt_Forall; eauto. intros. eapply oval_in; eauto. Qed.

Lemma Forall_nth_error : forall A (P : A -> Prop) l n x, Forall P l -> nth_error l n = Some x -> P x.
Proof. intros A P l n x H Hn. rewrite Forall_forall in H. apply H. eapply nth_error_In; eauto. Qed.

Lemma exec_cmd_inv : forall n0 c0 Q c r w k r' w' wr,
  goodQ n0 c0 Q -> inv n0 c0 Q r w -> exec_cmd c r w k = Some (r', w', wr) ->
  inv n0 c0 Q r' w' /\ wC w' = wC w /\
  (forall a cell, ~ Q Interp a -> nth_error (wI w) a = Some cell -> nth_error (wI w') a = Some cell).
Proof.
  intros n0 c0 Q c r w k r' w' wr [HQi HQc] [Hr Hc Hn Hc0] H.
  destruct k as [d o|d os|d os|d x i|x i o|d a b|d a]; cbn in H.
  - destruct (oval r o) as [v|] eqn:E; [|discriminate]. inversion H; subst.
    repeat split; auto. apply regs_in_rset; auto. eapply oval_in; eauto.
  - destruct (map_opt (oval r) os) as [vs|] eqn:E; [|discriminate]. inversion H; subst; clear H.
    assert (Hvs : Forall (vall Q) vs) by (eapply map_oval_in; eauto).
    split; [|split]; cbn; auto.
    + constructor; cbn.
      * apply regs_in_rset; auto. cbn. apply HQi; auto.
      * intros sd a cell HQ Hrd. destruct sd; unfold rd in *; cbn in *.
        { eapply (Hc Caller); eauto. }
        destruct (lt_dec a (length (wI w))) as [Hlt|Hge].
        { rewrite nth_error_app1 in Hrd by auto. eapply (Hc Interp); eauto. }
        { rewrite nth_error_app2 in Hrd by lia.
          destruct (a - length (wI w)) as [|m]; cbn in Hrd; [inversion Hrd; subst; auto|].
          destruct m; discriminate. }
      * rewrite app_length. lia.
      * auto.
    + intros a cell _ Hn'. rewrite nth_error_app1; auto. apply nth_error_Some. congruence.
  - destruct (map_opt (oval r) os) as [vs|] eqn:E; [|discriminate]. inversion H; subst.
    repeat split; auto. apply regs_in_rset; auto. apply vall_tup. eapply map_oval_in; eauto.
  - destruct (r x) as [[z|l|sd a]|] eqn:Ex; try discriminate.
    + destruct (nth_error l i) as [v|] eqn:Ei; [|discriminate]. inversion H; subst.
      repeat split; auto. apply regs_in_rset; auto.
      apply Hr in Ex. apply vall_tup in Ex. eapply Forall_nth_error; eauto.
    + destruct (rd w sd a) as [cell|] eqn:Erd; [|discriminate].
      destruct (nth_error cell i) as [v|] eqn:Ei; [|discriminate]. inversion H; subst.
      repeat split; auto. apply regs_in_rset; auto.
      apply Hr in Ex. cbn in Ex. eapply Forall_nth_error; [eapply Hc; eauto|eauto].
  - destruct (r x) as [[z|l|sd a]|] eqn:Ex; try (destruct (oval r o); discriminate).
    destruct (oval r o) as [v|] eqn:Eo; [|discriminate].
    destruct (rd w sd a) as [cell|] eqn:Erd; [|discriminate].
    destruct (upd_nth cell i v) as [cell'|] eqn:Eu; [|discriminate].
    destruct (upd_nth (sto w sd) a cell') as [s'|] eqn:Eu2; [|discriminate].
    inversion H; subst; clear H.
    assert (HQa : Q sd a) by (apply Hr in Ex; exact Ex).
    assert (Hv : vall Q v) by (eapply oval_in; eauto).
    destruct sd.
    { (* a caller-side location known to the function would be >= c0: not allocated *)
      exfalso. apply HQc in HQa. unfold rd in Erd; cbn in Erd.
      assert (a < length (wC w)) by (apply nth_error_Some; congruence). lia. }
    destruct (upd_nth_spec _ _ _ _ _ Eu2) as (Hlen & Hat & Hoth). cbn in *.
    split; [|split]; auto.
    + constructor; cbn; auto.
      * intros sd b cellb HQb Hrd. destruct sd; unfold rd in *; cbn in *.
        { eapply (Hc Caller); eauto. }
        destruct (Nat.eq_dec b a) as [->|Hne].
        { rewrite Hat in Hrd. inversion Hrd; subst.
          eapply upd_nth_Forall; eauto; eapply (Hc Interp); eauto. }
        { rewrite Hoth in Hrd by auto. eapply (Hc Interp); eauto. }
      * lia.
    + intros b cellb HnQ Hb. rewrite Hoth; auto. intros ->. auto.
  - destruct (onum r a) as [x|]; [|discriminate]. destruct (onum r b) as [y|]; [|discriminate].
    inversion H; subst. repeat split; auto. apply regs_in_rset; auto. exact I.
  - destruct (onum r a) as [x|]; [|discriminate].
    inversion H; subst. repeat split; auto. apply regs_in_rset; auto. exact I.
Qed.

Lemma exec_inv : forall n0 c0 Q c ks r w log w' log' ro,
  goodQ n0 c0 Q -> inv n0 c0 Q r w -> exec c ks r w log = (w', log', ro) ->
  closed Q w' /\ n0 <= length (wI w') /\ wC w' = wC w /\
  (forall r', ro = Some r' -> regs_in Q r') /\
  (forall a cell, ~ Q Interp a -> nth_error (wI w) a = Some cell -> nth_error (wI w') a = Some cell).
Proof.
  intros n0 c0 Q c ks. induction ks as [|k ks IH]; intros r w log w' log' ro HQ Hinv H; cbn in H.
  - inversion H; subst. destruct Hinv. repeat split; auto. intros r' E; inversion E; subst; auto.
  - destruct (exec_cmd c r w k) as [[[r1 w1] wr]|] eqn:E.
    + destruct (exec_cmd_inv _ _ _ _ _ _ _ _ _ _ HQ Hinv E) as (Hinv1 & HC1 & Hfr1).
      destruct (IH _ _ _ _ _ _ HQ Hinv1 H) as (A & B & C & D & F).
      split; [exact A|]. split; [exact B|]. split; [congruence|]. split; [exact D|].
      intros a cell HnQ Ha. apply F; auto.
    + inversion H; subst. destruct Hinv. repeat split; auto. intros r' E'; discriminate.
Qed.

(* ---------------------------------------------------------------- reachability stays inside a closed set *)
Lemma reach_closed : forall Q w v sd a, closed Q w -> vall Q v -> reach w v sd a -> Q sd a.
Proof.
  intros Q w v sd a Hc Hv Hr. induction Hr as [sd a|l v sd a Hin Hr IH|sd0 a0 cell v sd a Hrd Hin Hr IH].
  - exact Hv.
  - apply IH. apply vall_tup in Hv. rewrite Forall_forall in Hv. auto.
  - apply IH. cbn in Hv. specialize (Hc _ _ _ Hv Hrd). rewrite Forall_forall in Hc. auto.
Qed.

(* ---------------------------------------------------------------- to_value(s) *)
Lemma to_value_spec : forall fuel w v v' w1, to_value fuel w v = Some (v', w1) ->
  wC w1 = wC w /\ alloc_ok Interp (wI w) v' (wI w1).
Proof.
  intros fuel w v v' w1 H. unfold to_value in H.
  destruct (snap fuel w v) as [t|]; [|discriminate].
  destruct (alloc_tree Interp t (wI w)) as [u s'] eqn:E. inversion H; subst. cbn.
  split; auto. eapply alloc_tree_ok; eauto.
Qed.

Lemma to_values_spec : forall fuel vs w vs' w1, to_values fuel w vs = Some (vs', w1) ->
  wC w1 = wC w /\ allocs_ok Interp (wI w) vs' (wI w1).
Proof.
  intros fuel. induction vs as [|v r IH]; intros w vs' w1 H; cbn in H.
  - inversion H; subst. split; auto. exists []. rewrite app_nil_r. repeat split; constructor.
  - destruct (to_value fuel w v) as [[v' wa]|] eqn:E1; [|discriminate].
    destruct (to_values fuel wa r) as [[vs2 wb]|] eqn:E2; [|discriminate]. inversion H; subst.
    destruct (to_value_spec _ _ _ _ _ E1) as (HC1 & e1 & Hs1 & Hv & He1).
    destruct (IH _ _ _ E2) as (HC2 & e2 & Hs2 & Hvs & He2).
    split; [congruence|]. exists (e1 ++ e2). rewrite Hs2, Hs1, app_assoc. split; [reflexivity|].
    rewrite Hs1 in *. rewrite Hs2 in *. repeat rewrite app_length in *. split.
    + constructor.
      * eapply vall_mono; [|exact Hv]. apply fr_mono; lia.
      * eapply Forall_vall_mono; [|exact Hvs]. apply fr_mono; lia.
    + apply Forall_app. split.
      * eapply Forall_impl; [|exact He1]. intros c. apply Forall_vall_mono. apply fr_mono; lia.
      * eapply Forall_impl; [|exact He2]. intros c. apply Forall_vall_mono. apply fr_mono; lia.
Qed.

(* extending a closed world by cells that only mention fresh locations *)
Lemma closed_extend_I : forall Q w ext,
  closed Q w ->
  Forall (Forall (vall Q)) ext ->
  closed Q (mkW (wC w) (wI w ++ ext)).
Proof.
  intros Q w ext Hc Hext sd a cell HQ Hrd. destruct sd; unfold rd in *; cbn in *.
  - eapply (Hc Caller); eauto.
  - destruct (lt_dec a (length (wI w))).
    + rewrite nth_error_app1 in Hrd by auto. eapply (Hc Interp); eauto.
    + rewrite nth_error_app2 in Hrd by lia. eapply Forall_nth_error; eauto.
Qed.

Lemma closed_extend_C : forall Q w ext,
  closed Q w ->
  Forall (Forall (vall Q)) ext ->
  closed Q (mkW (wC w ++ ext) (wI w)).
Proof.
  intros Q w ext Hc Hext sd a cell HQ Hrd. destruct sd; unfold rd in *; cbn in *.
  - destruct (lt_dec a (length (wC w))).
    + rewrite nth_error_app1 in Hrd by auto. eapply (Hc Caller); eauto.
    + rewrite nth_error_app2 in Hrd by lia. eapply Forall_nth_error; eauto.
  - eapply (Hc Interp); eauto.
Qed.

(* ---------------------------------------------------------------- the call *)
(* what a call may know: the captured region K and everything allocated after the call started *)
Definition known (K : nat -> Prop) (n0 c0 : nat) : side -> nat -> Prop :=
  fun sd a => match sd with Caller => c0 <= a | Interp => K a \/ n0 <= a end.

Definition Kset (K : nat -> Prop) : side -> nat -> Prop := fun sd a => sd = Interp /\ K a.

Lemma known_good : forall K n0 c0, goodQ n0 c0 (known K n0 c0).
Proof. intros. split; cbn; auto. Qed.

Lemma closed_known_start : forall K w, closed (Kset K) w ->
  closed (known K (length (wI w)) (length (wC w))) w.
Proof.
  intros K w Hc sd a cell HQ Hrd.
  assert (Hlt : a < length (sto w sd)) by (apply nth_error_Some; unfold rd in Hrd; congruence).
  destruct sd; cbn in *; [lia|]. destruct HQ as [HK|]; [|lia].
  eapply Forall_vall_mono; [|eapply (Hc Interp a); [split; auto|exact Hrd]].
  intros sd' a' [-> HK']. cbn. auto.
Qed.

Lemma call_inv : forall rebuild fuel c b caps w args w' r (K : nat -> Prop),
  closed (Kset K) w ->
  Forall (vall (Kset K)) caps ->
  call true rebuild fuel c b caps w args = (w', r) ->
  let Q := known K (length (wI w)) (length (wC w)) in
  closed Q w' /\ (forall v, r = Some v -> vall Q v) /\
  (exists ext, wC w' = wC w ++ ext /\ (rebuild = false -> ext = [])) /\
  (forall a cell, ~ Q Interp a -> nth_error (wI w) a = Some cell -> nth_error (wI w') a = Some cell).
Proof.
  intros rebuild fuel c b caps w args w' r K HcK Hcaps H Q.
  assert (HQ0 : closed Q w) by (apply closed_known_start; auto).
  unfold call in H. cbn [negb] in H.
  destruct (to_values fuel w args) as [[args' w1]|] eqn:Etv.
  2:{ inversion H; subst. repeat split; auto; try discriminate.
      exists []. rewrite app_nil_r. auto. }
  destruct (to_values_spec _ _ _ _ _ Etv) as (HC1 & e1 & Hs1 & Hargs & He1).
  assert (HsubI : forall sd a, fr Interp (length (wI w)) (length (wI w1)) sd a -> Q sd a).
  { intros sd a [-> Hr]. cbn. right. lia. }
  assert (Hcl1 : closed Q w1).
  { replace w1 with (mkW (wC w) (wI w ++ e1)) by (destruct w1; cbn in *; congruence).
    apply closed_extend_I; auto.
    eapply Forall_impl; [|exact He1]. intros cell. apply Forall_vall_mono; auto. }
  assert (Hinv : inv (length (wI w)) (length (wC w)) Q (init_regs (args' ++ caps)) w1).
  { constructor; auto.
    - intros x v Hx. unfold init_regs in Hx. apply nth_error_In in Hx. apply in_app_or in Hx.
      destruct Hx as [Hx|Hx].
      + rewrite Forall_forall in Hargs. eapply vall_mono; [|apply Hargs; exact Hx]. auto.
      + rewrite Forall_forall in Hcaps. eapply vall_mono; [|apply Hcaps; exact Hx].
        intros sd a [-> HK]. cbn. auto.
    - rewrite Hs1, app_length. lia.
    - congruence. }
  unfold apply_body in H.
  destruct (exec c (b_cmds b) (init_regs (args' ++ caps)) w1 []) as [[w2 log] ro] eqn:Eex.
  destruct (exec_inv _ _ _ _ _ _ _ _ _ _ _ (known_good _ _ _) Hinv Eex) as (Hcl2 & Hn2 & HC2 & Hr2 & Hfr2).
  assert (Hfr : forall a cell, ~ Q Interp a -> nth_error (wI w) a = Some cell -> nth_error (wI w2) a = Some cell).
  { intros a cell HnQ Ha. apply Hfr2; auto. rewrite Hs1. rewrite nth_error_app1; auto.
    apply nth_error_Some. congruence. }
  assert (HCw2 : wC w2 = wC w) by congruence.
  assert (Hdone : closed Q w2 /\ (exists ext, wC w2 = wC w ++ ext /\ (rebuild = false -> ext = []))).
  { split; auto. exists []. rewrite app_nil_r. auto. }
  destruct ro as [r2|].
  2:{ inversion H; subst. destruct Hdone. repeat split; auto; discriminate. }
  destruct (oval r2 (b_ret b)) as [v|] eqn:Eret.
  2:{ inversion H; subst. destruct Hdone. repeat split; auto; discriminate. }
  assert (Hv : vall Q v) by (eapply oval_in; [apply Hr2; reflexivity|exact Eret]).
  unfold from_value in H. destruct rebuild.
  - destruct (snap fuel w2 v) as [t|].
    2:{ inversion H; subst. destruct Hdone. repeat split; auto; discriminate. }
    destruct (alloc_tree Caller t (wC w2)) as [v' s'] eqn:Eal. inversion H; subst; clear H.
    destruct (alloc_tree_ok _ _ _ _ _ Eal) as (e2 & -> & Hv' & He2).
    assert (HsubC : forall sd a, fr Caller (length (wC w2)) (length (wC w2 ++ e2)) sd a -> Q sd a).
    { intros sd a [-> Hr]. cbn. rewrite HCw2 in Hr. lia. }
    split; [|split; [|split]].
    + apply (closed_extend_C Q w2 e2); auto.
      eapply Forall_impl; [|exact He2]. intros cell. apply Forall_vall_mono; auto.
    + intros u Hu. inversion Hu; subst. eapply vall_mono; [|exact Hv']. auto.
    + exists e2. cbn. rewrite HCw2. split; auto. discriminate.
    + cbn. auto.
  - inversion H; subst. destruct Hdone. repeat split; auto. intros u Hu; inversion Hu; subst; auto.
Qed.

(* C18, first half: no caller-heap location is written, whatever the body does *)
Theorem args_untouched : forall rebuild fuel c b caps w args w' r,
  sall ionly (wI w) -> Forall (vall ionly) caps ->
  call true rebuild fuel c b caps w args = (w', r) ->
  forall a cell, nth_error (wC w) a = Some cell -> nth_error (wC w') a = Some cell.
Proof.
  intros rebuild fuel c b caps w args w' r Hio Hcaps H a cell Ha.
  pose (K := fun _ : nat => True).
  assert (HcK : closed (Kset K) w).
  { intros sd x cl [-> _] Hrd. unfold rd in Hrd; cbn in Hrd.
    eapply Forall_vall_mono; [|eapply Forall_nth_error; [exact Hio|exact Hrd]].
    intros sd' a' Hs. split; auto. exact I. }
  assert (HcapsK : Forall (vall (Kset K)) caps).
  { eapply Forall_vall_mono; [|exact Hcaps]. intros sd' a' Hs. split; auto. exact I. }
  destruct (call_inv _ _ _ _ _ _ _ _ _ K HcK HcapsK H) as (_ & _ & (ext & -> & _) & _).
  rewrite nth_error_app1; auto. apply nth_error_Some. congruence.
Qed.

Theorem args_untouched_strict : forall fuel c b caps w args w' r,
  sall ionly (wI w) -> Forall (vall ionly) caps ->
  call true false fuel c b caps w args = (w', r) -> wC w' = wC w.
Proof.
  intros fuel c b caps w args w' r Hio Hcaps H.
  pose (K := fun _ : nat => True).
  assert (HcK : closed (Kset K) w).
  { intros sd x cl [-> _] Hrd. unfold rd in Hrd; cbn in Hrd.
    eapply Forall_vall_mono; [|eapply Forall_nth_error; [exact Hio|exact Hrd]].
    intros sd' a' Hs. split; auto. exact I. }
  assert (HcapsK : Forall (vall (Kset K)) caps).
  { eapply Forall_vall_mono; [|exact Hcaps]. intros sd' a' Hs. split; auto. exact I. }
  destruct (call_inv _ _ _ _ _ _ _ _ _ K HcK HcapsK H) as (_ & _ & (ext & -> & Hext) & _).
  rewrite (Hext eq_refl). apply app_nil_r.
Qed.

(* deep form: what the caller sees when it reads its argument again *)
Definition conly : side -> nat -> Prop := fun sd _ => sd = Caller.

Lemma snap_stable : forall Q w w', closed Q w ->
  (forall sd a cell, Q sd a -> rd w sd a = Some cell -> rd w' sd a = Some cell) ->
  forall fuel v t, vall Q v -> snap fuel w v = Some t -> snap fuel w' v = Some t.
Proof.
  intros Q w w' Hc Hag. induction fuel as [|f IH]; intros v t Hv H; cbn in *; [discriminate|].
  destruct v as [z|l|sd a]; auto.
  - destruct (map_opt (snap f w) l) as [ts|] eqn:E; [|discriminate]. cbn in H.
    rewrite (map_opt_ext_in _ _ (snap f w) (snap f w') l ts E); auto.
    intros x y Hin Hx. apply IH; auto. apply vall_tup in Hv. rewrite Forall_forall in Hv. auto.
  - destruct (rd w sd a) as [cell|] eqn:Erd; [|discriminate]. cbn in Hv.
    rewrite (Hag _ _ _ Hv Erd).
    destruct (map_opt (snap f w) cell) as [ts|] eqn:E; [|discriminate]. cbn in H.
    rewrite (map_opt_ext_in _ _ (snap f w) (snap f w') cell ts E); auto.
    intros x y Hin Hx. apply IH; auto. specialize (Hc _ _ _ Hv Erd). rewrite Forall_forall in Hc. auto.
Qed.

Theorem args_untouched_deep : forall rebuild fuel c b caps w args w' r,
  sall ionly (wI w) -> Forall (vall ionly) caps -> sall conly (wC w) ->
  call true rebuild fuel c b caps w args = (w', r) ->
  forall arg fuel' t, vall conly arg -> snap fuel' w arg = Some t -> snap fuel' w' arg = Some t.
Proof.
  intros rebuild fuel c b caps w args w' r Hio Hcaps Hco H arg fuel' t Harg Hs.
  eapply (snap_stable conly w w'); eauto.
  - intros sd a cell -> Hrd. unfold rd in Hrd; cbn in Hrd. eapply Forall_nth_error; eauto.
  - intros sd a cell -> Hrd. unfold rd in *; cbn in *. eapply args_untouched; eauto.
Qed.

(* C18, second half: whatever is reachable from the result is either freshly
   allocated by this call or belongs to the captured region K of the callee. *)
Theorem result_fresh : forall rebuild fuel c b caps w args w' r (K : nat -> Prop),
  closed (Kset K) w -> Forall (vall (Kset K)) caps ->
  call true rebuild fuel c b caps w args = (w', Some r) ->
  forall sd a, reach w' r sd a ->
    match sd with Caller => length (wC w) <= a | Interp => K a \/ length (wI w) <= a end.
Proof.
  intros rebuild fuel c b caps w args w' r K HcK Hcaps H sd a Hr.
  destruct (call_inv _ _ _ _ _ _ _ _ _ K HcK Hcaps H) as (Hcl & Hv & _ & _).
  apply (reach_closed _ _ _ _ _ Hcl (Hv r eq_refl) Hr).
Qed.

Lemma closed_bounded : forall w, bounded w -> closed (inb w) w.
Proof.
  intros w [HC HI] sd a cell _ Hrd. unfold rd in Hrd. destruct sd; cbn in Hrd.
  - exact (Forall_nth_error _ _ _ _ _ HC Hrd).
  - exact (Forall_nth_error _ _ _ _ _ HI Hrd).
Qed.

(* ... hence it shares no list with anything the caller passed in, provided the
   callee's captured copies have not been handed to the caller before *)
Theorem result_disjoint_args : forall rebuild fuel c b caps w args w' r (K : nat -> Prop),
  bounded w -> closed (Kset K) w -> Forall (vall (Kset K)) caps ->
  call true rebuild fuel c b caps w args = (w', Some r) ->
  forall arg, vall (inb w) arg -> (forall a, K a -> ~ reach w arg Interp a) ->
  forall sd a, reach w' r sd a -> ~ reach w arg sd a.
Proof.
  intros rebuild fuel c b caps w args w' r K Hb HcK Hcaps H arg Harg HKarg sd a Hr Ha.
  pose proof (result_fresh _ _ _ _ _ _ _ _ _ K HcK Hcaps H sd a Hr) as HQ.
  pose proof (reach_closed _ _ _ _ _ (closed_bounded w Hb) Harg Ha) as Hin.
  unfold inb in Hin. destruct sd; cbn in *; [lia|]. destruct HQ as [HK|]; [|lia].
  eapply HKarg; eauto.
Qed.

(* a callee without captured containers: unconditional *)
Theorem result_fresh_no_captures : forall rebuild fuel c b w args w' r,
  bounded w -> call true rebuild fuel c b [] w args = (w', Some r) ->
  forall arg, vall (inb w) arg -> forall sd a, reach w' r sd a -> ~ reach w arg sd a.
Proof.
  intros rebuild fuel c b w args w' r Hb H arg Harg.
  eapply (result_disjoint_args rebuild fuel c b [] w args w' r (fun _ => False)); eauto.
  intros sd a cell [_ []].
Qed.

(* ---------------------------------------------------------------- non-vacuity / refutations *)
(* a body that overwrites element 0 of its list parameter and returns it *)
Definition ex_body_mut : body := mkBody [CSet 0 0 (ONum 7)] (OReg 0).
Definition ex_world : world := mkW [[VNum 1; VNum 2]] [].

Example args_untouched_nonvacuous :
  call true false 5 RNE ex_body_mut [] ex_world [VRef Caller 0]
  = (mkW [[VNum 1; VNum 2]] [[VNum 7; VNum 2]], Some (VRef Interp 0)).
Proof. vm_compute. reflexivity. Qed.

(* skipping the conversion at the boundary (convert = false) lets the body write the caller's list *)
Example convert_false_refuted :
  exists b w args w' r, call false false 5 RNE b [] w args = (w', r) /\ wC w' <> wC w.
Proof.
  exists ex_body_mut, ex_world, [VRef Caller 0]. eexists. eexists. split.
  - vm_compute. reflexivity.
  - cbn. discriminate.
Qed.

(* DEFECT (captured_list_returned_shared): a body that returns its captured list
   hands out the interpreter's own object; once the caller holds it, the result
   of the next call shares it with the argument. *)
Example result_fresh_captured_refuted :
  exists b caps w arg w' r,
    call true false 5 RNE b caps w [arg] = (w', Some r) /\
    reach w' r Interp 0 /\ reach w arg Interp 0.
Proof.
  exists (mkBody [] (OReg 1)), [VRef Interp 0], (mkW [] [[VNum 1]]), (VRef Interp 0).
  eexists. eexists. split; [vm_compute; reflexivity|]. split; constructor.
Qed.
