(* Property C04 — programs evaluate by the documented context-scoped semantics.
   Only statements, each closed by `exact`, each followed by Print Assumptions.
   `N` is any number instance (rounding + exact operations), `P` any program. *)
From Coq Require Import ZArith List Bool String.
From FpyV Require Import Num.RealFloat Num.Float Num.CtxDef Lang.Syntax Lang.Values Lang.Sem Lang.SemProps
  Lang.SemMono Lang.NumInst Lang.PyIR Lang.Compile Lang.CompileProofs Lang.CompileCorrect Lang.HelperProofs
  Num.Ctx Num.Arith Lang.NumInst2 Lang.NumInst2Proofs.
Import ListNotations.
Open Scope Z_scope.

(* A `with` block sets the context for exactly its body: the statements after it
   run under the context that was active before it, whatever the block did. *)
Theorem C04_context_lexically_scoped : forall N P n s mu C x e body rest s' mu',
  exec N P n s mu C (SContext x e body) = ROk (ONormal s', mu') ->
  exec_block N P (S n) s mu C (SContext x e body :: rest) = exec_block N P n s' mu' C rest.
Proof. exact context_lexically_scoped. Qed.
Print Assumptions C04_context_lexically_scoped.

Theorem C04_context_return_propagates : forall N P n s mu C x e body rest v mu',
  exec N P n s mu C (SContext x e body) = ROk (OReturn v, mu') ->
  exec_block N P (S n) s mu C (SContext x e body :: rest) = ROk (OReturn v, mu').
Proof. exact context_return_propagates. Qed.
Print Assumptions C04_context_return_propagates.

(* ctor_args_exact: the context expression is evaluated under REAL, the body under its value *)
Theorem C04_ctor_args_exact : forall N P n s mu C x e body,
  exec N P (S n) s mu C (SContext x e body) =
  rbind (eval N P n s mu CReal e) (fun '(vc, mu1) =>
    match vc with
    | VCtx C' =>
        exec_block N P n (match x with Some x => env_set s x (VCtx C') | None => s end) mu1 C' body
    | _ => RErr TypeErr
    end).
Proof. exact exec_context_unfold. Qed.
Print Assumptions C04_ctor_args_exact.

Theorem C04_context_header_ignores_ambient : forall N P n s mu C1 C2 x e body,
  exec N P (S n) s mu C1 (SContext x e body) = exec N P (S n) s mu C2 (SContext x e body).
Proof. exact context_header_exact. Qed.
Print Assumptions C04_context_header_ignores_ambient.

(* callee context rule *)
Theorem C04_callee_ctx : forall N P n fn vs mu C,
  call N P (S n) fn vs mu C =
  rbind (lift (bind_params (f_params fn) vs [])) (fun s =>
    rbind (exec_block N P n s mu (match f_ctx fn with Some c => c | None => C end) (f_body fn))
      (fun '(o, mu1) => match o with OReturn v => ROk (v, mu1) | ONormal _ => RErr OtherErr end)).
Proof. exact call_unfold. Qed.
Print Assumptions C04_callee_ctx.

Theorem C04_callee_declared_ctx : forall N P n fn vs mu C1 C2 c,
  f_ctx fn = Some c -> call N P n fn vs mu C1 = call N P n fn vs mu C2.
Proof. exact callee_declared_ctx. Qed.
Print Assumptions C04_callee_declared_ctx.

(* a call from Python: declared context, else the caller's, else IEEE double *)
Theorem C04_run_ctx : forall N P n f fn args caller,
  lookup_fn P f = Some fn ->
  run N P n f args caller =
  let '(vs, mu) := inject_all args [] in
  rbind (call N P n fn vs mu (match caller with Some c => c | None => FP64 end)) (fun '(v, mu1) =>
    match extract n mu1 v with Some c => ROk c | None => RFuel end).
Proof. exact run_ctx. Qed.
Print Assumptions C04_run_ctx.

(* no entry rounding: parameters are bound to the argument values themselves *)
Theorem C04_no_entry_rounding : forall xs vs s s',
  bind_params xs vs s = Ok s' -> NoDup xs ->
  forall i x v, nth_error xs i = Some x -> nth_error vs i = Some v -> env_get s' x = Some v.
Proof. exact bind_params_exact. Qed.
Print Assumptions C04_no_entry_rounding.

(* ------------------------------------------------------------------ the compile scheme *)
(* with_restores_ctx: in the mini-Python IR where `__ctx__` is an ordinary mutable
   local and `with` is compiled to stash / try / finally-restore (BytecodeCompiler.
   _visit_context), the local holds its previous value after the compiled `with`
   for EVERY outcome of the block: normal, `return` (from any depth of loops),
   exception. *)
Theorem C04_with_restores_ctx : forall N P k x e body pst k' ps mu o mu',
  compile_stmt k (SContext x e body) = (pst, k') ->
  pyrel N P ps mu pst o mu' ->
  p_ctx (state_of o) = p_ctx ps.
Proof. exact with_restores_ctx. Qed.
Print Assumptions C04_with_restores_ctx.

(* the hypotheses are satisfiable, and the same statement WITHOUT the finally leaks *)
Theorem C04_with_restores_example : forall N P,
  exists o mu',
    pyrel N P (PS [] (VCtx FP64) []) [] (fst (compile_stmt O (SContext None (ECtxVal CReal) []))) o mu' /\
    p_ctx (state_of o) = VCtx FP64.
Proof. exact with_restores_example. Qed.
Print Assumptions C04_with_restores_example.

Theorem C04_with_norestore_leaks : forall N P,
  exists ps mu o mu',
    pyrel N P ps mu (compile_with_norestore O None (ECtxVal CReal) []) o mu' /\
    p_ctx (state_of o) <> p_ctx ps.
Proof. exact with_norestore_leaks. Qed.
Print Assumptions C04_with_norestore_leaks.

(* compile_correct (statement core; expressions abstracted as "evaluates like the
   source expression under the context stored in the local"): every outcome the
   documented semantics assigns to a function body under context C is an outcome
   of the compiled body started with `__ctx__` = C — same returned value, same
   variables, same store, and `__ctx__` = C again on normal completion.
   Partial: the error outcomes (RErr) of the source semantics are not covered — the
   converse fails for ill-typed programs only: `with 3: pass` is a TypeError in Sem.v
   but completes in the compiled code, because the emitted code does not check that
   the `with` operand is a Context until an operation uses it. *)
Theorem C04_compile_correct_partial : forall N P n s mu C b o mu',
  exec_block N P n s mu C b = ROk (o, mu') ->
  exists po, pyrel_block N P (init_pstate s C) mu (fst (compile_block O b)) po mu' /\ sim_out C o po.
Proof. exact compile_correct. Qed.
Print Assumptions C04_compile_correct_partial.

(* ------------------------------------------------------------------ fuel *)
Theorem C04_run_fuel_monotone : forall N P n m f args caller c,
  run N P n f args caller = ROk c -> (n <= m)%nat -> run N P m f args caller = ROk c.
Proof. exact run_mono. Qed.
Print Assumptions C04_run_fuel_monotone.

Theorem C04_exec_fuel_monotone : forall N P n m s mu C st r,
  exec N P n s mu C st = r -> r <> RFuel -> (n <= m)%nat -> exec N P m s mu C st = r.
Proof. exact exec_mono. Qed.
Print Assumptions C04_exec_fuel_monotone.

(* ------------------------------------------------------------------ run-time helpers *)
Theorem C04_negative_index_rejected : forall z, z < 0 -> cvt_index (VNum (num_of_Z z)) = RErr IndexErr.
Proof. exact negative_index_rejected. Qed.
Print Assumptions C04_negative_index_rejected.

Theorem C04_index_past_end_rejected : forall vs i, (List.length vs <= i)%nat -> list_nth vs i = RErr IndexErr.
Proof. exact index_past_end_rejected. Qed.
Print Assumptions C04_index_past_end_rejected.

Theorem C04_slice_strict : forall vs a b r,
  list_slice vs (ZV a) (ZV b) = ROk r ->
  0 <= a /\ a <= b /\ b <= Z.of_nat (List.length vs) /\ Z.of_nat (List.length r) = b - a.
Proof. exact slice_strict. Qed.
Print Assumptions C04_slice_strict.

Theorem C04_slice_out_of_range : forall vs a b,
  a < 0 \/ b > Z.of_nat (List.length vs) \/ a > b -> list_slice vs (ZV a) (ZV b) = RErr IndexErr.
Proof. exact slice_out_of_range. Qed.
Print Assumptions C04_slice_out_of_range.

Theorem C04_zip_strict : forall ls r,
  zip_lists ls = ROk r -> forall l, In l ls -> List.length l = List.length r.
Proof. exact zip_strict. Qed.
Print Assumptions C04_zip_strict.

Theorem C04_zip_ragged_rejected : forall l0 l rest,
  In l rest -> List.length l <> List.length l0 -> zip_lists (l0 :: rest) = RErr ValueErr.
Proof. exact zip_ragged_rejected. Qed.
Print Assumptions C04_zip_ragged_rejected.

Theorem C04_minmax_nan_propagates : forall N is_max xs x,
  In x xs -> num_isnan x = true -> exists y, minmax N is_max xs = ROk y /\ num_isnan y = true.
Proof. exact minmax_nan_propagates. Qed.
Print Assumptions C04_minmax_nan_propagates.

Theorem C04_min_zero_tie : minmax prov_numops false [pz; nz] = ROk nz /\ minmax prov_numops false [nz; pz] = ROk nz.
Proof. exact min_zero_tie. Qed.
Print Assumptions C04_min_zero_tie.

Theorem C04_max_zero_tie : minmax prov_numops true [pz; nz] = ROk pz /\ minmax prov_numops true [nz; pz] = ROk pz.
Proof. exact max_zero_tie. Qed.
Print Assumptions C04_max_zero_tie.

Theorem C04_sum_empty_exact : forall N C, sum_list N C [] = ROk num_zero.
Proof. exact sum_empty. Qed.
Print Assumptions C04_sum_empty_exact.

Theorem C04_sum_left_fold : forall N C x y r,
  sum_list N C (VNum x :: VNum y :: r) =
  rbind (lift (n_binop N OAdd C x y)) (fun a => sum_from N C a r).
Proof. exact sum_step. Qed.
Print Assumptions C04_sum_left_fold.

Theorem C04_and_short_circuit : forall N P n s mu C e r mu1,
  eval N P n s mu C e = ROk (VBool false, mu1) ->
  bool_chain N P (S n) s mu C true (e :: r) = ROk (VBool false, mu1).
Proof. exact and_short_circuit. Qed.
Print Assumptions C04_and_short_circuit.

Theorem C04_or_short_circuit : forall N P n s mu C e r mu1,
  eval N P n s mu C e = ROk (VBool true, mu1) ->
  bool_chain N P (S n) s mu C false (e :: r) = ROk (VBool true, mu1).
Proof. exact or_short_circuit. Qed.
Print Assumptions C04_or_short_circuit.

Theorem C04_compare_chain_stops : forall N P n s mu C x y o ops e args mu1,
  is_ordering o = true -> cmp_test N o x y = false ->
  eval N P n s mu C e = ROk (VNum y, mu1) ->
  cmp_chain N P (S n) s mu C (VNum x) (o :: ops) (e :: args) = ROk (VBool false, mu1).
Proof. exact compare_chain_stops. Qed.
Print Assumptions C04_compare_chain_stops.

(* ------------------------------------------------------------------ refuted on the unchanged tree *)
(* Documented (derived-semantics.rst): `Len / Size / Dim: exact integer counts, no rounding`.
   Full-strength statement that does NOT hold for the code as it is:
     forall xs C, size of xs evaluated under C = len xs.
   The faithful model (ESize rounds, as ops.size does) gives the witness; see
   known finding `size-dim-rounded` and fixes/C04-size-dim-exact.diff. *)
Theorem C04_size_exact_refuted :
  exists sz ln, run prov_numops size_prog 50 "main" [CList five] None = ROk (CTuple [CNum sz; CNum ln]) /\
    num_same ln (num_of_Z 5) = true /\ num_same sz (num_of_Z 5) = false /\ num_same sz (num_of_Z 4) = true.
Proof. exact size_exact_refuted. Qed.
Print Assumptions C04_size_exact_refuted.

(* ------------------------------------------------------------------ arithmetic nodes and the proved number model *)
(* "Every arithmetic node is the exact operation rounded under the context active
   at that point": under the number instance `lead_numops` (the one the
   correspondence runs use), an arithmetic node whose operands evaluate to the
   dyadic numbers x, y IS `Num.Arith.arith op C [x; y]` with C the context the
   evaluator carries at that node — the object of the theorems of Props/C02.v
   (value = Flocq rounding of the exact result, rounded once) and, through
   `ctx_round`, of Props/C01.v.  (`arith_res` only repackages the result; the
   side condition excludes the five operations fpy2 has no engine for under REAL.) *)
Theorem C04_binop_node_is_arith : forall P n s mu C o a e1 e2 x y mu1 mu2,
  aop_of o = Some a -> (mpfr_only a && is_real_ctx C) = false ->
  eval lead_numops P n s mu C e1 = ROk (VNum (NF x), mu1) ->
  eval lead_numops P n s mu1 C e2 = ROk (VNum (NF y), mu2) ->
  eval lead_numops P (S n) s mu C (EOp2 o e1 e2) =
  match arith a C [x; y] with Ok (v, _) => ROk (VNum (num_of_xv v), mu2) | Err e => RErr e end.
Proof. exact binop_node_is_arith. Qed.
Print Assumptions C04_binop_node_is_arith.

Theorem C04_unop_node_is_arith : forall P n s mu C o a e x mu1,
  aop_of o = Some a -> o <> ORound -> o <> OCast -> (mpfr_only a && is_real_ctx C) = false ->
  eval lead_numops P n s mu C e = ROk (VNum (NF x), mu1) ->
  eval lead_numops P (S n) s mu C (EOp1 o e) =
  match arith a C [x] with Ok (v, _) => ROk (VNum (num_of_xv v), mu1) | Err er => RErr er end.
Proof. exact unop_node_is_arith. Qed.
Print Assumptions C04_unop_node_is_arith.

Theorem C04_fma_node_is_arith : forall P n s mu C e1 e2 e3 x y z mu1 mu2 mu3,
  eval lead_numops P n s mu C e1 = ROk (VNum (NF x), mu1) ->
  eval lead_numops P n s mu1 C e2 = ROk (VNum (NF y), mu2) ->
  eval lead_numops P n s mu2 C e3 = ROk (VNum (NF z), mu3) ->
  eval lead_numops P (S n) s mu C (EOp3 OFma e1 e2 e3) =
  match arith AFma C [x; y; z] with Ok (v, _) => ROk (VNum (num_of_xv v), mu3) | Err e => RErr e end.
Proof. exact fma_node_is_arith. Qed.
Print Assumptions C04_fma_node_is_arith.

Theorem C04_round_node_is_ctx_round : forall P n s mu C e x mu1,
  eval lead_numops P n s mu C e = ROk (VNum (NF x), mu1) ->
  eval lead_numops P (S n) s mu C (EOp1 ORound e) =
  match ctx_round0 C x with Ok (y, _) => ROk (VNum (NF y), mu1) | Err er => RErr er end.
Proof. exact round_node_is_ctx_round. Qed.
Print Assumptions C04_round_node_is_ctx_round.
