(* Property C04 — programs evaluate by the documented context-scoped semantics.
   Only statements, each closed by `exact`, each followed by Print Assumptions.
   `N` is any number instance (rounding + exact operations), `P` any program. *)
From Coq Require Import ZArith List Bool String.
From FpyV Require Import Num.RealFloat Num.Float Num.CtxDef Lang.Syntax Lang.Values Lang.Sem Lang.SemProps.
Import ListNotations.
Open Scope Z_scope.

(* A `with` block sets the context for exactly its body: the statements after it
   run under the context that was active before it, whatever the block did. *)
Theorem C04_context_lexically_scoped : forall N P n s mu C x e body rest s' mu',
  exec N P n s mu C (SContext x e body) = ROk (ONormal s', mu') ->
  exec_block N P (S n) s mu C (SContext x e body :: rest) = exec_block N P n s' mu' C rest.
Proof. exact context_lexically_scoped. Qed.
Print Assumptions C04_context_lexically_scoped.

Theorem C04_context_return_propagates : forall N P n s mu C x e body rest v mu',
  exec N P n s mu C (SContext x e body) = ROk (OReturn v, mu') ->
  exec_block N P (S n) s mu C (SContext x e body :: rest) = ROk (OReturn v, mu').
Proof. exact context_return_propagates. Qed.
Print Assumptions C04_context_return_propagates.

(* ctor_args_exact: the context expression is evaluated under REAL, the body under its value *)
Theorem C04_ctor_args_exact : forall N P n s mu C x e body,
  exec N P (S n) s mu C (SContext x e body) =
  rbind (eval N P n s mu CReal e) (fun '(vc, mu1) =>
    match vc with
    | VCtx C' =>
        exec_block N P n (match x with Some x => env_set s x (VCtx C') | None => s end) mu1 C' body
    | _ => RErr TypeErr
    end).
Proof. exact exec_context_unfold. Qed.
Print Assumptions C04_ctor_args_exact.

Theorem C04_context_header_ignores_ambient : forall N P n s mu C1 C2 x e body,
  exec N P (S n) s mu C1 (SContext x e body) = exec N P (S n) s mu C2 (SContext x e body).
Proof. exact context_header_exact. Qed.
Print Assumptions C04_context_header_ignores_ambient.

(* callee context rule *)
Theorem C04_callee_ctx : forall N P n fn vs mu C,
  call N P (S n) fn vs mu C =
  rbind (lift (bind_params (f_params fn) vs [])) (fun s =>
    rbind (exec_block N P n s mu (match f_ctx fn with Some c => c | None => C end) (f_body fn))
      (fun '(o, mu1) => match o with OReturn v => ROk (v, mu1) | ONormal _ => RErr OtherErr end)).
Proof. exact call_unfold. Qed.
Print Assumptions C04_callee_ctx.

Theorem C04_callee_declared_ctx : forall N P n fn vs mu C1 C2 c,
  f_ctx fn = Some c -> call N P n fn vs mu C1 = call N P n fn vs mu C2.
Proof. exact callee_declared_ctx. Qed.
Print Assumptions C04_callee_declared_ctx.

(* a call from Python: declared context, else the caller's, else IEEE double *)
Theorem C04_run_ctx : forall N P n f fn args caller,
  lookup_fn P f = Some fn ->
  run N P n f args caller =
  let '(vs, mu) := inject_all args [] in
  rbind (call N P n fn vs mu (match caller with Some c => c | None => FP64 end)) (fun '(v, mu1) =>
    match extract n mu1 v with Some c => ROk c | None => RFuel end).
Proof. exact run_ctx. Qed.
Print Assumptions C04_run_ctx.

(* no entry rounding: parameters are bound to the argument values themselves *)
Theorem C04_no_entry_rounding : forall xs vs s s',
  bind_params xs vs s = Ok s' -> NoDup xs ->
  forall i x v, nth_error xs i = Some x -> nth_error vs i = Some v -> env_get s' x = Some v.
Proof. exact bind_params_exact. Qed.
Print Assumptions C04_no_entry_rounding.
