(* Property C03 — elementary functions and constants are correctly rounded.
   The mechanism theorems; MPFR's own correctness is the explicit oracle
   hypothesis built into `mpfr_rto` (toward-zero significand + truthful inexact bit). *)
From Coq Require Import ZArith Bool Reals.
From Flocq Require Import Core.Zaux Core.Raux Core.Defs Core.Generic_fmt Core.FLX Core.FLT Core.FIX.
From Flocq Require Import Round_odd.
From FpyV Require Import Num.RealFloat Num.RoundSpec Num.RoundOdd Num.ElemProofs.
Open Scope Z_scope.

Theorem C03_rtz_sticky_is_rto : forall z,
  Zrnd_odd z = sticky_fix (Ztrunc z) (negb (Req_bool z (IZR (Ztrunc z)))) (Rlt_bool z 0).
Proof. exact rtz_sticky_is_rto. Qed.
Print Assumptions C03_rtz_sticky_is_rto.

Theorem C03_mpfr_value_spec : forall fe y, mpfr_rto fe y = round radix2 fe Zrnd_odd y.
Proof. exact mpfr_value_spec. Qed.
Print Assumptions C03_mpfr_value_spec.

Theorem C03_elem_once_FLT : forall emin p c rm y, 0 < p -> 2 <= c -> (1 < p \/ is_directed rm = true) ->
  round radix2 (FLT_exp emin p) (rnd_of rm) (mpfr_rto (FLT_exp (emin - c) (p + c)) y) =
  round radix2 (FLT_exp emin p) (rnd_of rm) y.
Proof. exact elem_once_FLT. Qed.
Print Assumptions C03_elem_once_FLT.

Theorem C03_elem_once_FLX : forall p c rm y, 0 < p -> 2 <= c -> (1 < p \/ is_directed rm = true) ->
  round radix2 (FLX_exp p) (rnd_of rm) (mpfr_rto (FLX_exp (p + c)) y) =
  round radix2 (FLX_exp p) (rnd_of rm) y.
Proof. exact elem_once_FLX. Qed.
Print Assumptions C03_elem_once_FLX.

Theorem C03_elem_once_FIX : forall n rm y,
  round radix2 (FIX_exp (n + 1)) (rnd_of rm) (mpfr_rto (FIX_exp (n + 1 - 2)) y) =
  round radix2 (FIX_exp (n + 1)) (rnd_of rm) y.
Proof. exact elem_once_FIX. Qed.
Print Assumptions C03_elem_once_FIX.

Theorem C03_two_pass_precision : forall n y, y <> 0%R ->
  let e := (mag radix2 y - 1)%Z in
  (n < e)%Z ->
  cexp radix2 (FLX_exp (e - n + 2)) y = cexp radix2 (FIX_exp (n + 1 - 2)) y.
Proof. exact two_pass_precision. Qed.
Print Assumptions C03_two_pass_precision.

Theorem C03_elem_exact_FLT : forall emin p c rm y, 0 < p -> 2 <= c ->
  generic_format radix2 (FLT_exp emin p) y ->
  mpfr_rto (FLT_exp (emin - c) (p + c)) y = y /\
  round radix2 (FLT_exp emin p) (rnd_of rm) y = y.
Proof. exact elem_exact_FLT. Qed.
Print Assumptions C03_elem_exact_FLT.
