(* Property C14 — format inference bounds every run-time value; part (a): the
   abstract arithmetic of AbstractFormat is sound (unbounded statements over the
   model coq/Analysis/AbsFormat.v).  gamma A is the set of extended reals with
   signed zero (type fl) the format A stands for; fl_add/fl_sub/fl_mul/fl_neg/
   fl_abs are the exact IEEE-754 operations (C05).  Only statements, each closed
   by `exact`, each followed by Print Assumptions.

   Where the faithful model refutes the full statement, the full statement is kept
   in the comment, `_refuted` exhibits the witness and `_partial` excludes exactly
   the refuted arm. *)
From Coq Require Import ZArith Bool Reals.
From Flocq Require Import Core.Zaux Core.Raux Core.Defs Core.Generic_fmt Core.FLT.
From FpyV Require Import Num.RealFloat Num.RealFloatProofs Num.Float Analysis.AbsFormat Analysis.AbsFormatProofs.
Open Scope Z_scope.

(* ---- sum, difference: full strength *)
Theorem C14_add_sound : forall A B C x y, af_wf A -> af_wf B -> af_add A B = Ok C ->
  gamma A x -> gamma B y -> gamma C (fl_add x y).
Proof. exact add_sound. Qed.
Print Assumptions C14_add_sound.

Theorem C14_sub_sound : forall A B C x y, af_wf A -> af_wf B -> af_sub A B = Ok C ->
  gamma A x -> gamma B y -> gamma C (fl_sub x y).
Proof. exact sub_sound. Qed.
Print Assumptions C14_sub_sound.

(* ---- union: full strength *)
Theorem C14_or_sound_l : forall A B v, af_wf A -> af_wf B -> gamma A v -> gamma (af_or A B) v.
Proof. exact or_sound_l. Qed.
Print Assumptions C14_or_sound_l.

Theorem C14_or_sound_r : forall A B v, af_wf A -> af_wf B -> gamma B v -> gamma (af_or A B) v.
Proof. exact or_sound_r. Qed.
Print Assumptions C14_or_sound_r.

(* ---- negation.  Full statement  forall A x, af_wf A -> gamma A x -> gamma (af_neg A) (fl_neg x)  is refuted *)
Theorem C14_neg_sound_refuted : exists A x, af_wf A /\ gamma A x /\ ~ gamma (af_neg A) (fl_neg x).
Proof. exact neg_sound_refuted. Qed.
Print Assumptions C14_neg_sound_refuted.

(* missing: the operand +0 of a format without a negative zero *)
Theorem C14_neg_sound_partial : forall A x, af_wf A -> gamma A x ->
  (is_poszero x = true -> a_nz A = true) -> gamma (af_neg A) (fl_neg x).
Proof. exact neg_sound_partial. Qed.
Print Assumptions C14_neg_sound_partial.

(* ---- absolute value.  Full statement  forall A x, af_wf A -> gamma A x -> gamma (af_abs A) (fl_abs x)  is refuted *)
Theorem C14_abs_sound_refuted : exists A x, af_wf A /\ gamma A x /\ ~ gamma (af_abs A) (fl_abs x).
Proof. exact abs_sound_refuted. Qed.
Print Assumptions C14_abs_sound_refuted.

(* missing: formats whose negative bound exceeds the positive bound in magnitude *)
Theorem C14_abs_sound_partial : forall A x, af_wf A ->
  (forall r, ge_bnd r (a_neg A) -> le_bnd (- r) (a_pos A)) ->
  gamma A x -> gamma (af_abs A) (fl_abs x).
Proof. exact abs_sound_partial. Qed.
Print Assumptions C14_abs_sound_partial.

(* ---- product.  Full statement
     forall A B C x y, af_wf A -> af_wf B -> af_mul A B = Ok C -> gamma A x -> gamma B y -> gamma C (fl_mul x y)
   is refuted twice: by the sign of a zero product, and by the bounds when a bound is infinite *)
Theorem C14_mul_sound_refuted : exists A B C x y,
  af_wf A /\ af_wf B /\ fin_bounds A /\ fin_bounds B /\ af_mul A B = Ok C /\
  gamma A x /\ gamma B y /\ ~ gamma C (fl_mul x y).
Proof. exact mul_sound_refuted. Qed.
Print Assumptions C14_mul_sound_refuted.

Theorem C14_mul_bounds_refuted : exists A B C x y,
  af_wf A /\ af_wf B /\ af_mul A B = Ok C /\ gamma A x /\ gamma B y /\ ~ gamma C (fl_mul x y).
Proof. exact mul_bounds_refuted. Qed.
Print Assumptions C14_mul_bounds_refuted.

(* missing: a -0 product when neither format has a negative zero; operands with an
   infinite (float) bound *)
Theorem C14_mul_sound_partial : forall A B C x y, af_wf A -> af_wf B -> af_mul A B = Ok C ->
  fin_bounds A -> fin_bounds B -> gamma A x -> gamma B y ->
  (is_negzero (fl_mul x y) = true -> a_nz A || a_nz B = true) ->
  gamma C (fl_mul x y).
Proof. exact mul_sound_partial. Qed.
Print Assumptions C14_mul_sound_partial.

(* ---- containment.  Full statement
     forall A B v, af_wf A -> af_wf B -> af_le A B = true -> gamma A v -> gamma B v   is refuted *)
Theorem C14_le_sound_refuted : exists A B v, af_wf A /\ af_wf B /\ af_le A B = true /\ gamma A v /\ ~ gamma B v.
Proof. exact le_sound_refuted. Qed.
Print Assumptions C14_le_sound_refuted.

(* missing: B of finite precision with exp = -inf (MPFloatFormat) and A.prec > B.prec *)
Theorem C14_le_sound_partial : forall A B v, af_wf A -> af_wf B ->
  match a_prec B, a_exp B with EFin q, EMInf => ext_gt (a_prec A) (EFin q) = false | _, _ => True end ->
  af_le A B = true -> gamma A v -> gamma B v.
Proof. exact le_sound_partial. Qed.
Print Assumptions C14_le_sound_partial.

(* ---- a rounding reported to be an identity changes no value: full strength for
   bounded float contexts (MPBFloatFormat, hence every IEEE format), any rounding
   mode (Flocq `round` for any valid integer rounding) *)
Theorem C14_round_is_identity_sound : forall A pmax emin pm nm en ei v,
  af_wf A -> 1 <= pmax -> rf_wf pm -> rf_wf nm -> (R2R nm <= 0 <= R2R pm)%R ->
  round_is_identity A pmax emin pm nm en ei = true -> gamma A v ->
  match v with
  | FNaN _ => en = true
  | FInf _ => ei = true
  | FFin x =>
      (forall rnd, Valid_rnd rnd ->
         round radix2 (FLT_exp (emin - pmax + 1) pmax) rnd (R2R x) = R2R x) /\
      (R2R nm <= R2R x <= R2R pm)%R
  end.
Proof. exact round_is_identity_sound. Qed.
Print Assumptions C14_round_is_identity_sound.

(* ... and refuted for unbounded-exponent float contexts (MPFloatFormat) *)
Theorem C14_round_is_identity_mp_refuted : exists A pmax x,
  af_wf A /\ af_le A (from_mp_float pmax true true) = true /\ gamma A (FFin x) /\
  ~ repr (EFin pmax) EMInf (R2R x).
Proof. exact round_is_identity_mp_refuted. Qed.
Print Assumptions C14_round_is_identity_mp_refuted.

(* ---- the class convention is preserved (so the hypotheses af_wf compose) *)
Theorem C14_wf_closed : forall A B,
  af_wf A -> af_wf B ->
  af_wf (af_neg A) /\ af_wf (af_abs A) /\ af_wf (af_or A B) /\
  (forall C, af_add A B = Ok C -> af_wf C) /\ (forall C, af_sub A B = Ok C -> af_wf C).
Proof. exact wf_closed. Qed.
Print Assumptions C14_wf_closed.

(* ---- the executable membership test used by the correspondence is sound *)
Theorem C14_mem_sound : forall A v, af_wf A -> (match v with FFin x => rf_wf x | _ => True end) ->
  mem A v = true -> gamma A v.
Proof. exact mem_sound. Qed.
Print Assumptions C14_mem_sound.

(* ---- the repaired variants (fixes/C14-*.diff; the correspondence accepts the code as it
   stands or these) are sound at full strength *)
Theorem C14_neg_fx_sound : forall A x, af_wf A -> gamma A x -> gamma (af_neg_fx A) (fl_neg x).
Proof. exact neg_fx_sound. Qed.
Print Assumptions C14_neg_fx_sound.

Theorem C14_abs_fx_sound : forall A x, af_wf A -> gamma A x -> gamma (af_abs_fx A) (fl_abs x).
Proof. exact abs_fx_sound. Qed.
Print Assumptions C14_abs_fx_sound.

Theorem C14_le_fx_sound : forall A B v, af_wf A -> af_wf B -> af_le_fx A B = true -> gamma A v -> gamma B v.
Proof. exact le_fx_sound. Qed.
Print Assumptions C14_le_fx_sound.
