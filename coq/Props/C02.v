(* Property C02 — arithmetic rounds the exact result exactly once. Statements only. *)
From Coq Require Import ZArith Bool Reals.
From Flocq Require Import Core.Zaux Core.Raux Core.Defs Core.Generic_fmt Core.FLX Core.FLT Core.FIX.
From Flocq Require Import Round_odd.
From FpyV Require Import Num.RealFloat Num.RealFloatProofs Num.RoundSpec Num.RoundProofs Num.RoundOdd
  Num.Float Num.FloatProofs Num.Arith Num.ArithProofs.
Open Scope Z_scope.

(* N2: a round-to-odd intermediate with >= 2 extra digits can be re-rounded safely, all 8 modes *)
Theorem C02_N2_FLT : forall emin p c rm x, 0 < p -> 2 <= c -> (1 < p \/ is_directed rm = true) ->
  round radix2 (FLT_exp emin p) (rnd_of rm) (round radix2 (FLT_exp (emin - c) (p + c)) Zrnd_odd x) =
  round radix2 (FLT_exp emin p) (rnd_of rm) x.
Proof. exact N2_FLT. Qed.
Print Assumptions C02_N2_FLT.

Theorem C02_N2_FLX : forall p c rm x, 0 < p -> 2 <= c -> (1 < p \/ is_directed rm = true) ->
  round radix2 (FLX_exp p) (rnd_of rm) (round radix2 (FLX_exp (p + c)) Zrnd_odd x) =
  round radix2 (FLX_exp p) (rnd_of rm) x.
Proof. exact N2_FLX. Qed.
Print Assumptions C02_N2_FLX.

Theorem C02_N2_FIX : forall emin c rm x, 2 <= c ->
  round radix2 (FIX_exp emin) (rnd_of rm) (round radix2 (FIX_exp (emin - c)) Zrnd_odd x) =
  round radix2 (FIX_exp emin) (rnd_of rm) x.
Proof. exact N2_FIX. Qed.
Print Assumptions C02_N2_FIX.

(* the truncate-and-sticky quotient is Flocq's round to odd *)
Theorem C02_rto_q_flocq : forall s num den pos, 0 < num -> 0 < den ->
  R2R (rto_q s num den pos) = round radix2 (FIX_exp pos) Zrnd_odd (cond_Ropp s (IZR num / IZR den)).
Proof. exact rto_q_flocq. Qed.
Print Assumptions C02_rto_q_flocq.

(* division: rounded once (float shape with subnormals; FLX / FIX variants alike) *)
Theorem C02_div_once_FLT : forall emin p rm s num den pos,
  0 < num -> 0 < den -> 1 <= p -> (1 < p \/ is_directed rm = true) ->
  let q := cond_Ropp s (IZR num / IZR den) in
  pos <= FLT_exp emin p (mag radix2 q) - 2 ->
  rc (rto_q s num den pos) <> 0 ->
  exists y fl,
    rf_round (rto_q s num den pos) (Some p) (Some (emin - 1)) rm false = Ok (y, fl) /\
    R2R y = round radix2 (FLT_exp emin p) (rnd_of rm) q.
Proof. exact div_once_FLT. Qed.
Print Assumptions C02_div_once_FLT.

Theorem C02_quotient_once_FLX : forall p rm s num den pos,
  0 < num -> 0 < den -> 0 < p -> (1 < p \/ is_directed rm = true) ->
  let q := cond_Ropp s (IZR num / IZR den) in
  pos <= FLX_exp p (mag radix2 q) - 2 ->
  round radix2 (FLX_exp p) (rnd_of rm) (R2R (rto_q s num den pos)) = round radix2 (FLX_exp p) (rnd_of rm) q.
Proof. exact quotient_rounded_once_FLX. Qed.
Print Assumptions C02_quotient_once_FLX.

Theorem C02_quotient_once_FIX : forall emin rm s num den pos,
  0 < num -> 0 < den ->
  let q := cond_Ropp s (IZR num / IZR den) in
  pos <= emin - 2 ->
  round radix2 (FIX_exp emin) (rnd_of rm) (R2R (rto_q s num den pos)) = round radix2 (FIX_exp emin) (rnd_of rm) q.
Proof. exact quotient_rounded_once_FIX. Qed.
Print Assumptions C02_quotient_once_FIX.

(* + - * fma: the value handed to the single rounding is the exact real result *)
Theorem C02_exact_add : forall a b, R2R (rf_add a b) = (R2R a + R2R b)%R.
Proof. exact exact_add_value. Qed.
Print Assumptions C02_exact_add.
Theorem C02_exact_mul : forall a b, R2R (rf_mul a b) = (R2R a * R2R b)%R.
Proof. exact exact_mul_value. Qed.
Print Assumptions C02_exact_mul.
Theorem C02_exact_fma : forall a b c, R2R (rf_add (rf_mul a b) c) = (R2R a * R2R b + R2R c)%R.
Proof. exact exact_fma_value. Qed.
Print Assumptions C02_exact_fma.

(* IEEE special values of + and * (from C05's tables) *)
Theorem C02_special_add : forall x y, den (fl_add x y) = xadd (den x) (den y).
Proof. exact fl_add_denote. Qed.
Print Assumptions C02_special_add.
Theorem C02_special_mul : forall x y, fl_wf x -> fl_wf y -> den (fl_mul x y) = xmul (den x) (den y) (fl_s x) (fl_s y).
Proof. exact fl_mul_denote. Qed.
Print Assumptions C02_special_mul.
