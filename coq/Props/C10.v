(* Property C10 — statements only (work in progress). *)
From Coq Require Import ZArith Bool.
From FpyV Require Import Num.RealFloat Lang.Lowering.Lower Lang.Lowering.LowerProofs.
Open Scope Z_scope.

Theorem C10_shift_roundtrip : forall x k, rf_shift (rf_shift x k) (- k) = x.
Proof. exact rf_shift_shift. Qed.
Print Assumptions C10_shift_roundtrip.
