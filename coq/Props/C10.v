(* Property C10 — rounding-lowering rewrites leave the rounding function unchanged.
   Statements only.  Model: Lang/Lowering/Lower.v (`sem p x` is the value the
   lowered program p returns on the operand x; `vround c x` is Context.round of
   the proved context model Num/Ctx.v; `vequiv` is equality of results up to
   the encoding of a value: same class, same sign (zeros too), same real, same
   exception; the sign of a NaN is not compared).  `fixes` selects the code as
   found (fx_asis) or with the three missing refusals (fx_all). *)
From Coq Require Import ZArith List Bool Reals.
From Flocq Require Import Core.Zaux Core.Raux Core.Defs Core.Generic_fmt Core.FLX Core.FLT Core.FIX.
From FpyV Require Import Num.RealFloat Num.RealFloatProofs Num.RoundSpec Num.RoundProofs Num.Float Num.FloatProofs
  Num.CtxDef Num.Ctx Num.CtxProofs
  Lang.Lowering.Lower Lang.Lowering.LowerProofs Lang.Lowering.LowerUOProofs Lang.Lowering.LowerF2FProofs
  Lang.Lowering.LowerChainProofs Lang.Lowering.LowerWitnessProofs.
Import ListNotations.
Open Scope Z_scope.

(* ---------------------------------------------------------------- unfold_special *)
(* for every context but REAL and every shedding decision `_describe` may take:
   the ladder assigns what the context returns on NaN / +-inf / +-0 and the
   surviving context agrees with it on every other operand (exact equality) *)
Theorem C10_unfold_special_eq : forall c sn si x,
  c <> CReal -> us_shed_ok c sn si = true -> sem (us_lp c sn si) x = vround c x.
Proof. exact unfold_special_eq. Qed.
Print Assumptions C10_unfold_special_eq.

(* ---------------------------------------------------------------- unfold_overflow *)
Theorem C10_unfold_overflow_eq : forall fx early c s x,
  uo_describe fx early c = Some s ->
  (fx_wrap fx = true \/ ctx_wraps c = false) ->
  uo_ctx_ok c -> (early = true -> uo_early_ok c s) ->
  fl_wf x ->
  vequiv (sem (uo_lp early s) x) (vround c x).
Proof. exact unfold_overflow_eq. Qed.
Print Assumptions C10_unfold_overflow_eq.

(* x >= infval -> overflow, x <= -infval -> overflow, for every mode (monotonicity of Flocq's round) *)
Theorem C10_early_check_sound : forall c U maxv negv p n rm ovr zU zC infv ninfv xr,
  bounded_as c U maxv negv p n rm ovr zU zC ->
  bounds_ok p n maxv negv -> early_ok p n maxv negv infv ninfv ->
  rf_wf xr ->
  (fl_ge (FFin xr) infv = true -> vround c (FFin xr) = ovr false) /\
  (fl_le (FFin xr) ninfv = true -> vround c (FFin xr) = ovr true).
Proof. exact early_check_sound. Qed.
Print Assumptions C10_early_check_sound.

(* the code as found does not always refuse a wrapping format ... *)
Theorem C10_unfold_overflow_wrap_refuted :
  exists p x, uo_leaf fx_asis false wrap_witness = Some p /\ fl_wf x /\
              ~ vequiv (sem p x) (vround wrap_witness x).
Proof. exact unfold_overflow_wrap_refuted. Qed.
Print Assumptions C10_unfold_overflow_wrap_refuted.

Theorem C10_unfold_overflow_wrap_declined : forall early c, ctx_wraps c = true -> uo_leaf fx_all early c = None.
Proof. exact unfold_overflow_wrap_declined. Qed.
Print Assumptions C10_unfold_overflow_wrap_declined.

(* ---------------------------------------------------------------- unfold_neg_zero *)
Theorem C10_unfold_neg_zero_eq : forall fx c p x,
  fl_wf x -> unz_leaf fx c = Some p ->
  (fx_zero_bound fx = true \/ unz_zero_bound c = false) ->
  sem p x = vround c x.
Proof. exact unfold_neg_zero_eq. Qed.
Print Assumptions C10_unfold_neg_zero_eq.

(* ... nor a bound that is a zero of the other sign *)
Theorem C10_unfold_neg_zero_zero_bound_refuted :
  exists p x, unz_leaf fx_asis zero_bound_witness = Some p /\ fl_wf x /\
              ~ vequiv (sem p x) (vround zero_bound_witness x).
Proof. exact unfold_neg_zero_zero_bound_refuted. Qed.
Print Assumptions C10_unfold_neg_zero_zero_bound_refuted.

(* ---------------------------------------------------------------- float_to_fixed *)
(* a float rounding is a fixed-point rounding at n(x) = max(nmin, e(x) - p): same real, sign, inexact flag *)
Theorem C10_float_to_fixed_eq : forall x p nmin rm,
  rf_wf x -> rc x <> 0 -> 1 <= p ->
  exists y f y' f',
    rf_round x (Some p) (Some nmin) rm false = Ok (y, f) /\
    rf_round x None (Some (Z.max nmin (rf_e x - p))) rm false = Ok (y', f') /\
    R2R y = R2R y' /\ rs y = rs x /\ rs y' = rs x /\ rf_wf y /\ rf_wf y' /\
    f_inexact f = f_inexact f'.
Proof. exact float_to_fixed_eq. Qed.
Print Assumptions C10_float_to_fixed_eq.

(* the position as the transform emits it (logb, subnormal branch e < emin, clamp EXP .. EMAX-P+1) *)
Theorem C10_f2f_position_exact : forall p emin expmax e,
  (e < emin -> (emin - p + 1) - 1 = Z.max (mps_nmin p emin) (e - p)) /\
  (emin <= e -> e - p + 1 <= expmax ->
     f2f_pos p (Some (emin, emin - p + 1)) (Some expmax) e - 1 = Z.max (mps_nmin p emin) (e - p)) /\
  (expmax < e - p + 1 -> f2f_pos p (Some (emin, emin - p + 1)) (Some expmax) e = expmax).
Proof. exact f2f_position_exact. Qed.
Print Assumptions C10_f2f_position_exact.

Theorem C10_float_to_fixed_ctx_eq : forall fx c s x,
  f2f_describe fx c = Some s -> f2f_ctx_ok c ->
  (fx_degenerate fx = true \/ f2f_nondegenerate c) ->
  fl_wf x ->
  vequiv (sem (f2f_lp s) x) (vround c x).
Proof. exact float_to_fixed_ctx_eq. Qed.
Print Assumptions C10_float_to_fixed_ctx_eq.

(* the code as found lowers (or raises on) a format whose only finite value is zero *)
Theorem C10_float_to_fixed_zero_only_refuted :
  exists p x, f2f_leaf fx_asis zero_only_witness = Some p /\ fl_wf x /\
              ~ vequiv (sem p x) (vround zero_only_witness x).
Proof. exact float_to_fixed_zero_only_refuted. Qed.
Print Assumptions C10_float_to_fixed_zero_only_refuted.

(* ---------------------------------------------------------------- rescale_fixed *)
Theorem C10_rescale_fixed_eq : forall c p x,
  fl_wf x -> deterministic c = true -> rs_leaf c = Some p ->
  vequiv (sem p x) (vround c x).
Proof. exact rescale_fixed_eq. Qed.
Print Assumptions C10_rescale_fixed_eq.

(* the shape of fixed-point rounding commutes with the shift *)
Theorem C10_fix_round_shift : forall rm x n j,
  StochProofs.fix_round_val rm (rf_shift x j) (n + j) = rf_shift (StochProofs.fix_round_val rm x n) j.
Proof. exact fix_round_val_shift. Qed.
Print Assumptions C10_fix_round_shift.

(* ---------------------------------------------------------------- round_elim / round_insert *)
Theorem C10_round_elim_sound : forall c x,
  ctx_wf c -> deterministic c = true -> rf_wf x -> rc x <> 0 ->
  match c with
  | CMPBFloat _ _ pm nm _ _ _ _ | CMPBFixed _ pm nm _ _ _ _ _ => rs pm = false /\ (rs nm = true \/ rc nm = 0)
  | _ => True
  end ->
  representable c x ->
  vequiv (sem (LRound CReal) (FFin x)) (sem (LRound c) (FFin x)).
Proof. exact round_elim_sound. Qed.
Print Assumptions C10_round_elim_sound.

Theorem C10_round_insert_sound : forall c x,
  ctx_wf c -> deterministic c = true -> rf_wf x -> rc x <> 0 ->
  match c with
  | CMPBFloat _ _ pm nm _ _ _ _ | CMPBFixed _ pm nm _ _ _ _ _ => rs pm = false /\ (rs nm = true \/ rc nm = 0)
  | _ => True
  end ->
  representable c x ->
  vequiv (sem (LRound c) (FFin x)) (sem (LRound CReal) (FFin x)).
Proof. exact round_insert_sound. Qed.
Print Assumptions C10_round_insert_sound.

(* ---------------------------------------------------------------- refusals *)
Theorem C10_refusal_unchanged : forall fx t c,
  leaf_of fx t c = None -> rw (leaf_of fx t) (LRound c) = LRound c.
Proof. exact refusal_unchanged. Qed.
Print Assumptions C10_refusal_unchanged.

Theorem C10_refusal_complete : forall fx c,
  (deterministic c = false ->
     uo_leaf fx false c = None /\ uo_leaf fx true c = None /\ unz_leaf fx c = None /\ f2f_leaf fx c = None) /\
  (c = CReal -> forall t, leaf_of fx t c = None) /\
  (uo_parts c = None -> uo_leaf fx false c = None /\ uo_leaf fx true c = None) /\
  (f2f_parts c = None -> f2f_leaf fx c = None) /\
  (rs_parts c = None -> rs_leaf c = None) /\
  (unz_dropped c = None -> unz_leaf fx c = None) /\
  (ctx_wraps c = true -> unz_leaf fx c = None /\ (fx_wrap fx = true -> uo_leaf fx false c = None /\ uo_leaf fx true c = None)) /\
  (forall sc c0 nv iv, rs_parts c = Some (sc, c0, nv, iv) -> finite_sub nv || finite_sub iv = true -> rs_leaf c = None).
Proof. exact refusal_complete. Qed.
Print Assumptions C10_refusal_complete.

(* ---------------------------------------------------------------- chains *)
(* one rewrite applied to every block of a lowered program *)
Theorem C10_rewrite_sound : forall fx t p x,
  lp_wf p -> lp_wf (rw (leaf_of fx t) p) -> lp_bounds_wf p -> lp_all (cond fx t) p -> fl_wf x ->
  vequiv (sem (rw (leaf_of fx t) p) x) (sem p x).
Proof. exact rewrite_sound. Qed.
Print Assumptions C10_rewrite_sound.

(* every chain of rewrites, hence every prefix of special -> overflow -> neg-zero -> float_to_fixed -> rescale.
   Partial in one respect: `chain_ok` assumes, stage by stage, that the program the previous rewrite emitted is over
   well-formed values and that its blocks meet the constructor invariants the next rewrite relies on (the
   invariants are proved for the source contexts' rewrites one by one, not re-derived for emitted contexts). *)
Theorem C10_chain_eq_partial : forall fx ts p x, chain_ok fx ts p -> fl_wf x ->
  vequiv (sem (apply_chain fx ts p) x) (sem p x).
Proof. exact chain_eq. Qed.
Print Assumptions C10_chain_eq_partial.

Theorem C10_chain_prefix_eq_partial : forall fx ts1 ts2 p x, chain_ok fx (ts1 ++ ts2) p -> fl_wf x ->
  vequiv (sem (apply_chain fx ts1 p) x) (sem p x).
Proof. exact chain_prefix_eq. Qed.
Print Assumptions C10_chain_prefix_eq_partial.

(* ---------------------------------------------------------------- the hypotheses are satisfiable *)
Theorem C10_example_context_ok :
  uo_ctx_ok small_float /\ f2f_ctx_ok small_float /\ f2f_nondegenerate small_float /\
  ctx_wf small_float /\ ctx_wraps small_float = false.
Proof. exact small_float_ok. Qed.
Print Assumptions C10_example_context_ok.

Theorem C10_example_rewritten :
  (exists s, uo_describe fx_asis false small_float = Some s) /\
  (exists s, uo_describe fx_all true small_float = Some s) /\
  (exists s, f2f_describe fx_all small_float = Some s) /\
  us_decl small_float = false.
Proof. exact small_float_rewritten. Qed.
Print Assumptions C10_example_rewritten.

Theorem C10_example_early_ok : forall s, uo_describe fx_all true small_float = Some s -> uo_early_ok small_float s.
Proof. exact small_float_early. Qed.
Print Assumptions C10_example_early_ok.

Theorem C10_example_chain_ok : chain_ok fx_all [XOverflow; XSpecial] (LRound small_float).
Proof. exact small_float_chain_ok. Qed.
Print Assumptions C10_example_chain_ok.
