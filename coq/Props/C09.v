(* Property C09 -- inlining, specialisation and hoisting preserve results.
   Only statements, each closed by `exact`, each followed by Print Assumptions.

   All soundness theorems are for an ARBITRARY number instance N (rounding is
   abstract) and relate successful runs ("on every input on which the original
   returns"): the transformed function, added to the program under a new name,
   returns the SAME value (which implies `cval_eqb v v = true`, the same-value
   relation).  The models are coq/Lang/Transforms/{Inline,Mono,LiftCtx}.v.

   inline: proved for call sites in statement position (`p = g(args)`,
   `return g(args)`, `g(args)` as a statement) with call-free arguments, anywhere
   in nested if / while / for / with blocks; callees with one trailing return
   (possibly under trailing `with`s), with or without a declared context (an
   undeclared one takes the context of the call SITE), list arguments shared
   with the callee, arbitrary name clashes, no named `with` target; one site
   (`wh = Some i`) or all, one level or recursive (callees flattened first).
   The code inlines calls in every other expression position too, and that is
   unsound -- the *_refuted theorems (witnesses reproduced on fpy2 by the check). *)
From Coq Require Import ZArith List Bool String.
From FpyV Require Import Num.RealFloat Num.Float Num.CtxDef Lang.Syntax Lang.Values Lang.Sem Lang.NumInst.
From FpyV Require Import Lang.Transforms.Rename Lang.Transforms.RenameSimProofs
  Lang.Transforms.Inline Lang.Transforms.InlineProofs
  Lang.Transforms.Mono Lang.Transforms.MonoProofs
  Lang.Transforms.LiftCtx Lang.Transforms.LiftCtxProofs
  Lang.Transforms.C09Witness Lang.Transforms.C09RefutedProofs.
Import ListNotations.
Open Scope string_scope.
Open Scope list_scope.

(* ---------------------------------------------------------------- inlining *)
Theorem C09_inline_sound : forall N P d recursive wh f fn fn' f',
  prog_ok P = true -> lookup_fn P f = Some fn -> lookup_fn P f' = None ->
  inline P d recursive wh fn = Some fn' ->
  forall n args c v, run N P n f args c = ROk v ->
  exists m, run N (P ++ [(f', fn')]) m f' args c = ROk v.
Proof. exact inline_sound. Qed.
Print Assumptions C09_inline_sound.

(* ... and with any of the proposed repairs (fixes/C09-*.diff) in force: the `as x` targets renamed,
   header arguments bound under REAL, any set of calls refused because of their position *)
Theorem C09_inline_x_sound : forall N P fx d recursive wh f fn fn' f',
  prog_ok P = true -> lookup_fn P f = Some fn -> lookup_fn P f' = None ->
  inline_x fx P d recursive wh f fn = Some fn' ->
  forall n args c v, run N P n f args c = ROk v ->
  exists m, run N (P ++ [(f', fn')]) m f' args c = ROk v.
Proof. exact inline_x_sound. Qed.
Print Assumptions C09_inline_x_sound.

(* the same at every call (same value AND same store: the callee's mutations of shared lists
   are reproduced), which is what makes the passes compose: all sites, recursive, one level *)
Theorem C09_inline_call_sim : forall N P, prog_ok P = true -> forall d recursive wh fn fn',
  fn_ok fn = true -> inline P d recursive wh fn = Some fn' ->
  forall n vs mu C r, call N P n fn vs mu C = ROk r -> exists m, call N P m fn' vs mu C = ROk r.
Proof. exact inline_call_sim. Qed.
Print Assumptions C09_inline_call_sim.

Theorem C09_inline_full_sound : forall N P, prog_ok P = true -> forall fx d fname fn fn',
  fn_ok fn = true -> inline_full fx P d fname fn = Some fn' ->
  call_sim N P fn fn' /\ flat_map with_targets (f_body fn') = [].
Proof. exact inline_full_sound. Qed.
Print Assumptions C09_inline_full_sound.

(* renaming the callee's names apart / extra bindings / more fuel / a larger program: the
   simulation everything rests on (all 12 judgements of Sem.v) *)
Theorem C09_rename_sim : forall N P P',
  (forall g fn, lookup_fn P g = Some fn -> lookup_fn P' g = Some fn) -> forall n, SimAt N P P' n.
Proof. exact sim_all. Qed.
Print Assumptions C09_rename_sim.

Theorem C09_inline_hoist_refuted : exists P f fn fn' args v v',
  lookup_fn P f = Some fn /\ inline P 5 true None fn = Some fn' /\
  run prov_numops P 100 f args None = ROk v /\
  run prov_numops (P ++ [("inlined", fn')]) 100 "inlined" args None = ROk v' /\
  cval_eqb v v' = false.
Proof. exact inline_hoist_refuted. Qed.
Print Assumptions C09_inline_hoist_refuted.

Theorem C09_inline_cond_refuted : exists P f fn fn' args v,
  lookup_fn P f = Some fn /\ inline P 5 true None fn = Some fn' /\
  run prov_numops P 100 f args None = ROk v /\
  run prov_numops (P ++ [("inlined", fn')]) 100 "inlined" args None = RErr AssertErr.
Proof. exact inline_cond_refuted. Qed.
Print Assumptions C09_inline_cond_refuted.

Theorem C09_inline_with_target_refuted : exists P f fn fn' args v v',
  lookup_fn P f = Some fn /\ inline P 5 true None fn = Some fn' /\
  run prov_numops P 100 f args None = ROk v /\
  run prov_numops (P ++ [("inlined", fn')]) 100 "inlined" args None = ROk v' /\
  cval_eqb v v' = false.
Proof. exact inline_with_target_refuted. Qed.
Print Assumptions C09_inline_with_target_refuted.

(* ---------------------------------------------------------------- pinning a context *)
Theorem C09_mono_call_eq : forall N P c fn fn' n vs mu C0,
  mono c fn = Some fn' -> call N P n fn' vs mu C0 = call N P n fn vs mu c.
Proof. exact mono_call_eq. Qed.
Print Assumptions C09_mono_call_eq.

Theorem C09_mono_sound : forall N P c f fn fn' f',
  lookup_fn P f = Some fn -> lookup_fn P f' = None -> mono c fn = Some fn' ->
  forall n args v, run N P n f args (Some c) = ROk v ->
  run N (P ++ [(f', fn')]) n f' args None = ROk v.
Proof. exact mono_sound. Qed.
Print Assumptions C09_mono_sound.

Theorem C09_mono_run_eq : forall N P c f fn fn' f' n args,
  lookup_fn P f = Some fn -> lookup_fn P f' = Some fn' -> mono c fn = Some fn' ->
  run N P n f' args None = run N P n f args (Some c).
Proof. exact mono_run_eq. Qed.
Print Assumptions C09_mono_run_eq.

(* ---------------------------------------------------------------- closing over captured values *)
Theorem C09_close_sound : forall N P cs cvs fn, cap_values cs = Some cvs ->
  NoDup (map fst cs) -> NoDup (f_params fn) ->
  (forall z, In z (map fst cs) -> ~ In z (f_params fn)) ->
  forall n args mu C r,
  call N P n (with_caps cs fn) (cvs ++ args) mu C = ROk r ->
  exists m, call N P m (close cs fn) args mu C = ROk r.
Proof. exact close_call_sim. Qed.
Print Assumptions C09_close_sound.

(* ---------------------------------------------------------------- hoisting context constructors *)
Theorem C09_lift_ctx_sound : forall N P f fn fn' f',
  lookup_fn P f = Some fn -> lookup_fn P f' = None -> lift_ctx_lit N fn = Some fn' ->
  forall n args c v, run N P n f args c = ROk v ->
  exists m, run N (P ++ [(f', fn')]) m f' args c = ROk v.
Proof. exact lift_ctx_sound. Qed.
Print Assumptions C09_lift_ctx_sound.

Theorem C09_lift_ctx_x_sound : forall N P fx f fn fn' f',
  lookup_fn P f = Some fn -> lookup_fn P f' = None -> lift_ctx_lit_x N fx fn = Some fn' ->
  forall n args c v, run N P n f args c = ROk v ->
  exists m, run N (P ++ [(f', fn')]) m f' args c = ROk v.
Proof. exact lift_ctx_x_sound. Qed.
Print Assumptions C09_lift_ctx_x_sound.

Theorem C09_lift_computed_refuted : exists P f fn fn' args v v',
  lookup_fn P f = Some fn /\ lift_ctx prov_numops fn = Some fn' /\
  run prov_numops P 100 f args None = ROk v /\
  run prov_numops (P ++ [("lifted", fn')]) 100 "lifted" args None = ROk v' /\
  cval_eqb v v' = false.
Proof. exact lift_computed_refuted. Qed.
Print Assumptions C09_lift_computed_refuted.
