(* C07 -- simplify never changes what a program returns.

   "Constant folding, copy propagation and dead-code elimination, alone, in any
   order or iterated to a fixed point as `simplify`, produce a program that
   returns the same value as the original on every input on which the original
   returns.  They never make a returning program raise."

   Every statement below has the form
       run N P fuel f args c = ROk v ->
       exists fuel' v', run N P' fuel' f' args c = ROk v' /\ cval_eqb v v' = true
   for EVERY program P of the modelled core (coq/Lang/Syntax.v), every function
   f of it, every argument list, every caller context c and every number
   instance N (`numops`: the theorems do not depend on arithmetic).  P' is
   `add_fn P f' fn'`: simplify(func) returns a new function object, so the
   rewritten function fn' is added under a fresh name f' while the callees and
   the original keep their ASTs, as in fpy2.

   The passes AS CODED violate the property (the ..._refuted theorems: witnesses
   evaluated by vm_compute on the faithful models); what is proved sound is
     - the two translation VALIDATORS (expression rewriting under available
       equalities and checked constant claims: CopyPropagate and ConstFold
       results; liveness-based removal: DeadCodeEliminate results), for any
       (input, output) pair they accept, however the output was produced, and
     - the repaired passes re-checked by them (`copyprop_checked`,
       `dce_checked`), and any iteration of checked steps (`simp_iter`).
   Coverage of the dead-code validator: every statement form; a DROPPED
   statement must be built from pure expressions without FPy calls and without
   allocating forms (list displays, comprehensions, slices, ranges, zip,
   enumerate, empty) -- removing an allocation changes the addresses of later
   lists, which the simulation (identical stores) does not follow; such steps are
   covered by differential execution only. *)
From Coq Require Import ZArith List Bool String.
From FpyV Require Import Num.RealFloat Num.Float Num.CtxDef Lang.Syntax Lang.Values Lang.Sem Lang.NumInst.
From FpyV Require Import Lang.Transforms.SimpDefs Lang.Transforms.SimpRw Lang.Transforms.SimpDce Lang.Transforms.Simplify
  Lang.Transforms.SimpRunProofs Lang.Transforms.SimpRwProofs Lang.Transforms.SimpDceProofs
  Lang.Transforms.SimpLitProofs Lang.Transforms.SimpRefuteProofs Lang.Transforms.SimplifyProofs.
Import ListNotations.
Open Scope string_scope.

(* ---------------------------------------------------------------- copy propagation *)
(* full strength ("the pass as coded preserves run") is REFUTED: *)
Theorem C07_copyprop_as_coded_refuted :
  exists P f fn args v v',
    lookup_fn P f = Some fn /\
    run prov_numops P 100 f args None = ROk v /\
    run prov_numops (add_fn P "f'" (with_body fn (copyprop_as_coded fn))) 100 "f'" args None = ROk v' /\
    cval_eqb v v' = false.
Proof.
  exists [("f", wA)], "f". destruct copyprop_as_coded_refuted as (fn & v & v' & H).
  exists fn, [znum 1; znum 2], v, v'. exact H.
Qed.
Print Assumptions C07_copyprop_as_coded_refuted.

(* a second defect, of the analysis the pass relies on (the target of a `for`), repaired in /repo by
   1bc6253: the statement is about the pass as it was before (`copyprop_unrepaired`) *)
Theorem C07_copyprop_for_target_unrepaired_refuted :
  changes [("f", wF)] "f" copyprop_unrepaired [znum 1; CList [znum 10; znum 20]].
Proof. exact copyprop_for_target_unrepaired_refuted. Qed.
Print Assumptions C07_copyprop_for_target_unrepaired_refuted.

(* the guarded version: the equality x = y is used only where neither x nor y
   has been redefined since the copy (straight-line code, branches, loops,
   with-blocks, comprehension targets); the result is re-checked by the
   validator below *)
Theorem C07_copyprop_sound_partial : forall (N : numops) (P : program) (d : nat) (f f' : ident) (fn : func),
  lookup_fn P f = Some fn -> lookup_fn P f' = None ->
  forall fuel args c v, run N P fuel f args c = ROk v ->
    exists fuel' v', run N (add_fn P f' (with_body fn (copyprop_checked d fn))) fuel' f' args c = ROk v' /\
                     cval_eqb v v' = true.
Proof. exact copyprop_sound_partial. Qed.
Print Assumptions C07_copyprop_sound_partial.

(* ---------------------------------------------------------------- constant folding / expression rewriting *)
(* replacing expressions by the literal of the value they are known to evaluate
   to -- `claim_valid`: under the literal facts in force and the statically
   known context the expression evaluates to the value of the literal, leaving
   the store alone -- and variables by available copies preserves run.  PARTIAL:
   the literal must evaluate to the VERY value (same encoding of the number);
   bridging to "the same number in another encoding" needs the encoding
   independence of the number operations (C05) for the whole evaluator. *)
Theorem C07_subst_sound_facts_partial :
  forall (N : numops) (P : program) (K : nat) (claim_ok : claim -> bool) (guess : facts -> expr -> option ctx)
         (d : nat) (f f' : ident) (fn fn' : func),
  (1 <= K)%nat ->
  (forall cl, claim_ok cl = true -> claim_valid N P cl) ->
  vrw_func K claim_ok guess d fn fn' = true ->
  lookup_fn P f = Some fn -> lookup_fn P f' = None ->
  forall fuel args c v, run N P fuel f args c = ROk v ->
    exists fuel' v', run N (add_fn P f' fn') fuel' f' args c = ROk v' /\ cval_eqb v v' = true.
Proof. exact vrw_func_sound. Qed.
Print Assumptions C07_subst_sound_facts_partial.

(* value_to_literal: a well-formed list-free value is denoted by its literal
   (sign of zero included); infinities and NaN are refused *)
Theorem C07_literal_of_value_roundtrip : forall w e, cval_okb w = true -> literal_of_value w = Some e ->
  is_lit e = true /\
  exists v, lit_val e = Some v /\
    forall k mu, (cval_depth w <= k)%nat -> exists w', extract k mu v = Some w' /\ cval_eqb w w' = true.
Proof. exact literal_of_value_roundtrip. Qed.
Print Assumptions C07_literal_of_value_roundtrip.

Theorem C07_literal_evaluates : forall (N : numops) (P : program) n l v s mu C,
  lit_val l = Some v -> (lit_depth l <= n)%nat -> eval N P n s mu C l = ROk (v, mu).
Proof. intros N P. exact (lit_eval N P 1 (le_n 1)). Qed.
Print Assumptions C07_literal_evaluates.

Theorem C07_literal_refuses_inf_nan : forall s,
  literal_of_value (CNum (NF (FInf s))) = None /\ literal_of_value (CNum (NF (FNaN s))) = None.
Proof. exact literal_of_value_inf_nan. Qed.
Print Assumptions C07_literal_refuses_inf_nan.

Theorem C07_literal_negative_zero : forall e,
  literal_of_value (CNum (NF (FFin (RF true e 0)))) = Some (ENum (FFin (RF true 0 0))).
Proof. exact literal_of_value_negzero. Qed.
Print Assumptions C07_literal_negative_zero.

(* for LIST values the literal is unsound (a fresh list replaces an alias) *)
Theorem C07_constfold_list_refuted : changes [("f", wD)] "f" fold_xs [znum 1].
Proof. exact constfold_list_refuted. Qed.
Print Assumptions C07_constfold_list_refuted.

(* ---------------------------------------------------------------- dead-code elimination *)
(* the pass as it was before the repairs 1107ce1 / bb63c4e (`dce_unrepaired`); `dce_as_coded` is the
   pass as it is in /repo now, and leaves these witnesses alone (dce_as_coded_keeps_witnesses) *)
Theorem C07_dce_unrepaired_refuted :
  changes [("g2", g2); ("f", wB)] "f" (dce_unrepaired [("g2", g2); ("f", wB)]) [CList [znum 5; znum 6]; znum 1].
Proof. exact dce_unrepaired_refuted. Qed.
Print Assumptions C07_dce_unrepaired_refuted.

Theorem C07_dce_purity_unrepaired_refuted :
  changes [("g", galias); ("f", wC)] "f" (dce_unrepaired [("g", galias); ("f", wC)]) [CList [znum 5; znum 6]].
Proof. exact dce_purity_unrepaired_refuted. Qed.
Print Assumptions C07_dce_purity_unrepaired_refuted.

Theorem C07_validate_dce_sound : forall (N : numops) (P : program) (d : nat) (f f' : ident) (fn fn' : func),
  validate_dce d fn fn' = true -> lookup_fn P f = Some fn -> lookup_fn P f' = None ->
  forall fuel args c v, run N P fuel f args c = ROk v ->
    exists fuel' v', run N (add_fn P f' fn') fuel' f' args c = ROk v' /\ cval_eqb v v' = true.
Proof. exact validate_dce_sound. Qed.
Print Assumptions C07_validate_dce_sound.

Theorem C07_dce_sound : forall (N : numops) (P : program) (d : nat) (f f' : ident) (fn : func),
  lookup_fn P f = Some fn -> lookup_fn P f' = None ->
  forall fuel args c v, run N P fuel f args c = ROk v ->
    exists fuel' v', run N (add_fn P f' (with_body fn (dce_checked d P fn))) fuel' f' args c = ROk v' /\
                     cval_eqb v v' = true.
Proof. exact dce_sound. Qed.
Print Assumptions C07_dce_sound.

(* ---------------------------------------------------------------- simplify *)
(* any sequence of checked steps: every subset of the enable_* switches, every
   order, any number of rounds *)
Theorem C07_simplify_iter :
  forall (N : numops) (P : program) (K : nat) (claim_ok : claim -> bool) (guess : facts -> expr -> option ctx) (d : nat),
  (1 <= K)%nat -> (forall cl, claim_ok cl = true -> claim_valid N P cl) ->
  forall (cs : list cand) (f f' : ident) (fn : func),
  lookup_fn P f = Some fn -> lookup_fn P f' = None ->
  forall fuel args c v, run N P fuel f args c = ROk v ->
    exists fuel' v', run N (add_fn P f' (simp_iter K claim_ok guess d P cs fn)) fuel' f' args c = ROk v' /\
                     cval_eqb v v' = true.
Proof. exact simplify_iter. Qed.
Print Assumptions C07_simplify_iter.

(* "They never make a returning program raise." *)
Theorem C07_never_new_error : forall (N : numops) (P : program) (f : ident) (P' : program) (f' : ident),
  preserves N P f P' f' ->
  forall fuel args c v, run N P fuel f args c = ROk v ->
  forall fuel' e, run N P' fuel' f' args c <> RErr e.
Proof. exact never_new_error. Qed.
Print Assumptions C07_never_new_error.

(* the hypotheses are satisfiable / the checked passes are not the identity *)
Theorem C07_copyprop_checked_nontrivial : copyprop_checked 50 wA = copyprop_fixed wA /\ copyprop_fixed wA <> f_body wA.
Proof. split; [exact copyprop_checked_nontrivial | vm_compute; discriminate]. Qed.
Print Assumptions C07_copyprop_checked_nontrivial.
