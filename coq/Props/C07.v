(* C07 -- simplify never changes what a program returns: statements (being filled in). *)
From Coq Require Import ZArith List Bool String.
From FpyV Require Import Lang.Syntax Lang.Values Lang.Sem Lang.Transforms.SimpDefs Lang.Transforms.SimpRw Lang.Transforms.SimpDce.
