(* Property C08: loop and iterator restructuring preserves results.
   Statements only; proofs in coq/Lang/Transforms/*Proofs.v.

   PROVED (for every number instance N, every program, input, caller context):
     C08_while_unroll_sound        unroll_while, every times >= 0, every loop selection (index / cursor / all),
                                   bodies with early returns, nested loops, calls: full strength.
     C08_gen_name_fresh / _inj     the fresh-name lemma for the model's supply of temporaries.
   REFUTED on the faithful model (genuine defects of /repo, see known_findings.d/C08.json):
     C08_zip_elim_sound_refuted, C08_enumerate_elim_sound_refuted,
     C08_reduce_fusion_sound_refuted_{while,shortcircuit,target}.
   MODELLED, NOT YET PROVED (structural correspondence + differential execution only):
     see the end of this file. *)
From Coq Require Import ZArith List Bool String.
From FpyV Require Import Num.RealFloat Num.Float Num.CtxDef Lang.Syntax Lang.Values Lang.Sem
  Lang.Transforms.Common Lang.Transforms.WhileUnroll Lang.Transforms.ForUnroll Lang.Transforms.SplitLoop
  Lang.Transforms.IterElim Lang.Transforms.ReduceFusion Lang.Transforms.NumInt
  Lang.Transforms.CommonProofs Lang.Transforms.WhileUnrollProofs Lang.Transforms.RefutedProofs.
Import ListNotations.
Open Scope string_scope.
Open Scope Z_scope.

(* unroll_while preserves the result of every run that returns (the transformed
   run returns the very same value, so `cval_eqb v v' = true` a fortiori) *)
Theorem C08_while_unroll_sound :
  forall (N : numops) (P : program) (w : sel) (times : nat) fuel f args c v,
    run N P fuel f args c = ROk v ->
    exists fuel', run N (prog_update P f (while_unroll w times)) fuel' f args c = ROk v.
Proof. exact while_unroll_sound. Qed.
Print Assumptions C08_while_unroll_sound.

Theorem C08_while_unroll_sound_nonvacuous :
  run c08_numops P_while 100 "f" [CList [nz 1; nz 2; nz 4]] None = ROk (CTuple [nz 3; nz 2]) /\
  run c08_numops (prog_update P_while "f" (while_unroll SelAll 2)) 100 "f" [CList [nz 1; nz 2; nz 4]] None
    = ROk (CTuple [nz 3; nz 2]).
Proof. exact while_unroll_sound_nonvacuous. Qed.
Print Assumptions C08_while_unroll_sound_nonvacuous.

Theorem C08_gen_name_fresh : forall names i, ~ In (gen_name (max_len names) i) names.
Proof. exact gen_name_fresh. Qed.
Print Assumptions C08_gen_name_fresh.

Theorem C08_gen_name_inj : forall L i j, gen_name L i = gen_name L j -> i = j.
Proof. exact gen_name_inj. Qed.
Print Assumptions C08_gen_name_inj.

(* ---------------------------------------------------------------- refuted *)
Theorem C08_zip_elim_sound_refuted :
  exists P f args v v',
    run c08_numops P 100 f args None = ROk v /\
    run c08_numops (prog_update P f (elim_iter true true)) 100 f args None = ROk v' /\
    cval_eqb v v' = false.
Proof. exact zip_elim_sound_refuted. Qed.
Print Assumptions C08_zip_elim_sound_refuted.

Theorem C08_enumerate_elim_sound_refuted :
  exists P f args v v',
    run c08_numops P 100 f args None = ROk v /\
    run c08_numops (prog_update P f (elim_iter true true)) 100 f args None = ROk v' /\
    cval_eqb v v' = false.
Proof. exact enumerate_elim_sound_refuted. Qed.
Print Assumptions C08_enumerate_elim_sound_refuted.

Theorem C08_reduce_fusion_sound_refuted_while :
  exists P f args v v',
    run c08_numops P 100 f args None = ROk v /\
    run c08_numops (prog_update P f reduce_fusion) 100 f args None = ROk v' /\
    cval_eqb v v' = false.
Proof. exact reduce_fusion_sound_refuted_while. Qed.
Print Assumptions C08_reduce_fusion_sound_refuted_while.

Theorem C08_reduce_fusion_sound_refuted_shortcircuit :
  exists P f args v,
    run c08_numops P 100 f args None = ROk v /\
    run c08_numops (prog_update P f reduce_fusion) 100 f args None = RErr IndexErr.
Proof. exact reduce_fusion_sound_refuted_shortcircuit. Qed.
Print Assumptions C08_reduce_fusion_sound_refuted_shortcircuit.

Theorem C08_reduce_fusion_sound_refuted_target :
  exists P f args v v',
    run c08_numops P 100 f args None = ROk v /\
    run c08_numops (prog_update P f reduce_fusion) 100 f args None = ROk v' /\
    cval_eqb v v' = false.
Proof. exact reduce_fusion_sound_refuted_target. Qed.
Print Assumptions C08_reduce_fusion_sound_refuted_target.
