(* Property C08: loop and iterator restructuring preserves results.
   Statements only; proofs in coq/Lang/Transforms/*Proofs.v.

   PROVED (for every number instance N, every program, input, caller context):
     C08_while_unroll_sound        unroll_while, every times >= 0, every loop selection (index / cursor / all),
                                   bodies with early returns, nested loops, calls: full strength.
     C08_gen_name_fresh / _inj     the fresh-name lemma for the model's supply of temporaries.
   REFUTED on the faithful model (genuine defects of /repo, see known_findings.d/C08.json):
     C08_zip_elim_sound_refuted, C08_enumerate_elim_sound_refuted,
     C08_reduce_fusion_sound_refuted_{while,shortcircuit,target}.
   MODELLED, NOT YET PROVED (structural correspondence + differential execution only):
     see the end of this file. *)
From Coq Require Import ZArith List Bool String.
From FpyV Require Import Num.RealFloat Num.Float Num.CtxDef Lang.Syntax Lang.Values Lang.Sem
  Lang.Transforms.Common Lang.Transforms.WhileUnroll Lang.Transforms.ForUnroll Lang.Transforms.SplitLoop
  Lang.Transforms.IterElim Lang.Transforms.ReduceFusion Lang.Transforms.NumInt
  Lang.Transforms.Frame Lang.Transforms.BigStepProofs Lang.Transforms.NumIntProofs Lang.Transforms.ForUnrollProofs
  Lang.Transforms.ForUnrollStrictProofs Lang.Transforms.ForUnrollModelProofs
  Lang.Transforms.CommonProofs Lang.Transforms.WhileUnrollProofs Lang.Transforms.RefutedProofs.
Import ListNotations.
Open Scope string_scope.
Open Scope Z_scope.

(* unroll_while preserves the result of every run that returns (the transformed
   run returns the very same value, so `cval_eqb v v' = true` a fortiori) *)
Theorem C08_while_unroll_sound :
  forall (N : numops) (P : program) (w : sel) (times : nat) fuel f args c v,
    run N P fuel f args c = ROk v ->
    exists fuel', run N (prog_update P f (while_unroll w times)) fuel' f args c = ROk v.
Proof. exact while_unroll_sound. Qed.
Print Assumptions C08_while_unroll_sound.

Theorem C08_while_unroll_sound_nonvacuous :
  run c08_numops P_while 100 "f" [CList [nz 1; nz 2; nz 4]] None = ROk (CTuple [nz 3; nz 2]) /\
  run c08_numops (prog_update P_while "f" (while_unroll SelAll 2)) 100 "f" [CList [nz 1; nz 2; nz 4]] None
    = ROk (CTuple [nz 3; nz 2]).
Proof. exact while_unroll_sound_nonvacuous. Qed.
Print Assumptions C08_while_unroll_sound_nonvacuous.

Theorem C08_gen_name_fresh : forall names i, ~ In (gen_name (max_len names) i) names.
Proof. exact gen_name_fresh. Qed.
Print Assumptions C08_gen_name_fresh.

Theorem C08_gen_name_inj : forall L i j, gen_name L i = gen_name L j -> i = j.
Proof. exact gen_name_inj. Qed.
Print Assumptions C08_gen_name_inj.

(* ---------------------------------------------------------------- refuted *)
Theorem C08_zip_elim_sound_refuted :
  exists P f args v v',
    run c08_numops P 100 f args None = ROk v /\
    run c08_numops (prog_update P f (elim_iter true true)) 100 f args None = ROk v' /\
    cval_eqb v v' = false.
Proof. exact zip_elim_sound_refuted. Qed.
Print Assumptions C08_zip_elim_sound_refuted.

Theorem C08_enumerate_elim_sound_refuted :
  exists P f args v v',
    run c08_numops P 100 f args None = ROk v /\
    run c08_numops (prog_update P f (elim_iter true true)) 100 f args None = ROk v' /\
    cval_eqb v v' = false.
Proof. exact enumerate_elim_sound_refuted. Qed.
Print Assumptions C08_enumerate_elim_sound_refuted.

Theorem C08_reduce_fusion_sound_refuted_while :
  exists P f args v v',
    run c08_numops P 100 f args None = ROk v /\
    run c08_numops (prog_update P f reduce_fusion) 100 f args None = ROk v' /\
    cval_eqb v v' = false.
Proof. exact reduce_fusion_sound_refuted_while. Qed.
Print Assumptions C08_reduce_fusion_sound_refuted_while.

Theorem C08_reduce_fusion_sound_refuted_shortcircuit :
  exists P f args v,
    run c08_numops P 100 f args None = ROk v /\
    run c08_numops (prog_update P f reduce_fusion) 100 f args None = RErr IndexErr.
Proof. exact reduce_fusion_sound_refuted_shortcircuit. Qed.
Print Assumptions C08_reduce_fusion_sound_refuted_shortcircuit.

Theorem C08_reduce_fusion_sound_refuted_target :
  exists P f args v v',
    run c08_numops P 100 f args None = ROk v /\
    run c08_numops (prog_update P f reduce_fusion) 100 f args None = ROk v' /\
    cval_eqb v v' = false.
Proof. exact reduce_fusion_sound_refuted_target. Qed.
Print Assumptions C08_reduce_fusion_sound_refuted_target.

(* ---------------------------------------------------------------- for-unroll (PEEL) *)
(* PARTIAL.  Proved: unroll_for(f, 0, times, PEEL) -- the loop chosen is the first `for` of the function
   and stands at the top level of its body, its length is not statically known -- preserves every run that
   returns, for EVERY times >= 1, EVERY list length (induction on the number of chunks), every number
   instance with exact INTEGER arithmetic (`int_exact`; the ambient context is arbitrary), for functions
   whose body is in the allocation-free, call-free fragment (Frame.v `ok_block`): bodies that mutate the
   iterated list in place, return early, reassign outer variables, contain while loops and loops over
   existing lists are covered.
   MISSING: bodies / continuations that allocate lists or call functions (the simulation then needs a
   renaming of store locations, not only extra cells); loops nested in other statements or selected by
   cursor / all; STRICT at the run level (block level: C08_strict_block_sim); the static-size specialisations; `times` copies with renamed nested temporaries. *)
Theorem C08_for_unroll_peel_sound_partial :
  forall (N : numops), int_exact N ->
  forall P f fn pre p it body rest times sizes fuel args c v,
    lookup_fn P f = Some fn ->
    f_body fn = (pre ++ SFor p it body :: rest)%list ->
    forallb no_for pre = true -> nth 0 sizes None = None ->
    ok_block (map (gen_name (max_len (func_names fn))) (seq 0 (times + 6))) (f_body fn) = true ->
    run N P fuel f args c = ROk v ->
    exists fuel', run N (prog_update P f (for_unroll (SelIdx 0) (S times) false sizes)) fuel' f args c = ROk v.
Proof. exact for_unroll_peel_sound_partial. Qed.
Print Assumptions C08_for_unroll_peel_sound_partial.

(* the emitted schema simulates the loop and its continuation from ANY pair of environments that agree
   outside the temporaries and any store with extra cells appended (the block-level statement) *)
Theorem C08_peel_block_sim :
  forall (N : numops), int_exact N ->
  forall (P P' : program) (X : list ident) (t nn m r idx : ident) (offs : list ident)
         (p : pat) (it : expr) (body rest : block),
    (forall y, In y (t :: nn :: m :: r :: idx :: offs) -> ok_id X y = false) ->
    NoDup (t :: nn :: m :: r :: idx :: offs) ->
    ok_pat X p = true -> ok_expr X it = true -> ok_block X body = true -> ok_block X rest = true ->
    forall n s s' mu g0 C o mu_f,
      agree X s s' ->
      exec_block N P n s mu C (SFor p it body :: rest) = ROk (o, mu_f) ->
      exists o' g, EvB N P' s' (mu ++ g0)%list C (peel_block t nn m r idx offs p it body ++ rest)%list (o', (mu_f ++ g)%list)
                   /\ out_rel X o o'.
Proof. exact peel_block_sim. Qed.
Print Assumptions C08_peel_block_sim.

(* STRICT, block level: when the length is a multiple of the unroll factor the asserted schema simulates the loop *)
Theorem C08_strict_block_sim :
  forall (N : numops), int_exact N ->
  forall (P P' : program) (X : list ident) (t nn idx : ident) (offs : list ident)
         (p : pat) (it : expr) (body rest : block),
    (forall y, In y (t :: nn :: idx :: offs) -> ok_id X y = false) ->
    NoDup (t :: nn :: idx :: offs) ->
    ok_pat X p = true -> ok_expr X it = true -> ok_block X body = true -> ok_block X rest = true ->
    forall n s s' mu g0 C o mu_f,
      agree X s s' ->
      (forall m vi mui l vs, eval N P m s mu C it = ROk (vi, mui) -> as_list mui vi = ROk (l, vs) ->
                             (List.length vs mod List.length (idx :: offs) = 0)%nat) ->
      exec_block N P n s mu C (SFor p it body :: rest) = ROk (o, mu_f) ->
      exists o' g, EvB N P' s' (mu ++ g0)%list C (strict_block t nn idx offs p it body ++ rest)%list (o', (mu_f ++ g)%list)
                   /\ out_rel X o o'.
Proof. exact strict_block_sim. Qed.
Print Assumptions C08_strict_block_sim.

(* the hypothesis on the number instance is satisfiable: the instance of the correspondence runs *)
Theorem C08_int_exact_inst : int_exact c08_numops.
Proof. exact c08_int_exact. Qed.
Print Assumptions C08_int_exact_inst.

(* the hypotheses of the for-unroll theorem hold for a function that mutates the iterated list and returns early *)
Theorem C08_for_unroll_nonvacuous :
  f_body F_for = ([SAssign (PVar "acc") (int_lit 0)] ++ SFor (PVar "x") (EVar "xs")
       [SIf1 (ECompare [CGt] [EVar "x"; int_lit 2]) [SReturn (ETuple [EVar "acc"; EVar "xs"])];
        SIndexAssign "xs" [int_lit 0] (EVar "acc");
        SAssign (PVar "acc") (EOp2 OAdd (EVar "acc") (EVar "x"))] :: [SReturn (ETuple [EVar "acc"; EVar "xs"])])%list /\
  ok_block (map (gen_name (max_len (func_names F_for))) (seq 0 (2 + 6))) (f_body F_for) = true /\
  run c08_numops P_for 100 "f" [CList [nz 1; nz 2; nz 1; nz 3; nz 1]] None
    = ROk (CTuple [nz 4; CList [nz 3; nz 2; nz 1; nz 3; nz 1]]) /\
  run c08_numops (prog_update P_for "f" (for_unroll (SelIdx 0) 3 false [])) 100 "f" [CList [nz 1; nz 2; nz 1; nz 3; nz 1]] None
    = ROk (CTuple [nz 4; CList [nz 3; nz 2; nz 1; nz 3; nz 1]]).
Proof. exact for_unroll_nonvacuous. Qed.
Print Assumptions C08_for_unroll_nonvacuous.
