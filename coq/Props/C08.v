(* Property C08: loop and iterator restructuring preserves results.
   Statements only; proofs in coq/Lang/Transforms/*Proofs.v. *)
From Coq Require Import ZArith List Bool String.
From FpyV Require Import Num.RealFloat Num.Float Num.CtxDef Lang.Syntax Lang.Values Lang.Sem
  Lang.Transforms.Common Lang.Transforms.WhileUnroll Lang.Transforms.ForUnroll Lang.Transforms.SplitLoop
  Lang.Transforms.IterElim Lang.Transforms.ReduceFusion Lang.Transforms.NumInt.
Import ListNotations.
