(* Property C11 — compiled C++ agrees bit for bit with the interpreter (claimed PARTIAL).
   What is proved is the decision logic of the backend over the model
   coq/Backend/Storage.v (ladder and tables regenerated from /repo on every run and proved
   equal to the model's, build/C11/GenStorage.v):
     - the storage type chosen for an inferred format represents every member of the
       format and is the first rung that does; explicit containment tests are sound;
     - an integer sum / difference whose exact format fits the chosen type cannot wrap
       (product: partial, with the refutation inherited from C14: (-2) * 0 = -0 in int16_t);
     - the rounding-mode table maps exactly the four IEEE modes to the right FE_* constants,
       and natively dispatched float contexts are binary32 / binary64 under those modes.
   NOT proved (no Gallina model can exhibit it): g++ code generation, <cmath>, fesetround,
   the hardware, the 3.8 kLoC statement-level emitter -- covered by the compile-and-run
   differential of ./check C11, which is testing.
   Only statements, each closed by `exact`, each followed by Print Assumptions. *)
From Coq Require Import ZArith List Bool Reals.
From Flocq Require Import Core.Zaux Core.Raux Core.Defs Core.Generic_fmt Core.FLT.
From FpyV Require Import Num.RealFloat Num.RealFloatProofs Num.Float Analysis.AbsFormat Analysis.AbsFormatProofs
  Backend.Storage Backend.StorageProofs.
Import ListNotations.
Open Scope Z_scope.

Theorem C11_storage_contains : forall A b t, af_wf A -> choose_storage_scalar A b = SLadder t ->
  (forall v, gamma A v -> machine_repr t v) /\
  exists l1 L l2, ladder = l1 ++ (t, L) :: l2 /\ af_le A L = true /\
                  forall t' L', In (t', L') l1 -> af_le A L' = false.
Proof. exact storage_contains. Qed.
Print Assumptions C11_storage_contains.

Theorem C11_fallback_specials : forall A b v, choose_storage_scalar A b = SFallbackS64 -> gamma A v ->
  match v with FFin x => rc x = 0 -> rs x = false | _ => False end.
Proof. exact fallback_specials. Qed.
Print Assumptions C11_fallback_specials.

Theorem C11_bound_fits_in_scalar_sound : forall A t v, af_wf A ->
  bound_fits_in_scalar A t = true -> gamma A v -> machine_repr t v.
Proof. exact bound_fits_in_scalar_sound. Qed.
Print Assumptions C11_bound_fits_in_scalar_sound.

Theorem C11_scalar_fits_in_sound : forall a b v, a <> CBOOL -> b <> CBOOL ->
  scalar_fits_in a b = true -> machine_repr a v -> machine_repr b v.
Proof. exact scalar_fits_in_sound. Qed.
Print Assumptions C11_scalar_fits_in_sound.

(* the ladder formats describe exactly the machine types *)
Theorem C11_rung_spec : forall t L, In (t, L) ladder ->
  af_wf L /\ (exists e, a_exp L = EFin e) /\ (forall v, gamma L v <-> machine_repr t v).
Proof. exact rung_spec. Qed.
Print Assumptions C11_rung_spec.

Theorem C11_int_add_exact : forall A B C b t x y, af_wf A -> af_wf B -> af_add A B = Ok C ->
  choose_storage_scalar C b = SLadder t -> gamma A x -> gamma B y -> machine_repr t (fl_add x y).
Proof. exact int_add_exact. Qed.
Print Assumptions C11_int_add_exact.

Theorem C11_int_sub_exact : forall A B C b t x y, af_wf A -> af_wf B -> af_sub A B = Ok C ->
  choose_storage_scalar C b = SLadder t -> gamma A x -> gamma B y -> machine_repr t (fl_sub x y).
Proof. exact int_sub_exact. Qed.
Print Assumptions C11_int_sub_exact.

(* full statement (without the last hypothesis and fin_bounds) is refuted: *)
Theorem C11_int_mul_exact_refuted : exists A B C t x y,
  af_wf A /\ af_wf B /\ af_wf C /\ af_mul A B = Ok C /\ choose_storage_scalar C false = SLadder t /\
  gamma A x /\ gamma B y /\ ~ machine_repr t (fl_mul x y).
Proof. exact int_mul_exact_refuted. Qed.
Print Assumptions C11_int_mul_exact_refuted.

Theorem C11_int_mul_exact_partial : forall A B C b t x y, af_wf A -> af_wf B -> af_wf C -> af_mul A B = Ok C ->
  fin_bounds A -> fin_bounds B ->
  choose_storage_scalar C b = SLadder t -> gamma A x -> gamma B y ->
  (is_negzero (fl_mul x y) = true -> a_nz A || a_nz B = true) ->
  machine_repr t (fl_mul x y).
Proof. exact int_mul_exact_partial. Qed.
Print Assumptions C11_int_mul_exact_partial.

Theorem C11_rm_table_correct : forall rm,
  match fe_of_rm rm with
  | Some f => ieee_rnd rm = Some (fe_rnd f)
  | None => ieee_rnd rm = None /\ ~ In rm fp_rms
  end.
Proof. exact rm_table_correct. Qed.
Print Assumptions C11_rm_table_correct.

Theorem C11_native_fp_ctxs : forall es nbits rm, In (es, nbits, rm) fp_ctxs ->
  fe_of_rm rm <> None /\
  exists t, (t = CF32 \/ t = CF64) /\
    let '(p, emin, me) := ieee_params es nbits in
    In (t, af_ieee p emin me) ladder /\ float_params t = Some (p, emin, me).
Proof. exact native_fp_ctxs. Qed.
Print Assumptions C11_native_fp_ctxs.

(* the counter of a constant-bound `range` loop: every value it takes, the overshoot past `stop` included, is a
   value of the counter type chosen by emitter._range_counter_scalar -- `i += step` cannot wrap *)
Theorem C11_counter_no_wrap : forall start stop step t k, step <> 0 ->
  range_counter_scalar start stop step = SLadder t ->
  0 <= k <= range_len start stop step ->
  machine_repr t (z2fl (start + k * step)).
Proof. exact counter_no_wrap. Qed.
Print Assumptions C11_counter_no_wrap.
