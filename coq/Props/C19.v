(* Property C19 — sites, indices and cursors name exactly what they say.
   Only statements, each closed by `exact`, each followed by Print Assumptions.
   Model: Cursor/Path.v, Edit.v, Forward.v, Sites.v (transcribed from
   fpy2/transform/path.py, cursor.py, utils.py, fpy2/function.py). *)
From Coq Require Import ZArith List Bool Permutation.
From FpyV Require Import Cursor.Path Cursor.Edit Cursor.Forward Cursor.Sites
  Cursor.ForwardProofs Cursor.SitesProofs.
Import ListNotations.
Open Scope Z_scope.

(* ---- forwarding across one pass ----
   For a log whose edits are well-formed and pairwise disjoint (the checks of
   Edit.__post_init__ / EditLog.__post_init__) and whose result is what the
   edits say (`apply`), a statement cursor forwards to
     - the statement with the same label (the survivor, its blocks rewritten by
       the edits recorded inside it), or
     - the single statement / the region that replaced it (exactly `enew e` of
       the edit that consumed it),
   or raises a reference error, and then because it belongs to another program,
   an enclosing statement was rewritten, or it was deleted.  Nothing else. *)
Theorem C19_forward_descendant : forall lg t fn p s,
  log_faithful lg t -> resolve_stmt t p = Ok s ->
  match forward_stmt_cursor lg fn p with
  | Ok (CStmt r p') =>
      r = l_res lg /\
      exists s', resolve_stmt (l_rtree lg) p' = Ok s' /\
        ((s' = apply_stmt (l_edits lg) (fst p) (snd p) s /\ label s' = label s
          /\ covered (l_edits lg) (fst p) (snd p) = false)
         \/ exists e, In e (l_edits lg) /\ contains_b (fst p) (snd p) e = true /\ enew e = [s'])
  | Ok (CBlock r b lo hi) =>
      r = l_res lg /\
      exists e blk, In e (l_edits lg) /\ contains_b (fst p) (snd p) e = true /\
        resolve_block (l_rtree lg) b = Ok blk /\ region blk lo hi = enew e /\ (2 <= zlen (enew e))
  | Ok (CExpr _ _ _) => False
  | Err x =>
      x = RefErr /\
      (fn <> l_src lg \/ anc_replaced (l_edits lg) (fst p) = true
       \/ exists e, In e (l_edits lg) /\ contains_b (fst p) (snd p) e = true /\ enew e = [])
  end.
Proof. exact forward_descendant. Qed.
Print Assumptions C19_forward_descendant.

(* the path arithmetic itself (`_forward_stmt` / `_forward_block`) *)
Theorem C19_forward_stmt_sound : forall es t p s,
  edits_ok es -> pairwise es = true -> resolve_stmt t p = Ok s ->
  match forward_stmt es p with
  | Ok (b', i', None) =>
      covered es (fst p) (snd p) = false /\
      resolve_stmt (apply es t) (b', i') = Ok (apply_stmt es (fst p) (snd p) s)
  | Ok (b', i', Some e) =>
      In e es /\ contains_b (fst p) (snd p) e = true /\
      exists pre post, resolve_block (apply es t) b' = Ok (pre ++ enew e ++ post) /\ zlen pre = i'
  | Err x => x = RefErr /\ anc_replaced es (fst p) = true
  end.
Proof. exact forward_stmt_sound. Qed.
Print Assumptions C19_forward_stmt_sound.

(* hypotheses are satisfiable: body[0] replaced by two statements, body[1] moves to body[2] *)
Example C19_forward_example :
  let t := [SLeaf 1; SOne 2 [SLeaf 3]] in
  let es := [Edit FuncBody 0 1 [SLeaf 10; SLeaf 11]] in
  let lg := ELog 0 1 (apply es t) es [] true in
  log_faithful lg t /\
  forward_stmt_cursor lg 0 (SubBlock FuncBody 1 FBody, 0) = Ok (CStmt 1 (SubBlock FuncBody 2 FBody, 0)) /\
  forward_stmt_cursor lg 0 (FuncBody, 0) = Ok (CBlock 1 FuncBody 0 2).
Proof.
  cbv zeta. split; [|split]; [|vm_compute; reflexivity|vm_compute; reflexivity].
  split; [|split]; [|reflexivity|reflexivity].
  intros e [<-|[]]. reflexivity.
Qed.
Print Assumptions C19_forward_example.

(* ---- statements the reported edits did not touch are unchanged ---- *)
Theorem C19_untouched_unchanged : forall es t p s,
  edits_ok es -> pairwise es = true -> resolve_stmt t p = Ok s ->
  none_beneath es (fst p) (snd p) ->
  forall b' i', forward_stmt es p = Ok (b', i', None) ->
  resolve_stmt (apply es t) (b', i') = Ok s.
Proof. exact untouched_unchanged. Qed.
Print Assumptions C19_untouched_unchanged.

(* ---- replay along the parent chain = forwarding over each log in turn ---- *)
Theorem C19_forward_compose : forall f r c,
  chain_forward (f :: r) c =
  if f_ast f =? cursor_fn c then Ok c else replay_step (chain_forward r c) (f_log f).
Proof. exact forward_compose. Qed.
Print Assumptions C19_forward_compose.

Theorem C19_opaque_pass_stops : forall f r c,
  (f_ast f =? cursor_fn c) = false -> f_log f = None -> chain_forward (f :: r) c = Err RefErr.
Proof. exact opaque_pass_stops. Qed.
Print Assumptions C19_opaque_pass_stops.

Theorem C19_unrelated_program : forall chain c,
  (forall f, In f chain -> (f_ast f =? cursor_fn c) = false) -> chain_forward chain c = Err RefErr.
Proof. exact unrelated_program. Qed.
Print Assumptions C19_unrelated_program.

Theorem C19_only_reference_errors : forall chain c x, chain_forward chain c = Err x -> x = RefErr.
Proof. exact chain_forward_err. Qed.
Print Assumptions C19_only_reference_errors.

(* ---- the `where` contract of a site rewriter ---- *)
Theorem C19_site_index_all : forall (C : Type) (refuses : C -> bool) cs,
  run refuses None cs = Ok (list_sites refuses cs).
Proof. exact @site_index_all. Qed.
Print Assumptions C19_site_index_all.

Theorem C19_site_index_one : forall (C : Type) (refuses : C -> bool) cs j c,
  nthZ j (list_sites refuses cs) = Some c -> run refuses (Some j) cs = Ok [c].
Proof. exact @site_index_one. Qed.
Print Assumptions C19_site_index_one.

Theorem C19_site_index_reject : forall (C : Type) (refuses : C -> bool) cs j,
  j < 0 \/ zlen (list_sites refuses cs) <= j -> run refuses (Some j) cs = Err RefErr.
Proof. exact @site_index_reject. Qed.
Print Assumptions C19_site_index_reject.

Theorem C19_site_partition : forall (C : Type) (refuses : C -> bool) cs,
  Permutation cs (list_sites refuses cs ++ list_refusals refuses cs) /\
  (forall c, In c (list_sites refuses cs) -> In c cs /\ refuses c = false) /\
  (forall c, In c (list_refusals refuses cs) -> In c cs /\ refuses c = true) /\
  zlen cs = zlen (list_sites refuses cs) + zlen (list_refusals refuses cs).
Proof. exact @site_partition. Qed.
Print Assumptions C19_site_partition.

Theorem C19_refusals_take_no_index : forall (C : Type) (refuses : C -> bool) cs w,
  run refuses w cs = run refuses w (filter (fun c => negb (refuses c)) cs).
Proof. exact @refusals_take_no_index. Qed.
Print Assumptions C19_refusals_take_no_index.
