(* Property C19 — sites, indices and cursors name exactly what they say.
   Only statements, each closed by `exact`, each followed by Print Assumptions.
   Model: Cursor/Path.v, Edit.v, Forward.v, Sites.v (transcribed from
   fpy2/transform/path.py, cursor.py, utils.py, fpy2/function.py). *)
From Coq Require Import ZArith List Bool Permutation.
From FpyV Require Import Cursor.Path Cursor.Edit Cursor.Forward Cursor.Sites
  Cursor.ForwardProofs Cursor.SitesProofs Cursor.TreeSitesProofs.
Import ListNotations.
Open Scope Z_scope.

(* ---- forwarding across one pass ----
   For a log whose edits are well-formed and pairwise disjoint (the checks of
   Edit.__post_init__ / EditLog.__post_init__) and whose result is what the
   edits say (`apply`), a statement cursor forwards to
     - the statement with the same label (the survivor, its blocks rewritten by
       the edits recorded inside it), or
     - the single statement / the region that replaced it (exactly `enew e` of
       the edit that consumed it),
   or raises a reference error, and then because it belongs to another program,
   an enclosing statement was rewritten, or it was deleted.  Nothing else. *)
Theorem C19_forward_descendant : forall lg t fn p s,
  log_faithful lg t -> resolve_stmt t p = Ok s ->
  match forward_stmt_cursor lg fn p with
  | Ok (CStmt r p') =>
      r = l_res lg /\
      exists s', resolve_stmt (l_rtree lg) p' = Ok s' /\
        ((s' = apply_stmt (l_edits lg) (fst p) (snd p) s /\ label s' = label s
          /\ covered (l_edits lg) (fst p) (snd p) = false)
         \/ exists e, In e (l_edits lg) /\ contains_b (fst p) (snd p) e = true /\ enew e = [s'])
  | Ok (CBlock r b lo hi) =>
      r = l_res lg /\
      exists e blk, In e (l_edits lg) /\ contains_b (fst p) (snd p) e = true /\
        resolve_block (l_rtree lg) b = Ok blk /\ region blk lo hi = enew e /\ (2 <= zlen (enew e))
  | Ok (CExpr _ _ _) => False
  | Err x =>
      x = RefErr /\
      (fn <> l_src lg \/ anc_replaced (l_edits lg) (fst p) = true
       \/ exists e, In e (l_edits lg) /\ contains_b (fst p) (snd p) e = true /\ enew e = [])
  end.
Proof. exact forward_descendant. Qed.
Print Assumptions C19_forward_descendant.

(* the path arithmetic itself (`_forward_stmt` / `_forward_block`) *)
Theorem C19_forward_stmt_sound : forall es t p s,
  edits_ok es -> pairwise es = true -> resolve_stmt t p = Ok s ->
  match forward_stmt es p with
  | Ok (b', i', None) =>
      covered es (fst p) (snd p) = false /\
      resolve_stmt (apply es t) (b', i') = Ok (apply_stmt es (fst p) (snd p) s)
  | Ok (b', i', Some e) =>
      In e es /\ contains_b (fst p) (snd p) e = true /\
      exists pre post, resolve_block (apply es t) b' = Ok (pre ++ enew e ++ post) /\ zlen pre = i'
  | Err x => x = RefErr /\ anc_replaced es (fst p) = true
  end.
Proof. exact forward_stmt_sound. Qed.
Print Assumptions C19_forward_stmt_sound.

(* hypotheses are satisfiable: body[0] replaced by two statements, body[1] moves to body[2] *)
Example C19_forward_example :
  let t := [SLeaf 1; SOne 2 [SLeaf 3]] in
  let es := [Edit FuncBody 0 1 [SLeaf 10; SLeaf 11]] in
  let lg := ELog 0 1 (apply es t) es [] true in
  log_faithful lg t /\
  forward_stmt_cursor lg 0 (SubBlock FuncBody 1 FBody, 0) = Ok (CStmt 1 (SubBlock FuncBody 2 FBody, 0)) /\
  forward_stmt_cursor lg 0 (FuncBody, 0) = Ok (CBlock 1 FuncBody 0 2).
Proof.
  cbv zeta. split; [|split]; [|vm_compute; reflexivity|vm_compute; reflexivity].
  split; [|split]; [|reflexivity|reflexivity].
  intros e [<-|[]]. reflexivity.
Qed.
Print Assumptions C19_forward_example.

(* ---- statements the reported edits did not touch are unchanged ---- *)
Theorem C19_untouched_unchanged : forall es t p s,
  edits_ok es -> pairwise es = true -> resolve_stmt t p = Ok s ->
  none_beneath es (fst p) (snd p) ->
  forall b' i', forward_stmt es p = Ok (b', i', None) ->
  resolve_stmt (apply es t) (b', i') = Ok s.
Proof. exact untouched_unchanged. Qed.
Print Assumptions C19_untouched_unchanged.

(* ---- replay along the parent chain = forwarding over each log in turn ---- *)
Theorem C19_forward_compose : forall f r c,
  chain_forward (f :: r) c =
  if f_ast f =? cursor_fn c then Ok c else replay_step (chain_forward r c) (f_log f).
Proof. exact forward_compose. Qed.
Print Assumptions C19_forward_compose.

Theorem C19_opaque_pass_stops : forall f r c,
  (f_ast f =? cursor_fn c) = false -> f_log f = None -> chain_forward (f :: r) c = Err RefErr.
Proof. exact opaque_pass_stops. Qed.
Print Assumptions C19_opaque_pass_stops.

Theorem C19_unrelated_program : forall chain c,
  (forall f, In f chain -> (f_ast f =? cursor_fn c) = false) -> chain_forward chain c = Err RefErr.
Proof. exact unrelated_program. Qed.
Print Assumptions C19_unrelated_program.

Theorem C19_only_reference_errors : forall chain c x, chain_forward chain c = Err x -> x = RefErr.
Proof. exact chain_forward_err. Qed.
Print Assumptions C19_only_reference_errors.

(* A cursor taken in program g (on the chain) and replayed to the newest
   program names a statement whose label is the original one or one some pass
   on the way introduced (the replacing statement / region) — never the label
   of another original statement.
   PARTIAL: the steps whose image is a region (`_forward_region`) are excluded
   by `stmt_only`; region steps are covered by the correspondence (part A:
   CChain with regions, part B) only. *)
Theorem C19_chain_descendant_partial : forall chain fn0 p0 g s0 c',
  chain_wf chain ->
  find_root chain fn0 = Some g -> resolve_stmt (f_tree g) p0 = Ok s0 ->
  stmt_only chain (CStmt fn0 p0) ->
  chain_forward chain (CStmt fn0 p0) = Ok c' ->
  match chain with
  | f :: _ => tracks (label s0) (new_labels chain) f c'
  | [] => False
  end.
Proof. exact chain_descendant_partial. Qed.
Print Assumptions C19_chain_descendant_partial.

Example C19_chain_example :
  let t0 := [SLeaf 1; SLeaf 2] in
  let e1 := [Edit FuncBody 0 0 [SLeaf 10]] in
  let t1 := apply e1 t0 in
  let e2 := [Edit FuncBody 2 1 [SLeaf 20]] in
  let t2 := apply e2 t1 in
  let chain := [Func 2 t2 (Some (ELog 1 2 t2 e2 [] true)); Func 1 t1 (Some (ELog 0 1 t1 e1 [] true)); Func 0 t0 None] in
  chain_wf chain /\ stmt_only chain (CStmt 0 (FuncBody, 0)) /\
  chain_forward chain (CStmt 0 (FuncBody, 0)) = Ok (CStmt 2 (FuncBody, 1)) /\
  chain_forward chain (CStmt 0 (FuncBody, 1)) = Ok (CStmt 2 (FuncBody, 2)).
Proof.
  cbv zeta. split; [|split; [|split]]; [|vm_compute; tauto|vm_compute; reflexivity|vm_compute; reflexivity].
  simpl chain_wf. unfold log_faithful. simpl l_edits. simpl l_rtree. simpl f_tree.
  repeat split; try reflexivity; intros e [<-|[]]; reflexivity.
Qed.
Print Assumptions C19_chain_example.

(* ---- expression cursors ---- *)
Theorem C19_expr_cursor_rule : forall lg fn p sfx c',
  forward lg (CExpr fn p sfx) = Ok c' ->
  fn = l_src lg /\ l_preserved lg = true /\ existsb (spath_eqb p) (l_dirty lg) = false /\
  exists b i, forward_stmt (l_edits lg) p = Ok (b, i, None) /\ c' = CExpr (l_res lg) (b, i) sfx.
Proof. exact expr_cursor_rule. Qed.
Print Assumptions C19_expr_cursor_rule.

(* ---- the `where` contract of a site rewriter ---- *)
Theorem C19_site_index_all : forall (C : Type) (refuses : C -> bool) cs,
  run refuses None cs = Ok (list_sites refuses cs).
Proof. exact @site_index_all. Qed.
Print Assumptions C19_site_index_all.

Theorem C19_site_index_one : forall (C : Type) (refuses : C -> bool) cs j c,
  nthZ j (list_sites refuses cs) = Some c -> run refuses (Some j) cs = Ok [c].
Proof. exact @site_index_one. Qed.
Print Assumptions C19_site_index_one.

Theorem C19_site_index_reject : forall (C : Type) (refuses : C -> bool) cs j,
  j < 0 \/ zlen (list_sites refuses cs) <= j -> run refuses (Some j) cs = Err RefErr.
Proof. exact @site_index_reject. Qed.
Print Assumptions C19_site_index_reject.

Theorem C19_site_partition : forall (C : Type) (refuses : C -> bool) cs,
  Permutation cs (list_sites refuses cs ++ list_refusals refuses cs) /\
  (forall c, In c (list_sites refuses cs) -> In c cs /\ refuses c = false) /\
  (forall c, In c (list_refusals refuses cs) -> In c cs /\ refuses c = true) /\
  zlen cs = zlen (list_sites refuses cs) + zlen (list_refusals refuses cs).
Proof. exact @site_partition. Qed.
Print Assumptions C19_site_partition.

Theorem C19_refusals_take_no_index : forall (C : Type) (refuses : C -> bool) cs w,
  run refuses w cs = run refuses w (filter (fun c => negb (refuses c)) cs).
Proof. exact @refusals_take_no_index. Qed.
Print Assumptions C19_refusals_take_no_index.

(* ---- the same contract for the walk over a statement tree, where the blocks
   of a rewritten candidate are visited `reps` more times (`_WhileUnroll`
   re-visits the body `times + 1` times, inflating `site_idx`) ---- *)
Theorem C19_tree_site_index_one : forall cand refuses reps j t l,
  nthZ j (tsites cand refuses t) = Some l -> trun cand refuses reps (Some j) t = Ok [l].
Proof. exact tree_site_index_one. Qed.
Print Assumptions C19_tree_site_index_one.

Theorem C19_tree_site_index_reject : forall cand refuses reps j t,
  j < 0 \/ zlen (tsites cand refuses t) <= j -> trun cand refuses reps (Some j) t = Err RefErr.
Proof. exact tree_site_index_reject. Qed.
Print Assumptions C19_tree_site_index_reject.

Theorem C19_tree_site_index_all : forall cand refuses reps t,
  exists rw, trun cand refuses reps None t = Ok rw /\ (forall l, In l rw <-> In l (tsites cand refuses t)).
Proof. exact tree_site_index_all. Qed.
Print Assumptions C19_tree_site_index_all.

Example C19_tree_site_example :
  let t := [SOne 1 [SOne 2 [SLeaf 3]]; SOne 4 [SLeaf 5]] in
  let cand := fun s => match s with SOne _ _ => true | _ => false end in
  let refuses := fun s => label s =? 2 in
  tsites cand refuses t = [1; 4] /\ trefusals cand refuses t = [2] /\
  trun cand refuses 2 (Some 1) t = Ok [4] /\ trun cand refuses 2 (Some 2) t = Err RefErr /\
  trun cand refuses 2 None t = Ok [1; 4].
Proof. vm_compute. repeat split; reflexivity. Qed.
Print Assumptions C19_tree_site_example.
