(* Property C20 -- library decompositions are exact.  Statements only; proofs in
   Lib/EftProofs.v, Lib/EftMulProofs.v, Lib/EftExecProofs.v, Lib/DecompProofs.v.

   Reading guide.  `call N FUEL P f args` runs library function f of program P
   (regenerated from /repo on every run; the hypothesis `lookup f P = Ok body`
   is discharged for the regenerated program by vm_compute in build/C20/).
   `numR rnd prec` interprets the program over the reals with the caller's
   rounding operator rnd (Flocq `round radix2 (FLT_exp emin prec) ...`: a
   floating-point format with subnormals); `numF fc` runs it on RealFloat values
   with the shared model of RealFloat.round.

   Full-strength statements and what is proved instead:
   * classic_2sum / classic_2mul / classic_2fma: proved for the repaired bodies
     (Eft.classic_2sum_body, classic_2mul_body, classic_2fma_body); the bodies
     found at the pinned revision are REFUTED (`..._pinned_refuted`).
   * priest_2sum: `_partial` -- proved for round-to-nearest (any tie rule); the
     docstring claims any faithful rounding, which is only checked
     exhaustively on small formats by the correspondence run.
   * classic_2fma: round-to-nearest-even with Flocq's simplified no-underflow
     hypotheses (ErrFMA_correct_simpl).
   * frexp: proved for the repaired source variant (`_repaired`: no
     x.normalize(), exponent rounded with exact=True; which variant /repo has
     is read off the source on every run); for the variant at the pinned
     revision only `_partial`, with `frexp_..._refuted`: the exponent is rounded
     without exact=True and an operand without a context is rejected. *)
From Coq Require Import ZArith List Bool String Reals.
From Flocq Require Import Core.
From FpyV Require Import Num.RealFloat Num.RealFloatProofs Num.Float
  Lib.Eft Lib.EftReal Lib.EftProofs Lib.EftMulProofs Lib.EftExecProofs Lib.Decomp Lib.DecompProofs.
Import ListNotations.
Open Scope R_scope.
Open Scope string_scope.

Theorem C20_ideal_2sum_exact :
  forall (rnd : R -> R) (prec : Z) (P : prog) (a b : R),
  lookup "ideal_2sum" P = Ok ideal_2sum_body ->
  call (numR rnd prec) FUEL P "ideal_2sum" [a; b] = Ok [rnd (a + b); (a + b) - rnd (a + b)].
Proof. exact ideal_2sum_exact. Qed.
Print Assumptions C20_ideal_2sum_exact.

Theorem C20_ideal_2mul_exact :
  forall (rnd : R -> R) (prec : Z) (P : prog) (a b : R),
  lookup "ideal_2mul" P = Ok ideal_2mul_body ->
  call (numR rnd prec) FUEL P "ideal_2mul" [a; b] = Ok [rnd (a * b); (a * b) - rnd (a * b)].
Proof. exact ideal_2mul_exact. Qed.
Print Assumptions C20_ideal_2mul_exact.

Theorem C20_ideal_fma_exact :
  forall (rnd : R -> R) (prec : Z) (P : prog) (a b c : R),
  lookup "ideal_fma" P = Ok ideal_fma_body ->
  call (numR rnd prec) FUEL P "ideal_fma" [a; b; c] = Ok [rnd (a * b + c); (a * b + c) - rnd (a * b + c)].
Proof. exact ideal_fma_exact. Qed.
Print Assumptions C20_ideal_fma_exact.

Theorem C20_fast_2sum_exact :
  forall (emin prec : Z) (choice : Z -> bool), (1 < prec)%Z -> (emin <= 0)%Z ->
  (forall x : Z, choice x = negb (choice (- (x + 1))%Z)) ->
  forall (P : prog) (a b : R),
  lookup "fast_2sum" P = Ok fast_2sum_body -> generic_format radix2 (FLT_exp emin prec) a -> generic_format radix2 (FLT_exp emin prec) b -> Rabs b <= Rabs a ->
  exists s t : R, call (numR (round radix2 (FLT_exp emin prec) (Znearest choice)) prec) FUEL P "fast_2sum" [a; b] = Ok [s; t] /\
    s = round radix2 (FLT_exp emin prec) (Znearest choice) (a + b) /\ s + t = a + b.
Proof. exact fast_2sum_exact. Qed.
Print Assumptions C20_fast_2sum_exact.

Theorem C20_fast_2sum_precondition_enforced :
  forall (emin prec : Z) (choice : Z -> bool) (P : prog) (a b : R),
  lookup "fast_2sum" P = Ok fast_2sum_body -> generic_format radix2 (FLT_exp emin prec) a -> generic_format radix2 (FLT_exp emin prec) b -> Rabs a < Rabs b ->
  call (numR (round radix2 (FLT_exp emin prec) (Znearest choice)) prec) FUEL P "fast_2sum" [a; b] = Err AssertErr.
Proof. exact fast_2sum_rejects. Qed.
Print Assumptions C20_fast_2sum_precondition_enforced.

Theorem C20_classic_2sum_exact :
  forall (emin prec : Z) (choice : Z -> bool), (1 < prec)%Z -> (emin <= 0)%Z ->
  (forall x : Z, choice x = negb (choice (- (x + 1))%Z)) ->
  forall (P : prog) (a b : R),
  lookup "classic_2sum" P = Ok classic_2sum_body -> generic_format radix2 (FLT_exp emin prec) a -> generic_format radix2 (FLT_exp emin prec) b ->
  exists s t : R, call (numR (round radix2 (FLT_exp emin prec) (Znearest choice)) prec) FUEL P "classic_2sum" [a; b] = Ok [s; t] /\
    s = round radix2 (FLT_exp emin prec) (Znearest choice) (a + b) /\ s + t = a + b.
Proof. exact classic_2sum_exact. Qed.
Print Assumptions C20_classic_2sum_exact.

Theorem C20_classic_2sum_pinned_refuted :
  exists (fc : fctx) (a b s t : rf),
  call (numF fc) FUEL lib_pinned "classic_2sum" [a; b] = Ok [s; t] /\
  rf_eqb (rf_add s t) (rf_add a b) = false.
Proof. exact classic_2sum_pinned_refuted. Qed.
Print Assumptions C20_classic_2sum_pinned_refuted.

Theorem C20_priest_2sum_exact_partial :
  forall (emin prec : Z) (choice : Z -> bool), (1 < prec)%Z -> (emin <= 0)%Z ->
  (forall x : Z, choice x = negb (choice (- (x + 1))%Z)) ->
  forall (P : prog) (a b : R),
  lookup "priest_2sum" P = Ok priest_2sum_body -> generic_format radix2 (FLT_exp emin prec) a -> generic_format radix2 (FLT_exp emin prec) b ->
  exists s t : R, call (numR (round radix2 (FLT_exp emin prec) (Znearest choice)) prec) FUEL P "priest_2sum" [a; b] = Ok [s; t] /\ s + t = a + b.
Proof. exact priest_2sum_exact_nearest. Qed.
Print Assumptions C20_priest_2sum_exact_partial.

Theorem C20_fast_2mul_exact :
  forall (emin prec : Z), Prec_gt_0 prec -> forall (rndZ : R -> Z), Valid_rnd rndZ ->
  forall (P : prog) (a b : R),
  lookup "fast_2mul" P = Ok fast_2mul_body -> generic_format radix2 (FLT_exp emin prec) a -> generic_format radix2 (FLT_exp emin prec) b ->
  (a * b = 0 \/ bpow radix2 (emin + 2 * prec - 1) <= Rabs (a * b)) ->
  exists s t : R, call (numR (round radix2 (FLT_exp emin prec) rndZ) prec) FUEL P "fast_2mul" [a; b] = Ok [s; t] /\
    s = round radix2 (FLT_exp emin prec) rndZ (a * b) /\ s + t = a * b.
Proof. exact fast_2mul_exact. Qed.
Print Assumptions C20_fast_2mul_exact.

Theorem C20_veltkamp_split_spec :
  forall (emin prec : Z) (choice : Z -> bool), Prec_gt_0 prec -> (emin <= 0)%Z ->
  forall (P : prog) (x : R) (s : Z),
  lookup "veltkamp_split" P = Ok veltkamp_split_body ->
  (3 <= prec)%Z -> (2 <= s)%Z -> (s <= prec - 2)%Z -> generic_format radix2 (FLT_exp emin prec) x ->
  exists hi lo : R, call (numR (round radix2 (FLT_exp emin prec) (Znearest choice)) prec) FUEL P "veltkamp_split" [x; IZR s] = Ok [hi; lo] /\
    x = hi + lo /\ generic_format radix2 (FLT_exp emin s) lo /\
    exists choice' : Z -> bool, hi = round radix2 (FLT_exp emin (prec - s)) (Znearest choice') x.
Proof. exact veltkamp_split_spec. Qed.
Print Assumptions C20_veltkamp_split_spec.

Theorem C20_classic_2mul_exact :
  forall (emin prec : Z) (choice : Z -> bool), Prec_gt_0 prec -> (emin <= 0)%Z ->
  forall (P : prog) (a b : R),
  lookup "classic_2mul" P = Ok classic_2mul_body ->
  lookup "veltkamp_split" P = Ok veltkamp_split_body ->
  (4 <= prec)%Z -> (emin < 0)%Z -> generic_format radix2 (FLT_exp emin prec) a -> generic_format radix2 (FLT_exp emin prec) b ->
  (a * b = 0 \/ bpow radix2 (emin + 2 * prec - 1) <= Rabs (a * b)) ->
  exists s t : R, call (numR (round radix2 (FLT_exp emin prec) (Znearest choice)) prec) FUEL P "classic_2mul" [a; b] = Ok [s; t] /\
    s = round radix2 (FLT_exp emin prec) (Znearest choice) (a * b) /\ s + t = a * b.
Proof. exact classic_2mul_exact. Qed.
Print Assumptions C20_classic_2mul_exact.

Theorem C20_classic_2mul_pinned_refuted :
  forall (rnd : R -> R) (prec : Z) (P : prog) (a b : R),
  lookup "classic_2mul" P = Ok classic_2mul_body_bad ->
  call (numR rnd prec) FUEL P "classic_2mul" [a; b] = Err ValueErr.
Proof. exact classic_2mul_pinned_always_fails. Qed.
Print Assumptions C20_classic_2mul_pinned_refuted.

Theorem C20_classic_2mul_pinned_refuted_exec :
  exists (fc : fctx) (a b : rf),
  call (numF fc) FUEL lib_pinned "classic_2mul" [a; b] = Err ValueErr.
Proof. exact classic_2mul_pinned_refuted. Qed.
Print Assumptions C20_classic_2mul_pinned_refuted_exec.

Theorem C20_classic_2mul_half_refuted :
  exists (fc : fctx) (a b s t : rf),
  call (numF fc) FUEL (replace_fn "classic_2mul" classic_2mul_body_half lib_good) "classic_2mul" [a; b] = Ok [s; t] /\
  rf_eqb (rf_add s t) (rf_mul a b) = false.
Proof. exact classic_2mul_half_refuted. Qed.
Print Assumptions C20_classic_2mul_half_refuted.

Theorem C20_classic_2fma_exact :
  forall (emin prec : Z), Prec_gt_0 prec -> (emin <= 0)%Z -> (3 <= prec)%Z ->
  forall (P : prog) (a b c : R),
  lookup "classic_2fma" P = Ok classic_2fma_body ->
  lookup "fast_2mul" P = Ok fast_2mul_body ->
  lookup "classic_2sum" P = Ok classic_2sum_body ->
  generic_format radix2 (FLT_exp emin prec) a -> generic_format radix2 (FLT_exp emin prec) b -> generic_format radix2 (FLT_exp emin prec) c ->
  (a * b = 0 \/ bpow radix2 (emin + 4 * prec - 3) <= Rabs (a * b)) ->
  (c = 0 \/ bpow radix2 (emin + 2 * prec) <= Rabs c) ->
  exists r1 r2 r3 : R, call (numR (round radix2 (FLT_exp emin prec) ZnearestE) prec) FUEL P "classic_2fma" [a; b; c] = Ok [r1; r2; r3] /\
    r1 = round radix2 (FLT_exp emin prec) ZnearestE (a * b + c) /\ r1 + r2 + r3 = a * b + c.
Proof. exact classic_2fma_exact. Qed.
Print Assumptions C20_classic_2fma_exact.

Theorem C20_classic_2fma_pinned_partial :
  forall (emin prec : Z), Prec_gt_0 prec -> (emin <= 0)%Z -> (3 <= prec)%Z ->
  forall (P : prog) (a b c : R) (r : list R),
  lookup "classic_2fma" P = Ok classic_2fma_body_fast ->
  lookup "fast_2mul" P = Ok fast_2mul_body ->
  lookup "classic_2sum" P = Ok classic_2sum_body ->
  lookup "fast_2sum" P = Ok fast_2sum_body ->
  generic_format radix2 (FLT_exp emin prec) a -> generic_format radix2 (FLT_exp emin prec) b -> generic_format radix2 (FLT_exp emin prec) c ->
  (a * b = 0 \/ bpow radix2 (emin + 4 * prec - 3) <= Rabs (a * b)) ->
  (c = 0 \/ bpow radix2 (emin + 2 * prec) <= Rabs c) ->
  call (numR (round radix2 (FLT_exp emin prec) ZnearestE) prec) FUEL P "classic_2fma" [a; b; c] = Ok r ->
  exists r1 r2 r3 : R, r = [r1; r2; r3] /\
    r1 = round radix2 (FLT_exp emin prec) ZnearestE (a * b + c) /\ r1 + r2 + r3 = a * b + c.
Proof. exact classic_2fma_fast_partial. Qed.
Print Assumptions C20_classic_2fma_pinned_partial.

Theorem C20_classic_2fma_pinned_refuted :
  exists (fc : fctx) (a b c : rf),
  call (numF fc) FUEL (replace_fn "classic_2fma" classic_2fma_body_fast lib_good) "classic_2fma" [a; b; c] = Err AssertErr.
Proof. exact classic_2fma_fast_refuted. Qed.
Print Assumptions C20_classic_2fma_pinned_refuted.

Theorem C20_ldexp_once :
  forall (rnd : R -> R) (prec : Z) (P : prog) (x : R) (n : Z),
  lookup "ldexp" P = Ok ldexp_body ->
  call (numR rnd prec) FUEL P "ldexp" [x; IZR n] = Ok [rnd (x * bpow radix2 n)].
Proof. exact ldexp_once. Qed.
Print Assumptions C20_ldexp_once.

Theorem C20_ldexp_rejects_fraction :
  forall (rnd : R -> R) (prec : Z) (P : prog) (x y : R),
  lookup "ldexp" P = Ok ldexp_body -> IZR (Zfloor y) <> y ->
  call (numR rnd prec) FUEL P "ldexp" [x; y] = Err AssertErr.
Proof. exact ldexp_rejects_fraction. Qed.
Print Assumptions C20_ldexp_rejects_fraction.

Theorem C20_split_recombine :
  forall (fc : fctx) (x n hi lo : fl), fl_wf x ->
  core_split fc x n = Ok (hi, lo) ->
  match x with
  | FFin r => fl_fin hi /\ fl_fin lo /\ fl_val hi + fl_val lo = R2R r /\
      exists k : Z, fl_to_int n = Ok k /\ Rabs (fl_val lo) < bpow radix2 (k + 1) /\
        exists z : Z, fl_val hi = IZR z * bpow radix2 (k + 1)
  | FInf s => hi = FInf s /\ lo = FInf s
  | FNaN _ => fl_isnan hi = true /\ fl_isnan lo = true
  end.
Proof. exact split_recombine. Qed.
Print Assumptions C20_split_recombine.

Theorem C20_split_rejects_fraction :
  forall (fc : fctx) (x n : fl), fl_is_integer n = false -> core_split fc x n = Err ValueErr.
Proof. exact split_rejects_fraction. Qed.
Print Assumptions C20_split_rejects_fraction.

Theorem C20_modf_recombine :
  forall (fc : fctx) (x i f : fl), fl_wf x ->
  core_modf fc x = Ok (i, f) ->
  match x with
  | FFin r => fl_fin i /\ fl_fin f /\ fl_val i + fl_val f = R2R r /\
      Rabs (fl_val f) < 1 /\ (exists z : Z, fl_val i = IZR z) /\ fl_s i = rs r /\ fl_s f = rs r
  | FInf s => f = FInf s /\ fl_fin i /\ fl_val i = 0 /\ fl_s i = s
  | FNaN _ => fl_isnan i = true /\ fl_isnan f = true
  end.
Proof. exact modf_recombine. Qed.
Print Assumptions C20_modf_recombine.

Theorem C20_frexp_recombine_repaired :
  forall (fc : fctx) (xctx : option (Z * option Z)) (r : rf) (m e : fl),
  rf_wf r -> is_zero r = false ->
  core_frexp frexp_repaired fc xctx (FFin r) = Ok (m, e) ->
  fl_fin m /\ fl_fin e /\ fl_val e = IZR (rf_e r) /\
  fl_val m * bpow radix2 (rf_e r) = R2R r /\ 1 <= Rabs (fl_val m) < 2 /\ fl_s m = rs r.
Proof. exact frexp_recombine_repaired. Qed.
Print Assumptions C20_frexp_recombine_repaired.

Theorem C20_frexp_recombine_partial :
  forall (v : frexp_variant) (fc : fctx) (xctx : option (Z * option Z)) (r : rf) (m e : fl),
  rf_wf r -> is_zero r = false ->
  core_frexp v fc xctx (FFin r) = Ok (m, e) ->
  exists y : rf, (if fv_normalize v then float_normalize xctx r else Ok r) = Ok y /\ fl_fin m /\
    fl_val m * bpow radix2 (rf_e y) = R2R r /\ 1 <= Rabs (fl_val m) < 2 /\ fl_s m = rs r /\
    fl_round fc (fv_exact_e v) (FFin (RF (rf_e y <? 0)%Z 0 (Z.abs (rf_e y)))) = Ok e.
Proof. exact frexp_recombine_partial. Qed.
Print Assumptions C20_frexp_recombine_partial.

Theorem C20_frexp_specials :
  forall (v : frexp_variant) (fc : fctx) (xctx : option (Z * option Z)) (x m e : fl),
  core_frexp v fc xctx x = Ok (m, e) ->
  match x with
  | FFin r => is_zero r = true -> fl_fin m /\ fl_val m = 0 /\ fl_s m = rs r /\ fl_fin e /\ fl_val e = 0
  | FInf s => m = FInf s /\ fl_isnan e = true
  | FNaN _ => fl_isnan m = true /\ fl_isnan e = true
  end.
Proof. exact frexp_specials. Qed.
Print Assumptions C20_frexp_specials.

Theorem C20_frexp_no_context_refuted :
  forall (fc : fctx) (r : rf), is_zero r = false -> core_frexp frexp_pinned fc None (FFin r) = Err ValueErr.
Proof. exact frexp_no_context_rejected. Qed.
Print Assumptions C20_frexp_no_context_refuted.

Theorem C20_frexp_exponent_rounded_refuted :
  exists (fc : fctx) (xctx : option (Z * option Z)) (r m e : rf),
  core_frexp frexp_pinned fc xctx (FFin r) = Ok (FFin m, FFin e) /\
  rf_eqb e (RF false 0 (rf_e r)) = false /\ rf_eqb m (RF false 0 1) = true /\ rf_e r = 5%Z.
Proof. exact frexp_exponent_rounded_refuted. Qed.
Print Assumptions C20_frexp_exponent_rounded_refuted.

