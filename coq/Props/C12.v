(* Property C12 — translation to and from FPCore preserves meaning.
   Only statements, each closed by `exact`, each followed by Print Assumptions. *)
From Coq Require Import ZArith List String Bool.
From FpyV Require Import Backend.FPCore Backend.FPCoreProofs Backend.ToFPCore Backend.ToFPCoreProofs
  Backend.FromFPCore Backend.FromFPCoreProofs Backend.OpTables Backend.OpTablesProofs.
Import ListNotations.
Open Scope Z_scope.

(* FPy -> FPCore with the annotation around the bindings of the `with` body
   only (proposed repair of _visit_context): for every value domain and
   operations indexed by the active context, every program whose contexts have
   an FPCore form, every fuel, default context and argument vector, the
   emitted core evaluates to what the source evaluates to — each operation
   under the context of the enclosing `with` and no other. *)
Theorem C12_to_fpcore_sound :
  forall (V : Type) (N : numops V),
    (forall rm z, n_num N (CMPFixed (-1) rm) z = n_int N z) ->
    forall f p, to_fpcore_fixed f = Some p -> ctxs_func expressible f = true ->
    forall fuel cdef Pdef args, good Pdef cdef ->
    run_core V N fuel Pdef p args = run_func V N fuel cdef f args.
Proof. exact to_fpcore_sound. Qed.
Print Assumptions C12_to_fpcore_sound.

(* the same with from_context as coded (only the continuation repaired) *)
Theorem C12_to_fpcore_sound_cont :
  forall (V : Type) (N : numops V),
    (forall rm z, n_num N (CMPFixed (-1) rm) z = n_int N z) ->
    forall f p, to_fpcore from_context true f = Some p -> ctxs_func expressible_coded f = true ->
    forall fuel cdef Pdef args, good Pdef cdef ->
    run_core V N fuel Pdef p args = run_func V N fuel cdef f args.
Proof. exact to_fpcore_sound_cont. Qed.
Print Assumptions C12_to_fpcore_sound_cont.

(* backend/fpc.py as it is: sound when only variable copies follow a `with`
   inside its own block (wl_block).  Missing for the full statement: programs
   with an operation after an inner `with` (refuted below). *)
Theorem C12_to_fpcore_as_coded_partial :
  forall (V : Type) (N : numops V),
    (forall rm z, n_num N (CMPFixed (-1) rm) z = n_int N z) ->
    forall f p, to_fpcore_as_coded f = Some p -> ctxs_func expressible_coded f = true ->
    wl_block (f_body f) = true ->
    forall fuel cdef Pdef args, good Pdef cdef ->
    run_core V N fuel Pdef p args = run_func V N fuel cdef f args.
Proof. exact to_fpcore_as_coded_partial. Qed.
Print Assumptions C12_to_fpcore_as_coded_partial.

Theorem C12_to_fpcore_as_coded_refuted :
  exists f p args fuel,
    to_fpcore_as_coded f = Some p /\ ctxs_func expressible_coded f = true /\
    good no_props FP64c /\
    run_core Z zops fuel no_props p args <> run_func Z zops fuel FP64c f args.
Proof. exact to_fpcore_as_coded_refuted. Qed.
Print Assumptions C12_to_fpcore_as_coded_refuted.

(* hypotheses are satisfiable, on the refuting program *)
Theorem C12_to_fpcore_fixed_witness :
  exists p, to_fpcore_fixed witness_func = Some p /\
    ctxs_func expressible witness_func = true /\
    run_core Z zops 1 no_props p witness_args = Ok 1099512676352 /\
    run_func Z zops 1 FP64c witness_func witness_args = Ok 1099512676352.
Proof. exact to_fpcore_fixed_witness. Qed.
Print Assumptions C12_to_fpcore_fixed_witness.

(* FPCoreContext.to_context o from_context = id on the expressible contexts,
   with the `fixed` fields in the order to_context (and FPCore) reads them *)
Theorem C12_fpc_context_iso :
  forall c, expressible c = true ->
  exists p, from_context_fixed c = Some p /\ to_context p = Some c.
Proof. exact context_iso_fixed. Qed.
Print Assumptions C12_fpc_context_iso.

(* as coded: only when a fixed-point context has scale = nbits *)
Theorem C12_fpc_context_iso_partial :
  forall c, expressible_coded c = true ->
  exists p, from_context c = Some p /\ to_context p = Some c.
Proof. exact context_iso_coded. Qed.
Print Assumptions C12_fpc_context_iso_partial.

Theorem C12_fpc_context_iso_refuted :
  exists c, expressible c = true /\
    exists p, from_context c = Some p /\ to_context p <> Some c.
Proof. exact context_iso_coded_refuted. Qed.
Print Assumptions C12_fpc_context_iso_refuted.

(* FPCore -> FPy (frontend/fpc.py, expression / let / let* / if / `!` subset,
   annotations that fix the number format — which is what the backend emits),
   with a name generator that never reuses a name: the function read back
   evaluates to what the core evaluates to (`agree`: equal values, or both
   evaluations fail). *)
Theorem C12_from_fpcore_sound :
  forall (V : Type) (N : numops V),
    (forall rm z, n_num N (CMPFixed (-1) rm) z = n_int N z) ->
    forall p f, from_fpcore_fixed p = Some f -> cprog_ok p = true ->
    forall fuel cdef Pdef args, good Pdef cdef ->
    agree (run_func V N fuel cdef f args) (run_core V N fuel Pdef p args).
Proof. exact from_fpcore_sound. Qed.
Print Assumptions C12_from_fpcore_sound.

(* with Gensym.refresh as it is (stale cached hash) a taken name is reused *)
Theorem C12_from_fpcore_as_coded_refuted :
  exists p f args a b,
    from_fpcore_as_coded p = Some f /\ cprog_ok p = true /\
    run_func Z zops 1 FP64c f args = Ok a /\ run_core Z zops 1 no_props p args = Ok b /\ a <> b.
Proof. exact from_fpcore_as_coded_refuted. Qed.
Print Assumptions C12_from_fpcore_as_coded_refuted.

Theorem C12_from_fpcore_fixed_witness :
  exists f, from_fpcore_fixed capture_core = Some f /\ cprog_ok capture_core = true /\
    run_func Z zops 1 FP64c f [2; 5] = Ok 30 /\ run_core Z zops 1 no_props capture_core [2; 5] = Ok 30.
Proof. exact from_fpcore_fixed_witness. Qed.
Print Assumptions C12_from_fpcore_fixed_witness.

(* compiling (repaired backend) and re-reading (repaired Gensym) a function does not change its behaviour *)
Theorem C12_roundtrip_sound :
  forall (V : Type) (N : numops V),
    (forall rm z, n_num N (CMPFixed (-1) rm) z = n_int N z) ->
    forall f p f', to_fpcore_fixed f = Some p -> ctxs_func expressible f = true ->
    from_fpcore_fixed p = Some f' ->
    forall fuel cdef Pdef args, good Pdef cdef ->
    agree (run_func V N fuel cdef f' args) (run_func V N fuel cdef f args).
Proof. exact roundtrip_sound. Qed.
Print Assumptions C12_roundtrip_sound.

Theorem C12_roundtrip_witness :
  exists p f', to_fpcore_fixed witness_func = Some p /\ ctxs_func expressible witness_func = true /\
    from_fpcore_fixed p = Some f' /\
    run_func Z zops 1 FP64c f' witness_args = run_func Z zops 1 FP64c witness_func witness_args.
Proof. exact roundtrip_witness. Qed.
Print Assumptions C12_roundtrip_witness.

(* operator tables (data in the source, regenerated on every run as
   build/C12/C12Tables.v, where fwd_ok / bwd_ok are proved by computation for
   the tables of the working tree): when every entry of the backend table and
   of the frontend table is a pair of like-named operator and node class, the
   frontend table inverts the backend table, and conversely. *)
Theorem C12_op_tables_roundtrip :
  forall spec back front,
    spec_ok spec = true -> fwd_ok spec back = true -> bwd_ok spec front = true ->
    forall cls nm cls', In (cls, nm) back -> In (nm, cls') front -> cls' = cls.
Proof. exact tables_roundtrip. Qed.
Print Assumptions C12_op_tables_roundtrip.

Theorem C12_op_tables_roundtrip_back :
  forall spec back front,
    spec_ok spec = true -> fwd_ok spec back = true -> bwd_ok spec front = true ->
    forall nm cls nm', In (nm, cls) front -> In (cls, nm') back -> nm' = nm.
Proof. exact tables_roundtrip_back. Qed.
Print Assumptions C12_op_tables_roundtrip_back.

Theorem C12_op_specs_ok :
  spec_ok spec_unary = true /\ spec_ok spec_binary = true /\ spec_ok spec_ternary = true /\
  spec_ok spec_nary = true /\ spec_ok spec_compare = true /\ functional spec_const = true.
Proof. exact specs_ok. Qed.
Print Assumptions C12_op_specs_ok.
