(* Property C15 — an accepted program never reads an unbound name or falls off its end.
   Only statements, each closed by `exact`, each followed by Print Assumptions.
   Model: Lang/Defined.v (syntax_check._Env / merge / the _visit_ rules,
   reachability, the decorator's verdict; a big-step semantics whose branch
   outcomes and trip counts are chosen by an arbitrary oracle).

   Full-strength statement of the property for fpy2 as it is:

     Theorem accept_sound : forall ps body, accept ps body = true ->
       forall o fuel e, run o fuel ps body <> OErr e.
     Theorem guide_rules (coded rule) : scoped s = true -> term E = false ->
       check_stmt false E s = Some E' -> defined E' x = true -> defined E x = true.

   Both are REFUTED by the faithful model of `syntax_check._visit_for`, which
   binds the loop target in the environment it merges the loop's result from
   (witness: `for x in xs: pass ; return x`).  Proved instead: the refutations,
   the partial statements excluding exactly that arm, and the full statements
   for the repaired rule (fixes/C15-for-target-scope.diff).

   Scope of the semantics: every iterable of a comprehension sees the enclosing
   bindings plus the earlier targets — the scoping the checker assumes.  The
   runtime executes a Python comprehension, in which an iterable other than
   the first sees the comprehension's own (possibly not yet bound) targets
   instead; that divergence is outside these theorems and is reported by the
   check as the finding `comprehension_later_iterable_reads_own_target`
   (fixes/C15-comprehension-later-iterable-scope.diff). *)
From Coq Require Import List Bool Arith.
From FpyV Require Import Lang.Defined Lang.DefinedProofs.
Import ListNotations.

Theorem C15_accept_sound_refuted :
  exists ps body o fuel, accept ps body = true /\ run o fuel ps body = OErr NameErr.
Proof. exact accept_sound_refuted. Qed.
Print Assumptions C15_accept_sound_refuted.

(* partial: programs on which the coded and the repaired rule for `for` give the same verdict *)
Theorem C15_accept_sound_partial : forall ps body,
  accept ps body = true -> accept_fixed ps body = true ->
  forall o fuel e, run o fuel ps body <> OErr e.
Proof. exact accept_sound_partial. Qed.
Print Assumptions C15_accept_sound_partial.

(* partial, stated on the coded checker alone: programs without `for` loops *)
Theorem C15_accept_sound_no_for : forall ps body,
  forallb no_for body = true -> accept ps body = true ->
  forall o fuel e, run o fuel ps body <> OErr e.
Proof. exact accept_sound_no_for. Qed.
Print Assumptions C15_accept_sound_no_for.

(* full, for the repaired `_visit_for` *)
Theorem C15_accept_fixed_sound : forall ps body,
  accept_fixed ps body = true -> forall o fuel e, run o fuel ps body <> OErr e.
Proof. exact accept_fixed_sound. Qed.
Print Assumptions C15_accept_fixed_sound.

(* hypotheses are satisfiable, and zero-trip loops / untaken ifs are inside the statement:
     def f(xs, c): u = 0 ; for x in xs: u = x ; if c: v = u ; while c: u = u ; return u *)
Example C15_accept_example :
  let ps := [0; 1] in
  let body := [SAssign [2] EConst; SFor [3] (EVar 0) [SAssign [2] (EVar 3)];
               SIf1 (EVar 1) [SAssign [4] (EVar 2)]; SWhile (EVar 1) [SAssign [2] (EVar 2)];
               SReturn (EVar 2)] in
  accept ps body = true /\ accept_fixed ps body = true /\
  run (fun _ => false) 20 ps body = OReturn /\ run (fun k => Nat.eqb k 0) 20 ps body = OReturn /\
  (* names introduced only inside a loop / branch are rejected afterwards *)
  accept ps [SIf1 (EVar 1) [SAssign [4] EConst]; SReturn (EVar 4)] = false /\
  accept ps [SFor [3] (EVar 0) [SAssign [4] EConst]; SReturn (EVar 4)] = false /\
  accept ps [SWhile (EVar 1) [SAssign [4] EConst]; SReturn (EVar 4)] = false /\
  (* the loop target: accepted as coded, rejected by the repaired rule *)
  accept ps [SFor [3] (EVar 0) [SPass]; SReturn (EVar 3)] = true /\
  accept_fixed ps [SFor [3] (EVar 0) [SPass]; SReturn (EVar 3)] = false /\
  (* no return on some path *)
  accept ps [SIf1 (EVar 1) [SReturn EConst]] = false.
Proof. vm_compute. repeat split; reflexivity. Qed.
Print Assumptions C15_accept_example.

Theorem C15_guide_rules_refuted :
  exists E s E' x,
    scoped s = true /\ term E = false /\ check_stmt false E s = Some E' /\
    defined E' x = true /\ defined E x = false.
Proof. exact guide_rules_refuted. Qed.
Print Assumptions C15_guide_rules_refuted.

(* partial: as coded, everything but the targets of a `for` *)
Theorem C15_guide_rules_partial : forall E s E' x,
  scoped s = true -> term E = false -> check_stmt false E s = Some E' ->
  match s with SFor ts _ _ => existsb (Nat.eqb x) ts = false | _ => True end ->
  defined E' x = true -> defined E x = true.
Proof. exact guide_rules_partial. Qed.
Print Assumptions C15_guide_rules_partial.

(* full, for the repaired rule: names introduced only inside a loop or a
   one-armed if, and loop targets, are not defined afterwards *)
Theorem C15_guide_rules_fixed : forall E s E' x,
  scoped s = true -> term E = false -> check_stmt true E s = Some E' ->
  defined E' x = true -> defined E x = true.
Proof. exact guide_rules. Qed.
Print Assumptions C15_guide_rules_fixed.

(* two-armed if (both rules): defined afterwards = defined at the end of every arm reaching the join *)
Theorem C15_guide_rules_if : forall fx E c a b E',
  check_stmt fx E (SIf c a b) = Some E' ->
  exists Ea Eb, check_block fx E a = Some Ea /\ check_block fx E b = Some Eb /\
    forall x, defined E' x = true ->
      (term Ea = false -> defined Ea x = true) /\ (term Eb = false -> defined Eb x = true).
Proof. exact guide_rules_if. Qed.
Print Assumptions C15_guide_rules_if.
