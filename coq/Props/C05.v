(* Property C05 — number values behave as the real numbers they denote.
   Only statements, each closed by `exact`, each followed by Print Assumptions. *)
From Coq Require Import ZArith Bool Reals.
From Flocq Require Import Core.Zaux Core.Raux Core.Defs.
From FpyV Require Import Num.RealFloat Num.RealFloatProofs Num.Float Num.FloatProofs.
Open Scope Z_scope.

Theorem C05_add_denote : forall x y, R2R (rf_add x y) = (R2R x + R2R y)%R.
Proof. exact add_denote. Qed.
Print Assumptions C05_add_denote.

Theorem C05_sub_denote : forall x y, R2R (rf_sub x y) = (R2R x - R2R y)%R.
Proof. exact sub_denote. Qed.
Print Assumptions C05_sub_denote.

Theorem C05_add_zero_sign : forall x y, rc x = 0 -> rc y = 0 -> rs (rf_add x y) = rs x && rs y.
Proof. exact add_zero_sign. Qed.
Print Assumptions C05_add_zero_sign.

Theorem C05_mul_denote : forall x y, R2R (rf_mul x y) = (R2R x * R2R y)%R.
Proof. exact mul_denote. Qed.
Print Assumptions C05_mul_denote.

Theorem C05_mul_sign : forall x y, rs (rf_mul x y) = xorb (rs x) (rs y).
Proof. exact mul_sign. Qed.
Print Assumptions C05_mul_sign.

Theorem C05_pow_denote : forall x k y, rf_wf x -> rf_pow x k = Ok y -> R2R y = (R2R x ^ Z.to_nat k)%R.
Proof. exact pow_denote. Qed.
Print Assumptions C05_pow_denote.

Theorem C05_neg_denote : forall x, R2R (rf_neg x) = (- R2R x)%R.
Proof. exact neg_denote. Qed.
Print Assumptions C05_neg_denote.

Theorem C05_abs_denote : forall x, rf_wf x -> R2R (rf_abs x) = Rabs (R2R x).
Proof. exact abs_denote. Qed.
Print Assumptions C05_abs_denote.

Theorem C05_compare_denote : forall x y, rf_wf x -> rf_wf y -> rf_compare x y = Rcompare (R2R x) (R2R y).
Proof. exact compare_denote. Qed.
Print Assumptions C05_compare_denote.

Theorem C05_eq_iff_denote : forall x y, rf_wf x -> rf_wf y -> (rf_eqb x y = true <-> R2R x = R2R y).
Proof. exact eq_iff_denote. Qed.
Print Assumptions C05_eq_iff_denote.

Theorem C05_split_sum : forall x n, rf_wf x -> let '(hi, lo) := split x n in (R2R hi + R2R lo)%R = R2R x.
Proof. exact split_sum. Qed.
Print Assumptions C05_split_sum.

Theorem C05_split_parts : forall x n, rf_wf x ->
  let '(hi, lo) := split x n in
  rs hi = rs x /\ rs lo = rs x /\
  (Rabs (R2R lo) < bpow radix2 (n + 1))%R /\
  (exists z, R2R hi = (IZR z * bpow radix2 (n + 1))%R) /\ 0 <= rc hi /\ 0 <= rc lo.
Proof. exact split_parts. Qed.
Print Assumptions C05_split_parts.

Theorem C05_normalize_denote : forall x p n y, rf_wf x -> normalize x p n = Ok y ->
  R2R y = R2R x /\ rs y = rs x /\ rf_wf y.
Proof. exact normalize_denote. Qed.
Print Assumptions C05_normalize_denote.

Theorem C05_is_more_significant_spec : forall x n, rf_wf x ->
  is_more_significant x n = is_zero (snd (split x n)).
Proof. exact is_more_significant_spec. Qed.
Print Assumptions C05_is_more_significant_spec.

Theorem C05_int_exact : forall x z, rf_wf x -> rf_to_int x = Ok z -> IZR z = R2R x.
Proof. exact int_exact. Qed.
Print Assumptions C05_int_exact.

Theorem C05_int_rejects_fraction : forall x, rf_wf x -> rf_to_int x = Err ValueErr -> forall z, IZR z <> R2R x.
Proof. exact int_rejects_fraction. Qed.
Print Assumptions C05_int_rejects_fraction.

(* Float layer *)
Theorem C05_fl_add_denote : forall x y, den (fl_add x y) = xadd (den x) (den y).
Proof. exact fl_add_denote. Qed.
Print Assumptions C05_fl_add_denote.

Theorem C05_fl_sub_denote : forall x y, den (fl_sub x y) = xadd (den x) (xneg (den y)).
Proof. exact fl_sub_denote. Qed.
Print Assumptions C05_fl_sub_denote.

Theorem C05_fl_mul_denote : forall x y, fl_wf x -> fl_wf y ->
  den (fl_mul x y) = xmul (den x) (den y) (fl_s x) (fl_s y).
Proof. exact fl_mul_denote. Qed.
Print Assumptions C05_fl_mul_denote.

Theorem C05_fl_mul_sign : forall x y, fl_isnan (fl_mul x y) = false -> fl_s (fl_mul x y) = xorb (fl_s x) (fl_s y).
Proof. exact fl_mul_sign. Qed.
Print Assumptions C05_fl_mul_sign.

Theorem C05_fl_neg_denote : forall x, den (fl_neg x) = xneg (den x).
Proof. exact fl_neg_denote. Qed.
Print Assumptions C05_fl_neg_denote.

Theorem C05_fl_pos_denote : forall x, den (fl_pos x) = den x /\ fl_s (fl_pos x) = fl_s x.
Proof. exact fl_pos_denote. Qed.
Print Assumptions C05_fl_pos_denote.

Theorem C05_fl_abs_denote : forall x, fl_wf x -> den (fl_abs x) = xabs (den x) /\ fl_s (fl_abs x) = false.
Proof. exact fl_abs_denote. Qed.
Print Assumptions C05_fl_abs_denote.

Theorem C05_fl_compare_denote : forall x y, fl_wf x -> fl_wf y -> fl_compare x y = xcompare (den x) (den y).
Proof. exact fl_compare_denote. Qed.
Print Assumptions C05_fl_compare_denote.

Theorem C05_fl_int_exact : forall x z, fl_wf x -> fl_to_int x = Ok z -> den x = XR (IZR z).
Proof. exact fl_int_exact. Qed.
Print Assumptions C05_fl_int_exact.
