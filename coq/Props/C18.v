(* Property C18 — evaluation is pure, isolated from the caller and reentrant.
   Only statements, each closed by `exact`, each followed by Print Assumptions.

   Claim: PARTIAL.  Proved: the bookkeeping that makes isolation hold by
   construction (boundary copies, identity-keyed cache, context as a local).
   Not modelled: CPython/GIL scheduling, gmpy2's thread-local context, MPFR
   caches (reached by the thread stress run only).

   The full-strength statement
     forall fuel tbl hist i ts c,
       result_after false false fuel tbl hist i ts c = result_after false false fuel tbl [] i ts c
   is REFUTED by the faithful model (C18_history_independent_refuted,
   C18_history_independent_returned_refuted: free-variable containers are
   converted once at compile time and shared by all later calls), so it is
   proved as ..._partial under the hypothesis `clean_hist` (no body and no
   caller writes a captured location), and unconditionally for functions
   without list-valued free variables (C18_cache_transparent_no_captures). *)
From Coq Require Import ZArith List Bool Arith.
From FpyV Require Import Runtime.Boundary Runtime.BoundaryProofs Runtime.Cache Runtime.CacheProofs
                         Runtime.Interleave Runtime.InterleaveProofs.
Import ListNotations.
Open Scope nat_scope.

(* ---- the boundary ---- *)
Theorem C18_args_untouched : forall rebuild fuel c b caps w args w' r,
  sall ionly (wI w) -> Forall (vall ionly) caps ->
  call true rebuild fuel c b caps w args = (w', r) ->
  forall a cell, nth_error (wC w) a = Some cell -> nth_error (wC w') a = Some cell.
Proof. exact args_untouched. Qed.
Print Assumptions C18_args_untouched.

Theorem C18_args_untouched_deep : forall rebuild fuel c b caps w args w' r,
  sall ionly (wI w) -> Forall (vall ionly) caps -> sall conly (wC w) ->
  call true rebuild fuel c b caps w args = (w', r) ->
  forall arg fuel' t, vall conly arg -> snap fuel' w arg = Some t -> snap fuel' w' arg = Some t.
Proof. exact args_untouched_deep. Qed.
Print Assumptions C18_args_untouched_deep.

Theorem C18_result_fresh : forall rebuild fuel c b caps w args w' r (K : nat -> Prop),
  closed (Kset K) w -> Forall (vall (Kset K)) caps ->
  call true rebuild fuel c b caps w args = (w', Some r) ->
  forall sd a, reach w' r sd a ->
    match sd with Caller => length (wC w) <= a | Interp => K a \/ length (wI w) <= a end.
Proof. exact result_fresh. Qed.
Print Assumptions C18_result_fresh.

Theorem C18_result_disjoint_args : forall rebuild fuel c b caps w args w' r (K : nat -> Prop),
  bounded w -> closed (Kset K) w -> Forall (vall (Kset K)) caps ->
  call true rebuild fuel c b caps w args = (w', Some r) ->
  forall arg, vall (inb w) arg -> (forall a, K a -> ~ reach w arg Interp a) ->
  forall sd a, reach w' r sd a -> ~ reach w arg sd a.
Proof. exact result_disjoint_args. Qed.
Print Assumptions C18_result_disjoint_args.

Theorem C18_result_fresh_no_captures : forall rebuild fuel c b w args w' r,
  bounded w -> call true rebuild fuel c b [] w args = (w', Some r) ->
  forall arg, vall (inb w) arg -> forall sd a, reach w' r sd a -> ~ reach w arg sd a.
Proof. exact result_fresh_no_captures. Qed.
Print Assumptions C18_result_fresh_no_captures.

Theorem C18_convert_false_refuted :
  exists b w args w' r, call false false 5 RNE b [] w args = (w', r) /\ wC w' <> wC w.
Proof. exact convert_false_refuted. Qed.
Print Assumptions C18_convert_false_refuted.

Theorem C18_result_fresh_captured_refuted :
  exists b caps w arg w' r,
    call true false 5 RNE b caps w [arg] = (w', Some r) /\
    reach w' r Interp 0 /\ reach w arg Interp 0.
Proof. exact result_fresh_captured_refuted. Qed.
Print Assumptions C18_result_fresh_captured_refuted.

(* ---- the cache and histories ---- *)
Theorem C18_cache_inv_reachable : forall fuel tbl hist,
  state_ok tbl (run_hist false false fuel tbl empty_state hist).
Proof. exact cache_inv_reachable. Qed.
Print Assumptions C18_cache_inv_reachable.

Theorem C18_cache_transparent : forall fuel tbl hist i ts c,
  (forall e fd, lookup i (st_cache (run_hist false false fuel tbl empty_state hist)) = Some e ->
                nth_error tbl i = Some fd ->
                intact fd e (st_store (run_hist false false fuel tbl empty_state hist))) ->
  result_after false false fuel tbl hist i ts c = result_after false false fuel tbl [] i ts c.
Proof. exact cache_transparent. Qed.
Print Assumptions C18_cache_transparent.

Theorem C18_cache_transparent_no_captures : forall fuel tbl hist i ts c,
  (forall fd, nth_error tbl i = Some fd -> forallb list_free (fd_env fd) = true) ->
  result_after false false fuel tbl hist i ts c = result_after false false fuel tbl [] i ts c.
Proof. exact cache_transparent_no_captures. Qed.
Print Assumptions C18_cache_transparent_no_captures.

Theorem C18_name_keyed_cache_refuted :
  exists fuel tbl hist i ts c,
    result_after true false fuel tbl hist i ts c <> result_after true false fuel tbl [] i ts c.
Proof. exact name_keyed_cache_refuted. Qed.
Print Assumptions C18_name_keyed_cache_refuted.

Theorem C18_history_independent_partial : forall fuel tbl hist i ts c,
  clean_hist fuel tbl empty_state hist = true ->
  result_after false false fuel tbl hist i ts c = result_after false false fuel tbl [] i ts c.
Proof. exact history_independent_partial. Qed.
Print Assumptions C18_history_independent_partial.

Theorem C18_history_independent_refuted :
  exists fuel tbl hist i ts c,
    result_after false false fuel tbl hist i ts c <> result_after false false fuel tbl [] i ts c.
Proof. exact history_independent_refuted. Qed.
Print Assumptions C18_history_independent_refuted.

Theorem C18_history_independent_returned_refuted :
  exists fuel tbl hist i ts c,
    result_after false false fuel tbl hist i ts c <> result_after false false fuel tbl [] i ts c.
Proof. exact history_independent_returned_refuted. Qed.
Print Assumptions C18_history_independent_returned_refuted.

(* the repair (captured containers converted at every call, fixes/C18-captured-per-call.diff)
   makes the unhypothesised statement true in the model *)
Theorem C18_history_independent_fixed : forall fuel tbl hist i ts c,
  result_after false true fuel tbl hist i ts c = result_after false true fuel tbl [] i ts c.
Proof. exact history_independent_fixed. Qed.
Print Assumptions C18_history_independent_fixed.

(* ---- interleaving ---- *)
Theorem C18_interleave_sequential : forall fuel tbl sched sh i1 ts1 c1 i2 ts2 c2 sh' t1' t2',
  sh_ok tbl sh ->
  run_sched false fuel tbl sched sh (mkT i1 ts1 c1 PStart) (mkT i2 ts2 c2 PStart) = (sh', t1', t2') ->
  (forall o, t_phase t1' = PDone o -> o = result_after false false fuel tbl [] i1 ts1 c1) /\
  (forall o, t_phase t2' = PDone o -> o = result_after false false fuel tbl [] i2 ts2 c2) /\
  sh_ok tbl sh'.
Proof. exact interleave_sequential. Qed.
Print Assumptions C18_interleave_sequential.

Theorem C18_interleave_completes : forall fuel tbl sched sh t1 t2 sh' t1' t2',
  sh_ok tbl sh -> run_sched false fuel tbl sched sh t1 t2 = (sh', t1', t2') ->
  measure tbl t1 <= count true sched -> measure tbl t2 <= count false sched ->
  is_done t1' = true /\ is_done t2' = true.
Proof. exact interleave_completes. Qed.
Print Assumptions C18_interleave_completes.

Theorem C18_shared_ctx_refuted :
  exists fuel tbl sched i1 ts1 c1 i2 ts2 c2 o,
    t_phase (snd (fst (run_sched true fuel tbl sched (mkSh [] RNE) (mkT i1 ts1 c1 PStart) (mkT i2 ts2 c2 PStart))))
      = PDone o /\
    o <> result_after false false fuel tbl [] i1 ts1 c1.
Proof. exact shared_ctx_refuted. Qed.
Print Assumptions C18_shared_ctx_refuted.
