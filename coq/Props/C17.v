(* Property C17 — stochastic rounding picks a neighbour with the exact probability.
   Statements only. *)
From Coq Require Import ZArith List Bool Reals.
From Flocq Require Import Core.Zaux Core.Raux Core.Defs Core.Generic_fmt Core.FIX.
From FpyV Require Import Num.RealFloat Num.RealFloatProofs Num.RoundSpec Num.RoundProofs Num.StochProofs.
Open Scope Z_scope.

(* the outcome is a function of (operand, draw): the decision rule *)
Theorem C17_stoch_decision : forall rm x n k rb,
  0 < rc x -> 1 <= k -> 0 < n + 1 - rexp x -> rc x mod 2 ^ (n + 1 - rexp x) <> 0 ->
  0 <= rb < 2 ^ k ->
  round_at_stoch x None n None rm (Some k) rb false =
  round_at x None n None (if rb + stoch_L rm x n k >=? 2 ^ k then RAZ else RTZ) false.
Proof. exact stoch_decision. Qed.
Print Assumptions C17_stoch_decision.

(* one of the two neighbours and nothing else *)
Theorem C17_stoch_neighbour : forall rm x n k rb,
  0 < rc x -> 1 <= k -> 0 < n + 1 - rexp x -> rc x mod 2 ^ (n + 1 - rexp x) <> 0 ->
  0 <= rb < 2 ^ k ->
  let res := round_at_stoch x None n None rm (Some k) rb false in
  went_away x n res = (rb + stoch_L rm x n k >=? 2 ^ k) /\
  went_towards x n res = negb (rb + stoch_L rm x n k >=? 2 ^ k).
Proof. exact stoch_neighbour. Qed.
Print Assumptions C17_stoch_neighbour.

(* over all 2^k draws exactly L round away from zero, for every k >= 1 *)
Theorem C17_stoch_count : forall rm x n k,
  0 < rc x -> 1 <= k -> 0 < n + 1 - rexp x -> rc x mod 2 ^ (n + 1 - rexp x) <> 0 ->
  Z.of_nat (length (filter (fun rb => went_away x n (round_at_stoch x None n None rm (Some k) rb false))
                           (zrange (Z.to_nat (2 ^ k))))) = stoch_L rm x n k.
Proof. exact stoch_count. Qed.
Print Assumptions C17_stoch_count.

Theorem C17_stoch_L_bounds : forall rm x n k, 0 < rc x -> 0 <= k -> 0 < n + 1 - rexp x ->
  0 <= stoch_L rm x n k <= 2 ^ k.
Proof. exact stoch_L_bounds. Qed.
Print Assumptions C17_stoch_L_bounds.

(* L is the distance past the lower neighbour in 2^-k gap units, rounded by the mode (Flocq) *)
Theorem C17_stoch_L_flocq : forall rm x n k, 0 < rc x -> 0 <= k -> 0 < n + 1 - rexp x - k ->
  F2R (Float radix2 (cond_Zopp (rs x) (rc x / 2 ^ (n + 1 - rexp x) * 2 ^ k + stoch_L rm x n k)) (n - k + 1)) =
  round radix2 (FIX_exp (n - k + 1)) (rnd_of rm) (R2R x).
Proof. exact stoch_L_flocq. Qed.
Print Assumptions C17_stoch_L_flocq.

(* a representable operand is returned unchanged whatever is drawn *)
Theorem C17_stoch_exact : forall rm x n k rb,
  0 < rc x -> 1 <= k -> 0 <= rb ->
  (n + 1 - rexp x <= 0 \/ rc x mod 2 ^ (n + 1 - rexp x) = 0) ->
  exists y fl, round_at_stoch x None n None rm (Some k) rb false = Ok (y, fl) /\ R2R y = R2R x /\ f_inexact fl = false.
Proof. exact stoch_exact. Qed.
Print Assumptions C17_stoch_exact.

Theorem C17_count_draws : forall L k, 0 <= k -> 0 <= L <= 2 ^ k ->
  Z.of_nat (length (filter (fun rb => rb + L >=? 2 ^ k) (zrange (Z.to_nat (2 ^ k))))) = L.
Proof. exact count_draws. Qed.
Print Assumptions C17_count_draws.

(* non-vacuity: an operand 3/4 of the way through a gap, k = 1, RNE *)
Example C17_example :
  let x := RF false (-2) 7 in   (* 1.75, rounding at n = -1 (integers): gap [1,2] *)
  0 < rc x /\ 0 < (-1) + 1 - rexp x /\ rc x mod 2 ^ ((-1) + 1 - rexp x) <> 0 /\ stoch_L RNE x (-1) 1 = 2.
Proof. vm_compute. repeat split; congruence. Qed.
