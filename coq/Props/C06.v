(* Property C06 (placeholder while the proofs are being built). *)
From FpyV Require Import Lang.Literal.
