(* Property C06 — a numeric literal denotes exactly the number written.
   Only statements, each closed by `exact`, each followed by Print Assumptions.

   coq/Lang/Literal.v, part A: the denotation of a spelling by one Horner
   pass over its characters (dec_denote, hex_denote, pyfloat_denote,
   pyint_denote, rational_denote, digits_denote; lit_denote for a literal
   expression with unary minus / plus).  Part B: the model of
   utils/fractions.py, fpyast.as_rational/as_real and the parser.
   `lval_equiv` / `olval_equiv`: same value (rationals compared by ==, the
   negative zero only with itself, an exception only with "no denotation").

   `lfixes`: the code as it is (`lit_as_coded`) and with the three proposed
   patches fixes/C06-*.diff (`lit_all_fixed`).  All statements quantify over
   every string / every integer: no bound on digit counts or exponents. *)
From Coq Require Import ZArith List Bool Ascii String QArith.
From FpyV Require Import Lang.Literal Lang.LiteralProofs.
Open Scope Z_scope.

(* decnum_to_fraction + Decnum.as_real = the Horner denotation, for every string
   (relaxed = false: the pattern in /repo; relaxed = true: the patched pattern,
   which also accepts "12.") *)
Theorem C06_decnum_spec : forall relaxed s,
  olval_equiv (decnum_value relaxed s) (dec_denote (negb relaxed) s).
Proof. exact decnum_spec. Qed.
Print Assumptions C06_decnum_spec.

(* hexnum_to_fraction + Hexnum.as_real: the code never returns a wrong number
   and never accepts a string outside the grammar; the only discrepancy is an
   exception on a valid string, possible only without the patch *)
Theorem C06_hexnum_spec : forall fx s,
  match hexnum_value fx s, hex_denote s with
  | Some a, Some b => lval_equiv a b
  | None, None => True
  | None, Some _ => fx_hexint fx = false
  | Some _, None => False
  end.
Proof. exact hexnum_spec. Qed.
Print Assumptions C06_hexnum_spec.

Theorem C06_hexnum_spec_fixed : forall fx s, fx_hexint fx = true ->
  olval_equiv (hexnum_value fx s) (hex_denote s).
Proof. exact hexnum_spec_fixed. Qed.
Print Assumptions C06_hexnum_spec_fixed.

Theorem C06_hexnum_spec_partial : forall s a, hexnum_value lit_as_coded s = Some a ->
  exists b, hex_denote s = Some b /\ lval_equiv a b.
Proof. exact hexnum_spec_partial. Qed.
Print Assumptions C06_hexnum_spec_partial.

Theorem C06_hexnum_refuted :
  exists s q, hexnum_value lit_as_coded s = None /\ hex_denote s = Some (LQ q) /\ (q == 1)%Q.
Proof. exact hexnum_refuted. Qed.
Print Assumptions C06_hexnum_refuted.

(* rational(p, q) and digits(m, e, b), every integer (negative q, negative b,
   q = 0 and 0 ** negative raise) *)
Theorem C06_rational_spec : forall p q, olval_equiv (rational_value p q) (rational_denote p q).
Proof. exact rational_spec. Qed.
Print Assumptions C06_rational_spec.

Theorem C06_digits_spec : forall m e b, olval_equiv (digits_value m e b) (digits_denote m e b).
Proof. exact digits_spec. Qed.
Print Assumptions C06_digits_spec.

(* the core of _sci_to_fraction: integer part I, fraction part F of k digits,
   exponent E combine to the Horner value (I * base^k + F) * eb^E / base^k *)
Theorem C06_sci_combine : forall I F base k eb e, 0 < base -> 0 < eb -> 0 <= k ->
  ((inject_Z I + inject_Z F * qpow base (- k)) * qpow eb e == mkq (I * base ^ k + F) base k eb e)%Q.
Proof. exact combine_eq. Qed.
Print Assumptions C06_sci_combine.

(* a literal expression under the real context (literal_value) evaluates to
   what its source text denotes (lit_denote): every literal, with the side
   conditions lit_ok: an integer token has the value Python's integer parser
   returned, a float token has no sign, and — only for the unrepaired code — the
   float path is not used, a hex mantissa has integer digits, unary minus is not
   applied to a negative zero *)
Theorem C06_literal_value_spec : forall fx l, lit_ok fx l ->
  olval_equiv (literal_value fx l) (lit_denote l).
Proof. exact literal_value_spec. Qed.
Print Assumptions C06_literal_value_spec.

Theorem C06_literal_value_fixed : forall l, lit_ok lit_all_fixed l ->
  olval_equiv (literal_value lit_all_fixed l) (lit_denote l).
Proof. exact literal_value_fixed. Qed.
Print Assumptions C06_literal_value_fixed.

(* the parser as it is takes the double Python made of a float token *)
Theorem C06_parser_float_refuted :
  exists sp v rp q, pyfloat_denote sp = Some (LQ q) /\ binary64_nearest_int v q = true /\
    literal_value lit_as_coded (LFloat sp (PYF false v 1 rp)) = Some (LQ (inject_Z v)) /\ ~ (inject_Z v == q)%Q.
Proof. exact parser_float_refuted. Qed.
Print Assumptions C06_parser_float_refuted.

(* ... and negates a negative zero to a negative zero *)
Theorem C06_negneg_refuted :
  exists l, lit_ok lit_all_fixed l /\ literal_value lit_as_coded l = Some LNegZero /\ lit_denote l = Some (LQ 0).
Proof. exact negneg_refuted. Qed.
Print Assumptions C06_negneg_refuted.

(* negative-zero fold: -0 and -0.0 are the negative zero *)
Theorem C06_neg_zero_fold : forall fx,
  literal_value fx (LNeg (LInt "0" 0)) = Some LNegZero /\
  lit_denote (LNeg (LInt "0" 0)) = Some LNegZero /\
  lit_denote (LNeg (LFloat "0.0" (PYF false 0 1 "0.0"))) = Some LNegZero /\
  literal_value fx (LNeg (LFloat "0.0" (PYF false 0 1 "0.0"))) = Some LNegZero.
Proof. exact neg_zero_fold. Qed.
Print Assumptions C06_neg_zero_fold.

(* the hypotheses are satisfiable *)
Theorem C06_hypotheses_satisfiable :
  lit_ok lit_all_fixed (LNeg (LFloat "1_0.5E-3" (PYF false 0 1 ""))) /\
  lit_ok lit_all_fixed (LPos (LInt "0x_fF" 255)) /\
  lit_ok lit_all_fixed (LNeg (LNeg (LHex "0x.8p1"))) /\
  lit_ok lit_as_coded (LNeg (LHex "-0x1.8p3")) /\
  (exists q, lit_denote (LFloat "1_0.5E-3" (PYF false 0 1 "")) = Some (LQ q) /\ (q == 21 # 2000)%Q).
Proof. exact lit_ok_inhabited. Qed.
Print Assumptions C06_hypotheses_satisfiable.
