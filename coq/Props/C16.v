(* Property C16 (placeholder while the proofs are being built). *)
From Coq Require Import ZArith Bool.
From FpyV Require Import Num.RealFloat Num.Float Num.Formats.
Open Scope Z_scope.
