(* Property C16 — encodings and ordinals are order-preserving bijections.
   Only statements, each closed by `exact`, each followed by Print Assumptions.

   Model: coq/Num/Formats.v (the format classes of fpy2/number/context).
   Specification: coq/Num/Layout.v (layouts with div / mod / powers, value
   equivalence `fl_equiv`, bounded domains), Flocq's IEEE754.Bits for IEEE,
   the reals (R2R) for order and value.

   `fixes`: Formats.v models /repo as coded (`as_coded`) and /repo with the four
   proposed patches fixes/C16-*.diff (`all_fixed`).  Full-strength statements
   are proved for `all_fixed`; for `as_coded` the statement is proved outside
   the defective corner (`_partial`) and refuted by a witness (`_refuted`).

   Bounded theorems (suffix _le8 / _le6) are genuine proofs of the stated
   bounded statement: dom8 f = valid format, 1 <= nbits <= 8, |eoffset| <= 3;
   dom6 likewise with nbits <= 6.  All others are unbounded in every parameter. *)
From Coq Require Import ZArith Bool Reals.
From Flocq Require Import Core.Zaux Core.Raux Core.Defs IEEE754.Binary IEEE754.Bits.
From FpyV Require Import Num.RealFloat Num.RealFloatProofs Num.Float Num.FloatProofs Num.Formats Num.Layout
  Num.FormatsProofs Num.FormatsIEEEProofs Num.FormatsFixedProofs Num.FormatsFloatOrdProofs
  Num.FormatsBoundedLibProofs Num.FormatsBoundedRTProofs Num.FormatsBoundedOrdProofs Num.FormatsBoundedCandProofs
  Num.FormatsOrdMonoProofs Num.FormatsExamplesProofs.
Open Scope Z_scope.

(* ================================================================ decode follows the published layout (unbounded) *)

(* every valid extended format (any nbits, es, eoffset; each NaN kind; with or
   without infinities): decode is the declarative layout *)
Theorem C16_efloat_decode_layout : forall f b,
  ef_valid f = true -> is_pattern f b -> ef_decode f b = Ok (layout_value f b).
Proof. exact ef_decode_layout. Qed.
Print Assumptions C16_efloat_decode_layout.

(* IEEE formats, any field widths: the layout is Flocq's binary_float_of_bits *)
Theorem C16_ieee_layout_flocq : forall mw ew b, 0 < mw -> 0 < ew -> 0 <= b < 2 ^ (mw + ew + 1) ->
  ff_of_fl (layout_value (ieee_fmt mw ew) b) = ff_erase_payload (binary_float_of_bits_aux mw ew b).
Proof. exact ieee_layout_flocq. Qed.
Print Assumptions C16_ieee_layout_flocq.

Theorem C16_ieee_decode_flocq : forall mw ew b, 0 < mw -> 0 < ew -> 0 <= b < 2 ^ (mw + ew + 1) ->
  ef_valid (ieee_fmt mw ew) = true ->
  exists x, ef_decode (ieee_fmt mw ew) b = Ok x /\
    ff_of_fl x = ff_erase_payload (binary_float_of_bits_aux mw ew b).
Proof. exact ieee_decode_flocq. Qed.
Print Assumptions C16_ieee_decode_flocq.

Theorem C16_ieee_layout_value_flocq : forall mw ew b r, 0 < mw -> 0 < ew -> 0 <= b < 2 ^ (mw + ew + 1) ->
  layout_value (ieee_fmt mw ew) b = FFin r ->
  rf_wf r /\ R2R r = FF2R radix2 (binary_float_of_bits_aux mw ew b) /\
  (rc r = 0 -> binary_float_of_bits_aux mw ew b = F754_zero (rs r)).
Proof. exact ieee_layout_value_flocq. Qed.
Print Assumptions C16_ieee_layout_value_flocq.

(* two's complement: the pattern read as a signed integer times 2^scale *)
Theorem C16_fixed_decode_layout : forall f, fix_ctor_ok f = true -> forall b, 0 <= b < 2 ^ x_nbits f ->
  exists r, fix_decode f b = Ok (FFin r) /\ rf_wf r /\ rexp r = x_scale f /\
    rf_m r = (if x_signed f then twos_value (x_nbits f) b else b) /\ (rc r = 0 -> rs r = false).
Proof. exact fix_decode_layout. Qed.
Print Assumptions C16_fixed_decode_layout.

Theorem C16_sm_decode_layout : forall f, sm_ctor_ok f = true -> forall b, 0 <= b < 2 ^ m_nbits f ->
  exists r, sm_decode f b = Ok (FFin r) /\ rf_wf r /\ rexp r = m_scale f /\
    rs r = (2 ^ (m_nbits f - 1) <=? b) /\ rc r = b mod 2 ^ (m_nbits f - 1) /\
    rf_m r = sm_value (m_nbits f) b.
Proof. exact sm_decode_layout. Qed.
Print Assumptions C16_sm_decode_layout.

Theorem C16_exp_decode_layout : forall f, exp_ctor_ok f = true -> forall b, 0 <= b < 2 ^ p_nbits f ->
  exp_decode f b =
  Ok (if b =? 2 ^ p_nbits f - 1 then FNaN false
      else FFin (RF false (b - (2 ^ (p_nbits f - 1) - 1 - p_eoffset f)) 1)).
Proof. exact exp_decode_layout. Qed.
Print Assumptions C16_exp_decode_layout.

(* ================================================================ round trips (unbounded): fixed-point and exponential *)
Theorem C16_fixed_decode_encode : forall f, fix_ctor_ok f = true -> forall b, 0 <= b < 2 ^ x_nbits f ->
  exists x, fix_decode f b = Ok x /\ mpbf_repr (fix_mpbf f) x = true /\ fix_encode f x = Ok b.
Proof. exact fix_decode_encode. Qed.
Print Assumptions C16_fixed_decode_encode.

Theorem C16_fixed_encode_decode : forall f, fix_ctor_ok f = true -> forall r,
  rf_wf r -> mpbf_repr (fix_mpbf f) (FFin r) = true ->
  exists b y, fix_encode f (FFin r) = Ok b /\ 0 <= b < 2 ^ x_nbits f /\
    fix_decode f b = Ok (FFin y) /\ rf_wf y /\ R2R y = R2R r /\ (rc r = 0 -> rs r = false /\ rs y = false).
Proof. exact fix_encode_decode. Qed.
Print Assumptions C16_fixed_encode_decode.

Theorem C16_sm_decode_encode : forall f, sm_ctor_ok f = true -> forall b, 0 <= b < 2 ^ m_nbits f ->
  exists x, sm_decode f b = Ok x /\ mpbf_repr (sm_mpbf f) x = true /\ sm_encode f x = Ok b.
Proof. exact sm_decode_encode. Qed.
Print Assumptions C16_sm_decode_encode.

Theorem C16_sm_encode_decode : forall f, sm_ctor_ok f = true -> forall r,
  rf_wf r -> mpbf_repr (sm_mpbf f) (FFin r) = true ->
  exists b y, sm_encode f (FFin r) = Ok b /\ 0 <= b < 2 ^ m_nbits f /\
    sm_decode f b = Ok (FFin y) /\ rf_wf y /\ R2R y = R2R r /\ rs y = rs r.
Proof. exact sm_encode_decode. Qed.
Print Assumptions C16_sm_encode_decode.

Theorem C16_exp_decode_encode : forall f, exp_ctor_ok f = true -> forall b, 0 <= b < 2 ^ p_nbits f ->
  exists x, exp_decode f b = Ok x /\ exp_repr f x = true /\ exp_encode f x = Ok b.
Proof. exact exp_decode_encode. Qed.
Print Assumptions C16_exp_decode_encode.

Theorem C16_exp_encode_decode : forall f, exp_ctor_ok f = true -> forall x,
  fl_wf x -> exp_repr f x = true ->
  exists b y, exp_encode f x = Ok b /\ 0 <= b < 2 ^ p_nbits f /\ exp_decode f b = Ok y /\
    match x, y with
    | FFin r, FFin r' => R2R r' = R2R r
    | FNaN _, FNaN _ => True
    | _, _ => False
    end.
Proof. exact exp_encode_decode. Qed.
Print Assumptions C16_exp_encode_decode.

(* ================================================================ fixed-point ordinals (unbounded) *)
(* the ordinal is the value in units of 2^expmin: strictly increasing, onto Z,
   inverse up to the choice of encoding *)
Theorem C16_mpf_ord_value : forall f r, rf_wf r -> mpf_repr f (FFin r) = true ->
  R2R r = (IZR (mpf_to_ord_rf f r) * bpow radix2 (f_expmin f))%R.
Proof. exact mpf_ord_value. Qed.
Print Assumptions C16_mpf_ord_value.

Theorem C16_mpf_ord_compare : forall f x y, rf_wf x -> rf_wf y ->
  mpf_repr f (FFin x) = true -> mpf_repr f (FFin y) = true ->
  rf_compare x y = (mpf_to_ord_rf f x ?= mpf_to_ord_rf f y).
Proof. exact mpf_ord_compare. Qed.
Print Assumptions C16_mpf_ord_compare.

Theorem C16_mpf_to_from : forall f o,
  let y := mpf_from_ord_rf f o in
  rf_wf y /\ mpf_repr f (FFin y) = true /\ mpf_to_ord_rf f y = o.
Proof. exact mpf_to_from. Qed.
Print Assumptions C16_mpf_to_from.

Theorem C16_mpf_from_to : forall f r, rf_wf r -> mpf_repr f (FFin r) = true ->
  R2R (mpf_from_ord_rf f (mpf_to_ord_rf f r)) = R2R r.
Proof. exact mpf_from_to. Qed.
Print Assumptions C16_mpf_from_to.

(* bounded fixed point: representable = ordinal in the contiguous range *)
Theorem C16_mpbf_repr_iff_ord_range : forall g r,
  rf_wf (g_pos g) -> rf_wf (g_neg g) -> rf_wf r ->
  mpf_repr (g_mpf g) (FFin (g_pos g)) = true -> mpf_repr (g_mpf g) (FFin (g_neg g)) = true ->
  rs (g_pos g) = false -> (rc (g_neg g) <> 0 -> rs (g_neg g) = true) ->
  g_neg_ord g <= 0 <= g_pos_ord g /\
  (mpbf_repr g (FFin r) = true <->
   mpf_repr (g_mpf g) (FFin r) = true /\ g_neg_ord g <= mpf_to_ord_rf (g_mpf g) r <= g_pos_ord g).
Proof. exact mpbf_repr_iff_ord_range. Qed.
Print Assumptions C16_mpbf_repr_iff_ord_range.

(* ================================================================ floating-point ordinals (unbounded: any precision, any emin) *)
(* MPSFloatFormat._to_ordinal / from_ordinal, on which MPBFloatFormat,
   EFloatFormat and IEEEFormat build: the ordinal reads the value on the
   piecewise-linear scale `sordval` (subnormals, then 2^(p-1) codes per
   binade), which is strictly increasing *)
Theorem C16_mps_ord_value : forall f, 1 <= s_pmax f -> forall x, rf_wf x -> mps_repr_rf f x = true ->
  R2R x = (IZR (sordval (2 ^ (s_pmax f - 1)) (mps_to_ord_rf f x)) * bpow radix2 (s_expmin f))%R.
Proof. exact mps_ord_value. Qed.
Print Assumptions C16_mps_ord_value.

Theorem C16_sordval_strictly_increasing : forall d a b, 0 < d -> (sordval d a ?= sordval d b) = (a ?= b).
Proof. exact sordval_compare. Qed.
Print Assumptions C16_sordval_strictly_increasing.

Theorem C16_mps_ord_compare : forall f, 1 <= s_pmax f -> forall x y, rf_wf x -> rf_wf y ->
  mps_repr_rf f x = true -> mps_repr_rf f y = true ->
  rf_compare x y = (mps_to_ord_rf f x ?= mps_to_ord_rf f y).
Proof. exact mps_ord_compare. Qed.
Print Assumptions C16_mps_ord_compare.

Theorem C16_mps_to_from : forall f, 1 <= s_pmax f -> forall o,
  mps_to_ord_rf f (mps_from_ord_rf f o) = o.
Proof. exact mps_to_from. Qed.
Print Assumptions C16_mps_to_from.

Theorem C16_mps_from_ord_repr : forall f, 1 <= s_pmax f -> forall o,
  mps_repr_rf f (mps_from_ord_rf f o) = true.
Proof. exact mps_from_ord_repr. Qed.
Print Assumptions C16_mps_from_ord_repr.

Theorem C16_mps_from_to : forall f, 1 <= s_pmax f -> forall x, rf_wf x -> mps_repr_rf f x = true ->
  R2R (mps_from_ord_rf f (mps_to_ord_rf f x)) = R2R x.
Proof. exact mps_from_to. Qed.
Print Assumptions C16_mps_from_to.

(* bounded floats: representable = ordinal in the contiguous range *)
Theorem C16_mpb_repr_iff_ord_range : forall m x,
  1 <= b_pmax m -> rf_wf (b_pos m) -> rf_wf (b_neg m) -> rf_wf x ->
  mps_repr_rf (b_mps m) (b_pos m) = true -> mps_repr_rf (b_mps m) (b_neg m) = true ->
  rs (b_pos m) = false -> rs (b_neg m) = true ->
  b_neg_ord m <= 0 <= b_pos_ord m /\
  (mpb_repr m (FFin x) = true <->
   mps_repr_rf (b_mps m) x = true /\ b_neg_ord m <= mps_to_ord_rf (b_mps m) x <= b_pos_ord m).
Proof. exact mpb_repr_iff_ord_range. Qed.
Print Assumptions C16_mpb_repr_iff_ord_range.

(* every valid extended / IEEE format of any width: to_ordinal preserves the
   order and from_ordinal returns the same number *)
Theorem C16_efloat_ordinal_order : forall fx f x y ox oy, ef_valid f = true -> rf_wf x -> rf_wf y ->
  ef_to_ord fx f (FFin x) false = Ok ox -> ef_to_ord fx f (FFin y) false = Ok oy ->
  rf_compare x y = (ox ?= oy) /\
  R2R (mps_from_ord_rf (b_mps (ef_mpb f)) ox) = R2R x /\
  ef_from_ord f ox false = (if (ox >? b_pos_ord (ef_mpb f)) || (ox <? b_neg_ord (ef_mpb f)) then ef_from_ord f ox false
                            else Ok (FFin (mps_from_ord_rf (b_mps (ef_mpb f)) ox))).
Proof. exact ef_ordinal_order. Qed.
Print Assumptions C16_efloat_ordinal_order.

(* every ordinal format: next_up / next_down of a finite representable value
   are from_ordinal (ordinal +- 1) *)
Theorem C16_next_is_ordinal_step : forall F r allow o,
  oo_repr F (FFin r) = true -> oo_to_ord F (FFin r) false = Ok o ->
  ord_next_up F (FFin r) allow = oo_from_ord F (o + 1) allow /\
  ord_next_down F (FFin r) allow = oo_from_ord F (o + -1) allow.
Proof. exact ord_next_spec. Qed.
Print Assumptions C16_next_is_ordinal_step.

(* normalisation of the fixed-point formats *)
Theorem C16_mpf_normalize_refuted :
  exists f r, rf_wf r /\ mpf_repr f (FFin r) = true /\ rf_eqb (mpf_normalize_rf as_coded f r) r = false.
Proof. exact mpf_normalize_refuted. Qed.
Print Assumptions C16_mpf_normalize_refuted.

Theorem C16_mpf_normalize_fixed : forall f r, rf_wf r -> mpf_repr f (FFin r) = true ->
  let y := mpf_normalize_rf all_fixed f r in
  R2R y = R2R r /\ rs y = rs r /\ rexp y = f_expmin f /\ rf_wf y.
Proof. exact mpf_normalize_fixed_spec. Qed.
Print Assumptions C16_mpf_normalize_fixed.

(* ================================================================ extended floats, bounded: patterns (nbits <= 8) *)
Theorem C16_efloat_decode_representable_le8_fixed : forall f b x,
  dom8 f -> is_pattern f b -> ef_decode f b = Ok x -> ef_repr all_fixed f x = true.
Proof. exact efloat_decode_representable_le8_fixed. Qed.
Print Assumptions C16_efloat_decode_representable_le8_fixed.

Theorem C16_efloat_decode_representable_le8_partial : forall f b x,
  dom8 f -> is_pattern f b -> ef_decode f b = Ok x ->
  ef_has_nonzero f = true \/ fl_is_nar x = false ->
  ef_repr as_coded f x = true.
Proof. exact efloat_decode_representable_le8_partial. Qed.
Print Assumptions C16_efloat_decode_representable_le8_partial.

Theorem C16_efloat_decode_representable_refuted :
  exists f b x, dom8 f /\ is_pattern f b /\ ef_decode f b = Ok x /\ ef_repr as_coded f x = false.
Proof. exact efloat_decode_representable_refuted. Qed.
Print Assumptions C16_efloat_decode_representable_refuted.

Theorem C16_efloat_decode_encode_le8_fixed : forall f b x,
  dom8 f -> is_pattern f b -> ef_decode f b = Ok x ->
  (fl_isnan x = false -> ef_encode all_fixed f x = Ok b) /\
  (fl_isnan x = true -> exists b' y, ef_encode all_fixed f x = Ok b' /\ ef_decode f b' = Ok y /\ fl_isnan y = true).
Proof. exact efloat_decode_encode_le8_fixed. Qed.
Print Assumptions C16_efloat_decode_encode_le8_fixed.

Theorem C16_efloat_decode_encode_le8_partial : forall f b x,
  dom8 f -> is_pattern f b -> ef_decode f b = Ok x ->
  ef_has_nonzero f = true \/ fl_is_nar x = false ->
  ~ (e_kind f = NK_MAXVAL /\ e_nbits f - e_es f = 1 /\ fl_isinf x = true) ->
  (fl_isnan x = false -> ef_encode as_coded f x = Ok b) /\
  (fl_isnan x = true -> exists b' y, ef_encode as_coded f x = Ok b' /\ ef_decode f b' = Ok y /\ fl_isnan y = true).
Proof. exact efloat_decode_encode_le8_partial. Qed.
Print Assumptions C16_efloat_decode_encode_le8_partial.

Theorem C16_efloat_decode_encode_refuted :
  exists f b x b', dom8 f /\ is_pattern f b /\ ef_decode f b = Ok x /\ fl_isnan x = false /\
    ef_repr as_coded f x = true /\ ef_encode as_coded f x = Ok b' /\ b' <> b.
Proof. exact efloat_decode_encode_refuted. Qed.
Print Assumptions C16_efloat_decode_encode_refuted.

(* ordinals: every decoded finite value has an ordinal in the range, mapping
   back to the same number (the two zeros share ordinal 0) *)
Theorem C16_efloat_ordinal_of_decoded_le8 : forall fx f b r,
  dom8 f -> is_pattern f b -> ef_decode f b = Ok (FFin r) ->
  rf_wf r /\
  exists o y, ef_to_ord fx f (FFin r) false = Ok o /\
    b_neg_ord (ef_mpb f) <= o <= b_pos_ord (ef_mpb f) /\
    ef_from_ord f o false = Ok (FFin y) /\ rf_eqb y r = true.
Proof. exact efloat_ordinal_of_decoded_le8. Qed.
Print Assumptions C16_efloat_ordinal_of_decoded_le8.

(* every ordinal of the contiguous range is the ordinal of a decoded value *)
Theorem C16_efloat_ordinal_range_le8 : forall fx f o,
  dom8 f -> b_neg_ord (ef_mpb f) <= o <= b_pos_ord (ef_mpb f) ->
  exists y, ef_from_ord f o false = Ok (FFin y) /\ rf_wf y /\
    ef_to_ord fx f (FFin y) false = Ok o /\
    in_decoded_set f (FFin y) = true /\
    (o < b_pos_ord (ef_mpb f) ->
       exists y', ef_from_ord f (o + 1) false = Ok (FFin y') /\ rf_compare y y' = Lt).
Proof. exact efloat_ordinal_range_le8. Qed.
Print Assumptions C16_efloat_ordinal_range_le8.

Theorem C16_efloat_ordinal_zero_in_range_le8 : forall f,
  dom8 f -> b_neg_ord (ef_mpb f) <= 0 <= b_pos_ord (ef_mpb f).
Proof. exact efloat_ordinal_zero_in_range_le8. Qed.
Print Assumptions C16_efloat_ordinal_zero_in_range_le8.

(* strictly increasing on the whole range *)
Theorem C16_efloat_ordinal_strictly_increasing_le8 : forall f o1 o2,
  dom8 f -> b_neg_ord (ef_mpb f) <= o1 -> o1 < o2 -> o2 <= b_pos_ord (ef_mpb f) ->
  exists y1 y2, ef_from_ord f o1 false = Ok (FFin y1) /\ ef_from_ord f o2 false = Ok (FFin y2) /\
    rf_wf y1 /\ rf_wf y2 /\ (R2R y1 < R2R y2)%R.
Proof. exact efloat_ordinal_strictly_increasing_le8. Qed.
Print Assumptions C16_efloat_ordinal_strictly_increasing_le8.

(* next_up / next_down step by one ordinal and stop at the ends *)
Theorem C16_efloat_next_le8 : forall fx f b r,
  fx = as_coded \/ fx = all_fixed -> dom8 f -> is_pattern f b -> ef_decode f b = Ok (FFin r) ->
  exists o, ef_to_ord fx f (FFin r) false = Ok o /\
    ord_next_up (ef_ops fx f) (FFin r) false = ef_from_ord f (o + 1) false /\
    ord_next_down (ef_ops fx f) (FFin r) false = ef_from_ord f (o + -1) false /\
    (o = b_pos_ord (ef_mpb f) -> exists e, ef_from_ord f (o + 1) false = Err e) /\
    (o = b_neg_ord (ef_mpb f) -> exists e, ef_from_ord f (o + -1) false = Err e).
Proof. exact efloat_next_le8. Qed.
Print Assumptions C16_efloat_next_le8.

(* min / max queries agree with the decoded value set *)
Theorem C16_efloat_largest_smallest_le8 : forall fx f,
  fx = as_coded \/ fx = all_fixed -> dom8 f ->
  exists hi lo, ef_largest fx f = Ok (FFin hi) /\ ef_smallest fx f = Ok (FFin lo) /\
    in_decoded_set f (FFin hi) = true /\ in_decoded_set f (FFin lo) = true /\
    forall b r, is_pattern f b -> ef_decode f b = Ok (FFin r) -> rf_leb lo r = true /\ rf_leb r hi = true.
Proof. exact efloat_largest_smallest_le8. Qed.
Print Assumptions C16_efloat_largest_smallest_le8.

Theorem C16_efloat_maxval_le8 : forall fx f s,
  fx = as_coded \/ fx = all_fixed -> dom8 f ->
  match ef_maxval fx f s with
  | Ok y => exists m, y = FFin m /\ rs m = s /\ in_decoded_set f y = true /\
      forall b r, is_pattern f b -> ef_decode f b = Ok (FFin r) -> rs r = s -> mag_leb s r m = true
  | Err _ => forall b r, is_pattern f b -> ef_decode f b = Ok (FFin r) -> rs r <> s
  end.
Proof. exact efloat_maxval_le8. Qed.
Print Assumptions C16_efloat_maxval_le8.

Theorem C16_efloat_minval_le8 : forall fx f s,
  fx = as_coded \/ fx = all_fixed -> dom8 f ->
  match ef_minval fx f s with
  | Ok y => exists m, y = FFin m /\ rs m = s /\ is_zero m = false /\ in_decoded_set f y = true /\
      forall b r, is_pattern f b -> ef_decode f b = Ok (FFin r) -> rs r = s -> is_zero r = false -> mag_leb s m r = true
  | Err _ => forall b r, is_pattern f b -> ef_decode f b = Ok (FFin r) -> rs r = s -> is_zero r = true
  end.
Proof. exact efloat_minval_le8. Qed.
Print Assumptions C16_efloat_minval_le8.

(* ================================================================ extended floats, bounded: candidate values (nbits <= 6) *)
(* representable_in = membership in the decoded value set, on every encoding
   with one redundant significand bit and exponents beyond the range, and on
   the special values *)
Theorem C16_efloat_representable_iff_decoded_le6_fixed : forall f x,
  dom6 f -> in_cand_range f 1 x -> ef_repr all_fixed f x = in_decoded_set f x.
Proof. exact efloat_representable_iff_decoded_le6_fixed. Qed.
Print Assumptions C16_efloat_representable_iff_decoded_le6_fixed.

Theorem C16_efloat_representable_iff_decoded_le6_partial : forall f x,
  dom6 f -> in_cand_range f 1 x -> ef_has_nonzero f = true \/ fl_is_nar x = false ->
  ef_repr as_coded f x = in_decoded_set f x.
Proof. exact efloat_representable_iff_decoded_le6_partial. Qed.
Print Assumptions C16_efloat_representable_iff_decoded_le6_partial.

Theorem C16_efloat_encode_decode_le6_fixed : forall f x,
  dom6 f -> in_cand_range f 1 x -> ef_repr all_fixed f x = true ->
  exists b y, ef_encode all_fixed f x = Ok b /\ is_pattern f b /\ ef_decode f b = Ok y /\ fl_equiv y x = true.
Proof. exact efloat_encode_decode_le6_fixed. Qed.
Print Assumptions C16_efloat_encode_decode_le6_fixed.

Theorem C16_efloat_encode_decode_le6_partial : forall f x,
  dom6 f -> in_cand_range f 1 x -> ef_repr as_coded f x = true ->
  ~ (e_kind f = NK_MAXVAL /\ e_nbits f - e_es f = 1 /\ fl_isinf x = true) ->
  ~ (e_kind f = NK_NEGZERO /\ x = FNaN false) ->
  exists b y, ef_encode as_coded f x = Ok b /\ is_pattern f b /\ ef_decode f b = Ok y /\ fl_equiv y x = true.
Proof. exact efloat_encode_decode_le6_partial. Qed.
Print Assumptions C16_efloat_encode_decode_le6_partial.

Theorem C16_efloat_encode_nan_refuted :
  exists f b y, dom6 f /\ ef_repr as_coded f (FNaN false) = true /\
    ef_encode as_coded f (FNaN false) = Ok b /\ ef_decode f b = Ok y /\ fl_equiv y (FNaN false) = false.
Proof. exact efloat_encode_nan_refuted. Qed.
Print Assumptions C16_efloat_encode_nan_refuted.

(* normalize: same number, canonical, and (finite) literally a decoded encoding *)
Theorem C16_efloat_normalize_le6 : forall fx f x,
  fx = as_coded \/ fx = all_fixed -> dom6 f -> in_cand_range f 1 x -> ef_repr fx f x = true ->
  exists y, ef_normalize fx f x = Ok y /\ fl_equiv y x = true /\ ef_canonical fx f y = Ok true /\
    (fl_is_nar y = false -> exists b, is_pattern f b /\ ef_decode f b = Ok y).
Proof. exact efloat_normalize_le6. Qed.
Print Assumptions C16_efloat_normalize_le6.

(* ================================================================ reading the boolean relations; non-vacuity *)
Theorem C16_in_decoded_set_spec : forall f x, in_decoded_set f x = true <->
  exists b y, is_pattern f b /\ ef_decode f b = Ok y /\ fl_equiv y x = true.
Proof. exact in_decoded_set_spec. Qed.
Print Assumptions C16_in_decoded_set_spec.

Theorem C16_fl_equiv_sound : forall x y, fl_wf x -> fl_wf y -> fl_equiv x y = true ->
  match x, y with
  | FFin a, FFin b => R2R a = R2R b /\ (rc a = 0 -> rs a = rs b)
  | FInf s, FInf t => s = t
  | FNaN _, FNaN _ => True
  | _, _ => False
  end.
Proof. exact fl_equiv_sound. Qed.
Print Assumptions C16_fl_equiv_sound.

Theorem C16_rf_order_sound : forall a b, rf_wf a -> rf_wf b ->
  (rf_eqb a b = true <-> R2R a = R2R b) /\
  (rf_leb a b = true <-> (R2R a <= R2R b)%R) /\
  (rf_compare a b = Lt <-> (R2R a < R2R b)%R).
Proof. exact rf_order_sound. Qed.
Print Assumptions C16_rf_order_sound.

Theorem C16_hypotheses_satisfiable :
  dom8 (EF 4 8 false NK_NEGZERO 0) /\ dom6 (EF 2 6 true NK_MAXVAL (-3)) /\
  dom8 (EF 5 8 true NK_IEEE 3) /\ dom8 (EF 0 1 false NK_NONE 0) /\
  is_pattern (EF 4 8 false NK_NEGZERO 0) 200 /\
  in_cand_range (EF 2 6 true NK_MAXVAL (-3)) 1 (FFin (RF true (-3) 30)) /\
  ef_valid (EF 8 32 true NK_IEEE 0) = true /\ ef_valid (EF 11 64 true NK_IEEE 0) = true /\
  fix_ctor_ok (FIXF true (-8) 32) = true /\ sm_ctor_ok (SMF 3 16) = true /\ exp_ctor_ok (EXPF 8 0) = true /\
  mpbf_repr (fix_mpbf (FIXF true (-8) 32)) (FFin (RF true (-10) 1028)) = true /\
  mpbf_repr (sm_mpbf (SMF 3 16)) (FFin (RF true 5 0)) = true /\
  exp_repr (EXPF 8 0) (FFin (RF false 3 4)) = true /\
  mpf_repr (MPFF (-5) false false true) (FFin (RF true (-6) 12)) = true.
Proof. exact domains_inhabited. Qed.
Print Assumptions C16_hypotheses_satisfiable.
