(* Property C13 — static analysis facts hold on every execution.
   Only statements, each closed by `exact`, each followed by Print Assumptions.

   Vocabulary (coq/Analysis/Instr.v, FactClass.v): `afunc ann` is a function whose
   expression nodes, binding sites, phi points and variable uses carry the facts
   `ann` an analysis reported; `erase_f` forgets them.  `icall` is the
   instrumented evaluator: its second component is the result of Sem.call on
   the erased function, its first component the trace of events of the execution
   (also of executions that fail or run out of fuel). *)
From Coq Require Import ZArith List Bool String Reals.
From FpyV Require Import Num.RealFloat Num.Float Num.CtxDef Lang.Syntax Lang.Values Lang.Sem Lang.NumInst
  Analysis.ClassLattice Analysis.ClassLatticeProofs Analysis.Instr Analysis.InstrProofs
  Analysis.FactClass Analysis.FactClassProofs Analysis.FactClassInst
  Analysis.FactReach Analysis.FactReachProofs Analysis.FactConst Analysis.FactConstProofs.
Import ListNotations.

(* The instrumented evaluator is the evaluator: same result at every fuel. *)
Theorem C13_instrumented_is_sem : forall (A : Type) (N : numops) (P : program) n (fn : afunc A) vs mu C,
  snd (icall A N P n fn vs mu C) = call N P n (erase_f A fn) vs mu C.
Proof. exact icall_erase. Qed.
Print Assumptions C13_instrumented_is_sem.

(* class_facts_sound: if the checker accepts the reported value classes (and
   operator contexts), every event of every execution -- any fuel, any
   arguments in the classes reported for the parameters, any store and caller
   context -- satisfies its fact: each expression value, each bound value and
   each value at a phi lies in its reported class, each operator runs under
   its reported context.  For every number instance N with "exact result, then
   one rounding" class behaviour (NumClassSpec). *)
Theorem C13_class_facts_sound : forall (N : numops) (Rd : ctx -> cls -> cls),
  NumClassSpec N Rd ->
  forall (P : program) (f : afunc ann), check_class_func Rd (n_ctor N) f = true ->
  forall n vs mu C,
    Forall2 (fun ax v => sat_cls (rep (fst ax)) v = true) (af_params f) vs ->
    Forall (fun ev => ev_class_ok ev = true) (fst (icall ann N P n f vs mu C)).
Proof. exact class_facts_sound_call. Qed.
Print Assumptions C13_class_facts_sound.

(* ... and the number instance of the tie has that behaviour *)
Theorem C13_class_spec_instance : NumClassSpec okprov_numops R_prov.
Proof. exact okprov_class_spec. Qed.
Print Assumptions C13_class_spec_instance.

(* const_facts_sound: if the checker accepts the reported constants, every
   expression reported constant evaluates to that constant (same class, sign
   and value) in every execution.  The checker re-evaluates with the model in
   the environment of the names it knows to be constant; soundness is
   determinism of pure scalar evaluation. *)
Theorem C13_const_facts_sound : forall (N : numops) (P : program) (f : afunc ann),
  check_const_func N P f = true ->
  forall n vs mu C, Forall (fun ev => ev_const_ok ev = true) (fst (icall ann N P n f vs mu C)).
Proof. exact const_facts_sound_call. Qed.
Print Assumptions C13_const_facts_sound.

(* reach_facts_sound: if the checker accepts the reported definition / use /
   phi structure then in every execution every variable read observes a
   binding made at a site whose definition reaches (through the reported phis
   T) the definition the read resolves to, and the value at every phi point was
   bound by a definition reaching the phi.  IndexedAssign is a fresh
   definition of the list; loop heads need the back edge. *)
Theorem C13_reach_facts_sound : forall (T : ptable) (N : numops) (P : program) (f : afunc ann),
  check_reach_func T f = true ->
  forall n vs mu C,
    Forall (fun ev => match ev with
                      | EvUse a (Some ad) => reach T (an_def a) (an_def ad)
                      | EvUse _ None => False
                      | EvPhi a _ _ (Some ad) => reach T (an_def a) (an_def ad)
                      | EvPhi _ _ _ None => False
                      | _ => True
                      end) (fst (icall ann N P n f vs mu C)).
Proof. exact reach_facts_sound_call. Qed.
Print Assumptions C13_reach_facts_sound.

(* the executable form of the reach claim (evaluated on model traces in the tie) implies it *)
Theorem C13_reach_claim_decidable : forall T ev, ev_reach_okb T ev = true -> evr T ev.
Proof. exact ev_reach_okb_sound. Qed.
Print Assumptions C13_reach_claim_decidable.

(* determinism behind the constant checker: a pure scalar expression has one
   value in all environments that agree on the checker's names *)
Theorem C13_pure_evaluation_deterministic : forall (N : numops) (P : program) k e G s D1 D2 mu1 mu2 C v1 v2 m1 m2,
  snd (ieval ann N P k G D1 mu1 C e) = ROk (v1, m1) -> snd (ieval ann N P k s D2 mu2 C e) = ROk (v2, m2) ->
  pure_e e = true -> cinv G s -> gscalar G -> v1 = v2.
Proof. exact pure_agree. Qed.
Print Assumptions C13_pure_evaluation_deterministic.

(* Branch refinement: whatever a condition's truth value implies for
   value_class (isnan / isinf / isfinite / == 0 / != 0 / orderings, through
   not / and / or) is true of the environment it was evaluated in. *)
Theorem C13_refinement_sound : forall (N : numops) (Rd : ctx -> cls -> cls),
  NumClassSpec N Rd ->
  forall (P : program) n s D mu C (c : aexpr ann) b mu',
    snd (ieval ann N P n s D mu C c) = ROk (VBool b, mu') ->
    forall x cl, In (x, cl) (implied c b) -> forall v, env_get s x = Some v -> sat_cls cl v = true.
Proof. exact implied_sound. Qed.
Print Assumptions C13_refinement_sound.

(* The atom tables against IEEE 754 arithmetic on extended reals (exact result,
   then one rounding): inf - inf may be NaN, 0 * inf is NaN, cancellation may
   give zero, x / 0 is an infinity, sqrt of a negative is NaN, and a finite
   non-zero value may round to zero or overflow to an infinity. *)
Theorem C13_add_table : forall a b, mem (xatom (FloatProofs.xadd a b)) (a_add (xatom a) (xatom b)) = true.
Proof. exact a_add_ieee. Qed.
Print Assumptions C13_add_table.

Theorem C13_mul_table : forall a b sa sb, mem (xatom (FloatProofs.xmul a b sa sb)) (a_mul (xatom a) (xatom b)) = true.
Proof. exact a_mul_ieee. Qed.
Print Assumptions C13_mul_table.

Theorem C13_div_table : forall a b sa sb, mem (xatom (xdiv a b sa sb)) (a_div (xatom a) (xatom b)) = true.
Proof. exact a_div_ieee. Qed.
Print Assumptions C13_div_table.

Theorem C13_sqrt_table : forall a, mem (xatom (xsqrt a)) (a_sqrt (xatom a)) = true.
Proof. exact a_sqrt_ieee. Qed.
Print Assumptions C13_sqrt_table.

Theorem C13_fma_table : forall a b c sa sb,
  mem (xatom (xfma a b c sa sb)) (a_fma (xatom a) (xatom b) (xatom c)) = true.
Proof. exact a_fma_ieee. Qed.
Print Assumptions C13_fma_table.

Theorem C13_round_table : forall (rnd : R -> R) ovf a,
  rnd 0%R = 0%R -> ovf 0%R = None ->
  mem (xatom (xround rnd ovf a)) (a_round (xatom a)) = true.
Proof. exact a_round_ieee. Qed.
Print Assumptions C13_round_table.

(* hypotheses are satisfiable: a function the checker accepts *)
Example C13_example_accepts :
  check_class_func R_prov (n_ctor okprov_numops)
    (AFunc [(Ann (Some c_top) None None 0 [], "x"%string)] (Some CReal)
       [ASReturn (AOp2 (Ann (Some (Cls true false true false)) (Some CReal) None 0 []) OMul
                    (AVar (Ann (Some c_top) None None 0 []) "x"%string)
                    (ANum (Ann (Some (single AZero)) None None 0 []) (FFin (RF false 0 0))))]) = true.
Proof. vm_compute. reflexivity. Qed.
