(* Property C01 — rounding under any context is correct rounding.
   Statements only. *)
From Coq Require Import ZArith Bool Reals.
From Flocq Require Import Core.Zaux Core.Raux Core.Defs Core.Generic_fmt Core.Round_pred.
From FpyV Require Import Num.RealFloat Num.RealFloatProofs Num.RoundSpec Num.RoundProofs.
Open Scope Z_scope.

(* N1: RealFloat.round is Flocq's round, every mode, every shape, every operand *)
Theorem C01_round_flocq : forall x max_p min_n rm,
  rf_wf x -> rc x <> 0 ->
  match max_p with Some p => 1 <= p | None => True end ->
  (max_p <> None \/ min_n <> None) ->
  exists y fl,
    rf_round x max_p min_n rm false = Ok (y, fl) /\
    R2R y = round radix2 (fexp_of max_p min_n) (rnd_of rm) (R2R x) /\
    rs y = rs x /\ rf_wf y.
Proof. exact round_flocq. Qed.
Print Assumptions C01_round_flocq.

Theorem C01_round_zero : forall x max_p min_n rm, rc x = 0 -> (max_p <> None \/ min_n <> None) ->
  exists y fl, rf_round x max_p min_n rm false = Ok (y, fl) /\ rc y = 0 /\ rs y = rs x /\ f_inexact fl = false.
Proof. exact round_zero. Qed.
Print Assumptions C01_round_zero.

Theorem C01_inexact_truthful : forall x p n emin rm y fl,
  0 < rc x -> p_ok x p n ->
  round_at x p n emin rm false = Ok (y, fl) ->
  (f_inexact fl = false <-> R2R y = R2R x).
Proof. exact round_inexact_truthful. Qed.
Print Assumptions C01_inexact_truthful.

(* the eight modes are the independent Flocq integer roundings *)
Theorem C01_mode_choice_valid : forall rm x m l, Flocq.Calc.Bracket.inbetween_int m (Rabs x) l ->
  rnd_of rm x = cond_Zopp (Rlt_bool x 0) (mode_choice rm (Rlt_bool x 0) m l).
Proof. exact mode_choice_valid. Qed.
Print Assumptions C01_mode_choice_valid.

(* ---------------------------------------------------------------- context families *)
From Flocq Require Import Core.FLX Core.FLT Core.FIX.
From FpyV Require Import Num.Float Num.CtxDef Num.Ctx Num.CtxProofs.

(* value, truthful inexact flag, no spurious overflow flag — every shape, every mode *)
Theorem C01_rf_round_spec : forall x max_p min_n rm,
  rf_wf x -> rc x <> 0 ->
  match max_p with Some p => 1 <= p | None => True end ->
  (max_p <> None \/ min_n <> None) ->
  exists y fl,
    rf_round x max_p min_n rm false = Ok (y, fl) /\
    R2R y = round radix2 (fexp_of max_p min_n) (rnd_of rm) (R2R x) /\
    rs y = rs x /\ rf_wf y /\
    (f_inexact fl = false <-> R2R y = R2R x) /\ f_overflow fl = false.
Proof. exact rf_round_spec. Qed.
Print Assumptions C01_rf_round_spec.

(* the result is a member of the format and one of the two neighbours *)
Theorem C01_result_member_neighbour : forall x max_p min_n rm,
  rf_wf x -> rc x <> 0 ->
  match max_p with Some p => 1 <= p | None => True end ->
  (max_p <> None \/ min_n <> None) ->
  exists y fl, rf_round x max_p min_n rm false = Ok (y, fl) /\
    generic_format radix2 (fexp_of max_p min_n) (R2R y) /\
    (R2R y = round radix2 (fexp_of max_p min_n) Zfloor (R2R x) \/
     R2R y = round radix2 (fexp_of max_p min_n) Zceil (R2R x)).
Proof. exact result_member_neighbour. Qed.
Print Assumptions C01_result_member_neighbour.

(* a representable operand is returned unchanged and unflagged *)
Theorem C01_representable_unchanged : forall x max_p min_n rm,
  rf_wf x -> rc x <> 0 ->
  match max_p with Some p => 1 <= p | None => True end ->
  (max_p <> None \/ min_n <> None) ->
  generic_format radix2 (fexp_of max_p min_n) (R2R x) ->
  exists y fl, rf_round x max_p min_n rm false = Ok (y, fl) /\ R2R y = R2R x /\ f_inexact fl = false.
Proof. exact representable_unchanged. Qed.
Print Assumptions C01_representable_unchanged.

Theorem C01_mpfloat_round_spec : forall p rm sp x rb,
  1 <= p -> rf_wf x -> rc x <> 0 ->
  exists y f,
    round_mpfloat p rm (Some 0) sp (FFin x) None rb = Ok (FFin y, f) /\
    R2R y = round radix2 (FLX_exp p) (rnd_of rm) (R2R x) /\
    (f_inexact f = false <-> R2R y = R2R x) /\ f_overflow f = false.
Proof. exact mpfloat_round_spec. Qed.
Print Assumptions C01_mpfloat_round_spec.

Theorem C01_mpsfloat_round_spec : forall p emin rm sp x rb,
  1 <= p -> rf_wf x -> rc x <> 0 ->
  exists y f,
    round_mpsfloat p emin rm (Some 0) sp (FFin x) None rb = Ok (FFin y, f) /\
    R2R y = round radix2 (FLT_exp (emin - p + 1) p) (rnd_of rm) (R2R x) /\
    (f_inexact f = false <-> R2R y = R2R x) /\ f_overflow f = false.
Proof. exact mpsfloat_round_spec. Qed.
Print Assumptions C01_mpsfloat_round_spec.

(* bounded floats: the overflow rule applies exactly when the rounded value leaves the range *)
Theorem C01_mpbfloat_round_spec : forall p emin pos_max neg_max rm ov sp x rb,
  1 <= p -> rf_wf x -> rc x <> 0 ->
  rf_wf pos_max -> rf_wf neg_max -> rs pos_max = false -> (rs neg_max = true \/ rc neg_max = 0) ->
  let r := round radix2 (FLT_exp (emin - p + 1) p) (rnd_of rm) (R2R x) in
  (in_range pos_max neg_max r ->
     exists y f, round_mpbfloat p emin pos_max neg_max rm ov (Some 0) sp (FFin x) None rb = Ok (FFin y, f) /\
       R2R y = r /\ (f_inexact f = false <-> R2R y = R2R x) /\ f_overflow f = false) /\
  (~ in_range pos_max neg_max r ->
     round_mpbfloat p emin pos_max neg_max rm ov (Some 0) sp (FFin x) None rb =
     overflow_result pos_max neg_max rm ov sp (rs x) true).
Proof. exact mpbfloat_round_spec. Qed.
Print Assumptions C01_mpbfloat_round_spec.

Theorem C01_overflow_result_flags : forall pos_max neg_max rm ov sp s b v f,
  overflow_result pos_max neg_max rm ov sp s b = Ok (v, f) -> f_overflow f = true /\ f_inexact f = true.
Proof. exact overflow_result_flags. Qed.
Print Assumptions C01_overflow_result_flags.

Theorem C01_mpfixed_round_spec : forall nmin rm sp nz x rb,
  rf_wf x -> rc x <> 0 ->
  exists y f,
    round_mpfixed nmin rm (Some 0) sp nz (FFin x) None rb = Ok (FFin y, f) /\
    R2R y = round radix2 (FIX_exp (nmin + 1)) (rnd_of rm) (R2R x) /\
    (f_inexact f = false <-> R2R y = R2R x) /\ f_overflow f = false.
Proof. exact mpfixed_round_spec. Qed.
Print Assumptions C01_mpfixed_round_spec.

(* bounded fixed point: overflow rule incl. WRAP = the ordinal congruent modulo the number of values *)
Theorem C01_mpbfixed_round_spec : forall nmin pos_max neg_max rm ov sp nz x rb,
  rf_wf x -> rc x <> 0 ->
  rf_wf pos_max -> rf_wf neg_max -> rs pos_max = false -> (rs neg_max = true \/ rc neg_max = 0) ->
  let r := round radix2 (FIX_exp (nmin + 1)) (rnd_of rm) (R2R x) in
  exists y f0, rf_round x None (Some nmin) rm false = Ok (y, f0) /\ R2R y = r /\
  (in_range pos_max neg_max r ->
     exists y' f, round_mpbfixed nmin pos_max neg_max rm ov (Some 0) sp nz (FFin x) None rb = Ok (FFin y', f) /\
       R2R y' = r /\ (f_inexact f = false <-> R2R y' = R2R x) /\ f_overflow f = false) /\
  (~ in_range pos_max neg_max r ->
     round_mpbfixed nmin pos_max neg_max rm ov (Some 0) sp nz (FFin x) None rb =
     overflow_result_fixed nmin pos_max neg_max rm ov sp (rs x) y).
Proof. exact mpbfixed_round_spec. Qed.
Print Assumptions C01_mpbfixed_round_spec.

Theorem C01_wrap_ordinal_spec : forall o neg_ord pos_ord,
  neg_ord <= pos_ord ->
  let total := pos_ord - neg_ord + 1 in
  let o' := (o - neg_ord) mod total + neg_ord in
  neg_ord <= o' <= pos_ord /\ (o' - o) mod total = 0.
Proof. exact wrap_ordinal_spec. Qed.
Print Assumptions C01_wrap_ordinal_spec.

Theorem C01_fixed_ordinal_roundtrip : forall nmin o, fixed_to_ordinal nmin (fixed_from_ordinal nmin o) = o.
Proof. exact fixed_ordinal_roundtrip. Qed.
Print Assumptions C01_fixed_ordinal_roundtrip.

(* EFloat parameter derivation: the context model uses the same derived (p, emin, maxval) as the encoding
   model of C16, whose theorems (C16_efloat_maxval_le8 etc.) say that this maxval is the largest finite
   value of the published bit layout *)
From FpyV Require Import Num.Formats Num.CtxFormatsBridge.
Theorem C01_ext_to_mpb_agree : forall es nbits einf nk eo,
  Ctx.ext_to_mpb es nbits einf nk eo =
  bind (Formats.ext_to_mpb (EF es nbits einf (nk_conv nk) eo))
       (fun m => Ok (b_pmax m, b_emin m, b_pos m)).
Proof. exact ext_to_mpb_agree. Qed.
Print Assumptions C01_ext_to_mpb_agree.

Theorem C01_efloat_valid_agree : forall es nbits einf nk,
  Ctx.efloat_valid es nbits einf nk = Formats.format_is_valid es nbits einf (nk_conv nk).
Proof. exact efloat_valid_agree. Qed.
Print Assumptions C01_efloat_valid_agree.
