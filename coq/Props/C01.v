(* Property C01 — rounding under any context is correct rounding.
   Statements only. *)
From Coq Require Import ZArith Bool Reals.
From Flocq Require Import Core.Zaux Core.Raux Core.Defs Core.Generic_fmt Core.Round_pred.
From FpyV Require Import Num.RealFloat Num.RealFloatProofs Num.RoundSpec Num.RoundProofs.
Open Scope Z_scope.

(* N1: RealFloat.round is Flocq's round, every mode, every shape, every operand *)
Theorem C01_round_flocq : forall x max_p min_n rm,
  rf_wf x -> rc x <> 0 ->
  match max_p with Some p => 1 <= p | None => True end ->
  (max_p <> None \/ min_n <> None) ->
  exists y fl,
    rf_round x max_p min_n rm false = Ok (y, fl) /\
    R2R y = round radix2 (fexp_of max_p min_n) (rnd_of rm) (R2R x) /\
    rs y = rs x /\ rf_wf y.
Proof. exact round_flocq. Qed.
Print Assumptions C01_round_flocq.

Theorem C01_round_zero : forall x max_p min_n rm, rc x = 0 -> (max_p <> None \/ min_n <> None) ->
  exists y fl, rf_round x max_p min_n rm false = Ok (y, fl) /\ rc y = 0 /\ rs y = rs x /\ f_inexact fl = false.
Proof. exact round_zero. Qed.
Print Assumptions C01_round_zero.

Theorem C01_inexact_truthful : forall x p n emin rm y fl,
  0 < rc x -> p_ok x p n ->
  round_at x p n emin rm false = Ok (y, fl) ->
  (f_inexact fl = false <-> R2R y = R2R x).
Proof. exact round_inexact_truthful. Qed.
Print Assumptions C01_inexact_truthful.

(* the eight modes are the independent Flocq integer roundings *)
Theorem C01_mode_choice_valid : forall rm x m l, Flocq.Calc.Bracket.inbetween_int m (Rabs x) l ->
  rnd_of rm x = cond_Zopp (Rlt_bool x 0) (mode_choice rm (Rlt_bool x 0) m l).
Proof. exact mode_choice_valid. Qed.
Print Assumptions C01_mode_choice_valid.
